package smt

import (
	"bufio"
	"fmt"
	"io"
	"os/exec"
	"strconv"
	"strings"
	"sync/atomic"
	"time"
)

// Result of a check-sat call.
type Result int

const (
	Sat Result = iota
	Unsat
	Unknown
)

func (r Result) String() string { return [...]string{"sat", "unsat", "unknown"}[r] }

// Stats are global counters over all solver sessions of the process.
var (
	StatSat, StatUnsat, StatUnknown, StatErrors int64
	StatNanos                                   int64
)

// Solver is one long-lived solver process driven over stdin/stdout.
type Solver struct {
	Name      string
	cmd       *exec.Cmd
	in        io.WriteCloser
	out       *bufio.Reader
	defined   []map[*Term]bool // per push level
	Log       io.Writer
	TimeoutMs int
	shadows   []*Solver // cross-checking back ends: fed the same script, must give the same verdicts
}

// Cross-check statistics.
var StatCrossChecked, StatCrossMismatch int64

// AddShadow attaches a second back end that receives every command; Check compares verdicts.
func (s *Solver) AddShadow(name string) error {
	sh, err := NewSolver(name)
	if err != nil {
		return err
	}
	s.shadows = append(s.shadows, sh)
	return nil
}

// Backends known on this image.
func backendCmd(name string) []string {
	switch name {
	case "z3":
		return []string{"z3", "-in"}
	case "z3-new":
		return []string{"z3-new", "-in"}
	case "cvc5":
		return []string{"cvc5", "--incremental", "--produce-models", "--lang=smt2"}
	}
	return []string{name}
}

func NewSolver(name string) (*Solver, error) {
	args := backendCmd(name)
	cmd := exec.Command(args[0], args[1:]...)
	in, err := cmd.StdinPipe()
	if err != nil {
		return nil, err
	}
	outp, err := cmd.StdoutPipe()
	if err != nil {
		return nil, err
	}
	cmd.Stderr = cmd.Stdout
	if err := cmd.Start(); err != nil {
		return nil, err
	}
	s := &Solver{Name: name, cmd: cmd, in: in, out: bufio.NewReaderSize(outp, 1<<16), TimeoutMs: 60000}
	s.defined = []map[*Term]bool{{}}
	s.send("(set-option :print-success false)")
	s.send("(set-option :produce-models true)")
	if name != "cvc5" {
		s.send(fmt.Sprintf("(set-option :timeout %d)", s.TimeoutMs))
	} else {
		s.send("(set-logic ALL)")
	}
	return s, nil
}

func (s *Solver) Close() {
	for _, sh := range s.shadows {
		sh.Close()
	}
	if s.cmd != nil {
		s.in.Close()
		s.cmd.Process.Kill()
		s.cmd.Wait()
		s.cmd = nil
	}
}

func (s *Solver) send(line string) {
	for _, sh := range s.shadows {
		if !strings.HasPrefix(line, "(check-sat)") && !strings.HasPrefix(line, "(echo") && !strings.HasPrefix(line, "(get-value") {
			sh.send(line)
		}
	}
	if s.Log != nil {
		fmt.Fprintln(s.Log, line)
	}
	io.WriteString(s.in, line)
	io.WriteString(s.in, "\n")
}

func (s *Solver) isDefined(t *Term) bool {
	for _, m := range s.defined {
		if m[t] {
			return true
		}
	}
	return false
}

func (s *Solver) ref(t *Term) string {
	switch t.Op {
	case OpConst:
		return constStr(t)
	case OpVar:
		return t.Name
	}
	return "t" + strconv.Itoa(t.ID)
}

// define emits declarations/definitions for t and all of its sub-terms.
func (s *Solver) define(t *Term) {
	if t.Op == OpConst || s.isDefined(t) {
		return
	}
	for _, a := range t.Args {
		s.define(a)
	}
	top := s.defined[len(s.defined)-1]
	top[t] = true
	if t.Op == OpVar {
		s.send(fmt.Sprintf("(declare-const %s %s)", t.Name, sortOf(t)))
		return
	}
	var sb strings.Builder
	sb.WriteString("(define-fun t")
	sb.WriteString(strconv.Itoa(t.ID))
	sb.WriteString(" () ")
	sb.WriteString(sortOf(t))
	sb.WriteString(" (")
	sb.WriteString(head(t))
	for _, a := range t.Args {
		sb.WriteByte(' ')
		sb.WriteString(s.ref(a))
	}
	sb.WriteString("))")
	s.send(sb.String())
}

func (s *Solver) Push() {
	s.defined = append(s.defined, map[*Term]bool{})
	s.send("(push 1)")
}

func (s *Solver) Pop() {
	s.defined = s.defined[:len(s.defined)-1]
	s.send("(pop 1)")
}

// Reset drops every assertion and definition.
func (s *Solver) Reset() {
	for len(s.defined) > 1 {
		s.Pop()
	}
}

func (s *Solver) Assert(t *Term) {
	if t.IsTrue() {
		return
	}
	s.define(t)
	s.send("(assert " + s.ref(t) + ")")
}

func (s *Solver) readLine() (string, error) {
	for {
		line, err := s.out.ReadString('\n')
		if err != nil {
			return "", err
		}
		line = strings.TrimSpace(line)
		if line == "" {
			continue
		}
		return line, nil
	}
}

// Check runs check-sat. Any "(error" line makes the answer Unknown.
func (s *Solver) Check() Result {
	t0 := time.Now()
	s.send("(check-sat)")
	s.send("(echo \"<<done>>\")")
	res := Unknown
	sawErr := false
	got := false
	for {
		line, err := s.readLine()
		if err != nil {
			sawErr = true
			break
		}
		if strings.Contains(line, "<<done>>") {
			break
		}
		switch {
		case strings.HasPrefix(line, "(error"):
			sawErr = true
		case line == "sat":
			res, got = Sat, true
		case line == "unsat":
			res, got = Unsat, true
		case line == "unknown" || line == "timeout":
			res, got = Unknown, true
		}
	}
	for _, sh := range s.shadows {
		r2 := sh.checkOnly()
		atomic.AddInt64(&StatCrossChecked, 1)
		if got && !sawErr && r2 != res && r2 != Unknown && res != Unknown {
			atomic.AddInt64(&StatCrossMismatch, 1)
			sawErr = true // disagreement between back ends: the query is inconclusive
		}
	}
	atomic.AddInt64(&StatNanos, int64(time.Since(t0)))
	if sawErr || !got {
		atomic.AddInt64(&StatErrors, 1)
		res = Unknown
	}
	switch res {
	case Sat:
		atomic.AddInt64(&StatSat, 1)
	case Unsat:
		atomic.AddInt64(&StatUnsat, 1)
	default:
		atomic.AddInt64(&StatUnknown, 1)
	}
	return res
}

// CheckAssuming checks satisfiability of the current assertions plus extra,
// without leaving extra asserted.
func (s *Solver) CheckAssuming(extra ...*Term) Result {
	s.Push()
	for _, e := range extra {
		s.Assert(e)
	}
	r := s.Check()
	s.Pop()
	return r
}

// Model returns values for the given variables after a Sat answer.
func (s *Solver) Model(vars []*Term) (map[string]uint64, error) {
	m := map[string]uint64{}
	if len(vars) == 0 {
		return m, nil
	}
	var names []string
	for _, v := range vars {
		s.define(v)
		names = append(names, v.Name)
	}
	s.send("(get-value (" + strings.Join(names, " ") + "))")
	s.send("(echo \"<<done>>\")")
	var sb strings.Builder
	for {
		line, err := s.readLine()
		if err != nil {
			return nil, err
		}
		if strings.Contains(line, "<<done>>") {
			break
		}
		if strings.HasPrefix(line, "(error") {
			return nil, fmt.Errorf("solver: %s", line)
		}
		sb.WriteString(line)
		sb.WriteByte(' ')
	}
	toks := tokenize(sb.String())
	// pattern: ( ( name value ) ( name value ) ... ) ; value may be "(_ bvN w)"
	for i := 0; i < len(toks); i++ {
		if toks[i] == "(" && i+2 < len(toks) && toks[i+1] != "(" {
			name := toks[i+1]
			val := toks[i+2]
			if val == "(" && i+4 < len(toks) && toks[i+3] == "_" {
				val = toks[i+4]
			}
			v, ok := parseVal(val)
			if ok {
				m[name] = v
			}
		}
	}
	return m, nil
}

func tokenize(s string) []string {
	s = strings.ReplaceAll(s, "(", " ( ")
	s = strings.ReplaceAll(s, ")", " ) ")
	return strings.Fields(s)
}

func parseVal(v string) (uint64, bool) {
	switch {
	case v == "true":
		return 1, true
	case v == "false":
		return 0, true
	case strings.HasPrefix(v, "#x"):
		n, err := strconv.ParseUint(v[2:], 16, 64)
		return n, err == nil
	case strings.HasPrefix(v, "#b"):
		n, err := strconv.ParseUint(v[2:], 2, 64)
		return n, err == nil
	case strings.HasPrefix(v, "bv"):
		n, err := strconv.ParseUint(v[2:], 10, 64)
		return n, err == nil
	}
	return 0, false
}

// checkOnly runs check-sat on a shadow back end without touching the statistics.
func (s *Solver) checkOnly() Result {
	io.WriteString(s.in, "(check-sat)\n(echo \"<<done>>\")\n")
	res := Unknown
	for {
		line, err := s.readLine()
		if err != nil {
			return Unknown
		}
		if strings.Contains(line, "<<done>>") {
			return res
		}
		switch {
		case strings.HasPrefix(line, "(error"):
			res = Unknown
		case line == "sat":
			res = Sat
		case line == "unsat":
			res = Unsat
		}
	}
}
