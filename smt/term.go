// Package smt is a small hash-consed term layer for Bool and fixed-width
// bit-vector terms, printed as SMT-LIB2 for an external solver process.
package smt

import (
	"fmt"
	"math/big"
	"strings"
	"sync"
)

type Op int

const (
	OpConst Op = iota // bool or bv constant
	OpVar
	OpNot
	OpAnd
	OpOr
	OpIte
	OpEq
	OpBvAdd
	OpBvSub
	OpBvMul
	OpBvAnd
	OpBvOr
	OpBvXor
	OpBvNot
	OpBvNeg
	OpBvShl
	OpBvLshr
	OpBvAshr
	OpBvUdiv
	OpBvUrem
	OpBvSdiv
	OpBvSrem
	OpBvUlt
	OpBvUle
	OpBvSlt
	OpBvSle
	OpExtract // Args[0], hi=P0, lo=P1
	OpZext    // extend to Width
	OpSext
	OpConcat
)

var opNames = map[Op]string{
	OpNot: "not", OpAnd: "and", OpOr: "or", OpIte: "ite", OpEq: "=",
	OpBvAdd: "bvadd", OpBvSub: "bvsub", OpBvMul: "bvmul", OpBvAnd: "bvand", OpBvOr: "bvor",
	OpBvXor: "bvxor", OpBvNot: "bvnot", OpBvNeg: "bvneg", OpBvShl: "bvshl", OpBvLshr: "bvlshr",
	OpBvAshr: "bvashr", OpBvUdiv: "bvudiv", OpBvUrem: "bvurem", OpBvSdiv: "bvsdiv", OpBvSrem: "bvsrem",
	OpBvUlt: "bvult", OpBvUle: "bvule", OpBvSlt: "bvslt", OpBvSle: "bvsle", OpConcat: "concat",
}

// Term is an immutable, hash-consed node. Width==0 means Bool.
type Term struct {
	ID    int
	Op    Op
	Width int
	Args  []*Term
	Val   uint64 // constant value (bool: 0/1), masked to Width
	Name  string // variables
	P0    int
	P1    int
}

var (
	mu     sync.Mutex
	table  = map[string]*Term{}
	nextID = 1
)

func intern(t *Term) *Term {
	var sb strings.Builder
	fmt.Fprintf(&sb, "%d|%d|%d|%s|%d|%d", t.Op, t.Width, t.Val, t.Name, t.P0, t.P1)
	for _, a := range t.Args {
		fmt.Fprintf(&sb, "|%d", a.ID)
	}
	k := sb.String()
	mu.Lock()
	defer mu.Unlock()
	if x, ok := table[k]; ok {
		return x
	}
	t.ID = nextID
	nextID++
	table[k] = t
	return t
}

func mask(w int) uint64 {
	if w >= 64 {
		return ^uint64(0)
	}
	return (uint64(1) << uint(w)) - 1
}

var True = intern(&Term{Op: OpConst, Width: 0, Val: 1})
var False = intern(&Term{Op: OpConst, Width: 0, Val: 0})

func Bool(b bool) *Term {
	if b {
		return True
	}
	return False
}

func BV(v uint64, w int) *Term {
	return intern(&Term{Op: OpConst, Width: w, Val: v & mask(w)})
}

func Var(name string, w int) *Term {
	return intern(&Term{Op: OpVar, Width: w, Name: name})
}

func (t *Term) IsConst() bool { return t.Op == OpConst }
func (t *Term) IsBool() bool  { return t.Width == 0 }
func (t *Term) IsTrue() bool  { return t == True }
func (t *Term) IsFalse() bool { return t == False }

// Signed interprets a constant as a signed integer of its width.
func (t *Term) Signed() int64 {
	if t.Width >= 64 {
		return int64(t.Val)
	}
	if t.Val&(uint64(1)<<uint(t.Width-1)) != 0 {
		return int64(t.Val | ^mask(t.Width))
	}
	return int64(t.Val)
}

func Not(a *Term) *Term {
	if a.IsConst() {
		return Bool(a.Val == 0)
	}
	if a.Op == OpNot {
		return a.Args[0]
	}
	return intern(&Term{Op: OpNot, Args: []*Term{a}})
}

func And(xs ...*Term) *Term {
	var out []*Term
	seen := map[int]bool{}
	for _, x := range xs {
		if x.IsFalse() {
			return False
		}
		if x.IsTrue() || seen[x.ID] {
			continue
		}
		if x.Op == OpAnd {
			for _, y := range x.Args {
				if !seen[y.ID] {
					seen[y.ID] = true
					out = append(out, y)
				}
			}
			continue
		}
		seen[x.ID] = true
		out = append(out, x)
	}
	var pinned map[int]uint64 // variable id -> the constant it is equated with
	for _, x := range out {
		if x.Op == OpNot && seen[x.Args[0].ID] {
			return False
		}
		// x = c1 and x = c2 with c1 != c2 is false (selector equalities are by far the most common guards)
		if x.Op == OpEq && x.Args[0].Width > 0 {
			a, b := x.Args[0], x.Args[1]
			if b.Op == OpVar && a.IsConst() {
				a, b = b, a
			}
			if a.Op == OpVar && b.IsConst() {
				if pinned == nil {
					pinned = map[int]uint64{}
				}
				if old, ok := pinned[a.ID]; ok && old != b.Val {
					return False
				}
				pinned[a.ID] = b.Val
			}
		}
	}
	switch len(out) {
	case 0:
		return True
	case 1:
		return out[0]
	}
	return intern(&Term{Op: OpAnd, Args: out})
}

func Or(xs ...*Term) *Term {
	var out []*Term
	seen := map[int]bool{}
	for _, x := range xs {
		if x.IsTrue() {
			return True
		}
		if x.IsFalse() || seen[x.ID] {
			continue
		}
		if x.Op == OpOr {
			for _, y := range x.Args {
				if !seen[y.ID] {
					seen[y.ID] = true
					out = append(out, y)
				}
			}
			continue
		}
		seen[x.ID] = true
		out = append(out, x)
	}
	for _, x := range out {
		if x.Op == OpNot && seen[x.Args[0].ID] {
			return True
		}
	}
	switch len(out) {
	case 0:
		return False
	case 1:
		return out[0]
	}
	return intern(&Term{Op: OpOr, Args: out})
}

func Implies(a, b *Term) *Term { return Or(Not(a), b) }
func Iff(a, b *Term) *Term     { return Eq(a, b) }
func Xor(a, b *Term) *Term     { return Not(Eq(a, b)) }

func Ite(c, a, b *Term) *Term {
	if c.IsConst() {
		if c.Val != 0 {
			return a
		}
		return b
	}
	if a == b {
		return a
	}
	if a.IsBool() {
		if a.IsTrue() && b.IsFalse() {
			return c
		}
		if a.IsFalse() && b.IsTrue() {
			return Not(c)
		}
		if a.IsTrue() {
			return Or(c, b)
		}
		if a.IsFalse() {
			return And(Not(c), b)
		}
		if b.IsTrue() {
			return Or(Not(c), a)
		}
		if b.IsFalse() {
			return And(c, a)
		}
	}
	return intern(&Term{Op: OpIte, Width: a.Width, Args: []*Term{c, a, b}})
}

func Eq(a, b *Term) *Term {
	if a.Width != b.Width {
		panic(fmt.Sprintf("smt.Eq width mismatch %d vs %d", a.Width, b.Width))
	}
	if a == b {
		return True
	}
	if a.IsConst() && b.IsConst() {
		return Bool(a.Val == b.Val)
	}
	if a.IsBool() {
		if a.IsConst() {
			a, b = b, a
		}
		if b.IsTrue() {
			return a
		}
		if b.IsFalse() {
			return Not(a)
		}
	}
	if a.ID > b.ID {
		a, b = b, a
	}
	return intern(&Term{Op: OpEq, Args: []*Term{a, b}})
}

func foldBin(op Op, a, b *Term) (uint64, bool) {
	w := a.Width
	x, y := a.Val, b.Val
	sx, sy := a.Signed(), b.Signed()
	switch op {
	case OpBvAdd:
		return x + y, true
	case OpBvSub:
		return x - y, true
	case OpBvMul:
		return x * y, true
	case OpBvAnd:
		return x & y, true
	case OpBvOr:
		return x | y, true
	case OpBvXor:
		return x ^ y, true
	case OpBvShl:
		if y >= uint64(w) {
			return 0, true
		}
		return x << y, true
	case OpBvLshr:
		if y >= uint64(w) {
			return 0, true
		}
		return x >> y, true
	case OpBvAshr:
		if y >= uint64(w) {
			if sx < 0 {
				return ^uint64(0), true
			}
			return 0, true
		}
		return uint64(sx >> y), true
	case OpBvUdiv:
		if y == 0 {
			return ^uint64(0), true
		}
		return x / y, true
	case OpBvUrem:
		if y == 0 {
			return x, true
		}
		return x % y, true
	case OpBvSdiv:
		if y == 0 {
			if sx < 0 {
				return 1, true
			}
			return ^uint64(0), true
		}
		if sx == -1<<63 && sy == -1 {
			return x, true
		}
		return uint64(sx / sy), true
	case OpBvSrem:
		if y == 0 {
			return x, true
		}
		if sx == -1<<63 && sy == -1 {
			return 0, true
		}
		return uint64(sx % sy), true
	}
	return 0, false
}

// BvBin builds a binary bit-vector operation (result width = operand width).
func BvBin(op Op, a, b *Term) *Term {
	if a.Width != b.Width || a.Width == 0 {
		panic(fmt.Sprintf("smt.BvBin %v width mismatch %d vs %d", op, a.Width, b.Width))
	}
	if a.IsConst() && b.IsConst() {
		if v, ok := foldBin(op, a, b); ok {
			return BV(v, a.Width)
		}
	}
	// identities
	switch op {
	case OpBvAdd, OpBvOr, OpBvXor:
		if a.IsConst() && a.Val == 0 {
			return b
		}
		if b.IsConst() && b.Val == 0 {
			return a
		}
	case OpBvSub, OpBvShl, OpBvLshr, OpBvAshr:
		if b.IsConst() && b.Val == 0 {
			return a
		}
	case OpBvMul:
		if a.IsConst() && a.Val == 1 {
			return b
		}
		if b.IsConst() && b.Val == 1 {
			return a
		}
	}
	return intern(&Term{Op: op, Width: a.Width, Args: []*Term{a, b}})
}

// BvCmp builds an unsigned/signed comparison.
func BvCmp(op Op, a, b *Term) *Term {
	if a.Width != b.Width || a.Width == 0 {
		panic("smt.BvCmp width mismatch")
	}
	if a.IsConst() && b.IsConst() {
		switch op {
		case OpBvUlt:
			return Bool(a.Val < b.Val)
		case OpBvUle:
			return Bool(a.Val <= b.Val)
		case OpBvSlt:
			return Bool(a.Signed() < b.Signed())
		case OpBvSle:
			return Bool(a.Signed() <= b.Signed())
		}
	}
	if a == b {
		return Bool(op == OpBvUle || op == OpBvSle)
	}
	return intern(&Term{Op: op, Args: []*Term{a, b}})
}

func BvNot(a *Term) *Term {
	if a.IsConst() {
		return BV(^a.Val, a.Width)
	}
	return intern(&Term{Op: OpBvNot, Width: a.Width, Args: []*Term{a}})
}

func BvNeg(a *Term) *Term {
	if a.IsConst() {
		return BV(-a.Val, a.Width)
	}
	return intern(&Term{Op: OpBvNeg, Width: a.Width, Args: []*Term{a}})
}

func Extract(a *Term, hi, lo int) *Term {
	w := hi - lo + 1
	if w == a.Width {
		return a
	}
	if a.IsConst() {
		return BV(a.Val>>uint(lo), w)
	}
	return intern(&Term{Op: OpExtract, Width: w, Args: []*Term{a}, P0: hi, P1: lo})
}

func Zext(a *Term, w int) *Term {
	if w == a.Width {
		return a
	}
	if w < a.Width {
		return Extract(a, w-1, 0)
	}
	if a.IsConst() {
		return BV(a.Val, w)
	}
	return intern(&Term{Op: OpZext, Width: w, Args: []*Term{a}, P0: w - a.Width})
}

func Sext(a *Term, w int) *Term {
	if w == a.Width {
		return a
	}
	if w < a.Width {
		return Extract(a, w-1, 0)
	}
	if a.IsConst() {
		return BV(uint64(a.Signed()), w)
	}
	return intern(&Term{Op: OpSext, Width: w, Args: []*Term{a}, P0: w - a.Width})
}

func sortOf(t *Term) string {
	if t.Width == 0 {
		return "Bool"
	}
	return fmt.Sprintf("(_ BitVec %d)", t.Width)
}

func constStr(t *Term) string {
	if t.Width == 0 {
		if t.Val != 0 {
			return "true"
		}
		return "false"
	}
	if t.Width%4 == 0 {
		return fmt.Sprintf("#x%0*x", t.Width/4, t.Val)
	}
	return fmt.Sprintf("#b%0*b", t.Width, t.Val)
}

// String renders the term as a (tree-shaped) SMT-LIB expression; for diagnostics.
func (t *Term) String() string {
	switch t.Op {
	case OpConst:
		return constStr(t)
	case OpVar:
		return t.Name
	}
	var parts []string
	for _, a := range t.Args {
		parts = append(parts, a.String())
	}
	return "(" + head(t) + " " + strings.Join(parts, " ") + ")"
}

func head(t *Term) string {
	switch t.Op {
	case OpExtract:
		return fmt.Sprintf("(_ extract %d %d)", t.P0, t.P1)
	case OpZext:
		return fmt.Sprintf("(_ zero_extend %d)", t.P0)
	case OpSext:
		return fmt.Sprintf("(_ sign_extend %d)", t.P0)
	}
	return opNames[t.Op]
}

// Vars collects the variables occurring in t.
func Vars(t *Term, acc map[*Term]bool, seen map[*Term]bool) {
	if seen[t] {
		return
	}
	seen[t] = true
	if t.Op == OpVar {
		acc[t] = true
	}
	for _, a := range t.Args {
		Vars(a, acc, seen)
	}
}

// Eval evaluates t under a model mapping variable names to values.
func Eval(t *Term, model map[string]uint64, memo map[*Term]uint64) uint64 {
	if v, ok := memo[t]; ok {
		return v
	}
	var r uint64
	switch t.Op {
	case OpConst:
		r = t.Val
	case OpVar:
		r = model[t.Name] & maskB(t.Width)
	case OpNot:
		r = 1 - Eval(t.Args[0], model, memo)
	case OpAnd:
		r = 1
		for _, a := range t.Args {
			if Eval(a, model, memo) == 0 {
				r = 0
			}
		}
	case OpOr:
		r = 0
		for _, a := range t.Args {
			if Eval(a, model, memo) != 0 {
				r = 1
			}
		}
	case OpIte:
		if Eval(t.Args[0], model, memo) != 0 {
			r = Eval(t.Args[1], model, memo)
		} else {
			r = Eval(t.Args[2], model, memo)
		}
	case OpEq:
		if Eval(t.Args[0], model, memo) == Eval(t.Args[1], model, memo) {
			r = 1
		}
	case OpBvNot:
		r = ^Eval(t.Args[0], model, memo) & mask(t.Width)
	case OpBvNeg:
		r = -Eval(t.Args[0], model, memo) & mask(t.Width)
	case OpExtract:
		r = (Eval(t.Args[0], model, memo) >> uint(t.P1)) & mask(t.Width)
	case OpZext:
		r = Eval(t.Args[0], model, memo)
	case OpSext:
		r = uint64(BV(Eval(t.Args[0], model, memo), t.Args[0].Width).Signed()) & mask(t.Width)
	case OpConcat:
		r = (Eval(t.Args[0], model, memo)<<uint(t.Args[1].Width) | Eval(t.Args[1], model, memo)) & mask(t.Width)
	case OpBvUlt, OpBvUle, OpBvSlt, OpBvSle:
		a := BV(Eval(t.Args[0], model, memo), t.Args[0].Width)
		b := BV(Eval(t.Args[1], model, memo), t.Args[1].Width)
		r = BvCmp(t.Op, a, b).Val
	default:
		a := BV(Eval(t.Args[0], model, memo), t.Args[0].Width)
		b := BV(Eval(t.Args[1], model, memo), t.Args[1].Width)
		v, ok := foldBin(t.Op, a, b)
		if !ok {
			panic("smt.Eval: unsupported op")
		}
		r = v & mask(t.Width)
	}
	memo[t] = r
	return r
}

func maskB(w int) uint64 {
	if w == 0 {
		return 1
	}
	return mask(w)
}

func Concat(a, b *Term) *Term {
	w := a.Width + b.Width
	if w > 64 {
		panic("smt.Concat > 64 bits unsupported")
	}
	if a.IsConst() && b.IsConst() {
		return BV(a.Val<<uint(b.Width)|b.Val, w)
	}
	return intern(&Term{Op: OpConcat, Width: w, Args: []*Term{a, b}})
}

var _ = big.NewInt
