//go:build verif

package commands

import (
	"bytes"
	"fmt"
	"os"
	"path/filepath"
	"strings"

	"github.com/aml-org/amf-custom-validator/internal/parser/profile"
	"github.com/aml-org/amf-custom-validator/internal/validator"
	v "github.com/aml-org/amf-custom-validator/internal/zzverif"
)

// runCmd runs a CLI command the way the process would: it ends either in
// os.Exit(n) or in an escaping panic (exit status 2, nothing more on stdout).
func runCmd(f func()) (panicked bool) {
	defer func() {
		if r := recover(); r != nil {
			if v.ExitCode() < 0 {
				panicked = true
			}
		}
	}()
	f()
	return false
}

// verifExitStatus: the status the process ends with - the argument of os.Exit, 2 after an escaping
// panic, and 0 when the command simply returns (main returns after it).
func verifExitStatus(panicked bool) int {
	if panicked {
		return 2
	}
	if c := v.ExitCode(); c >= 0 {
		return c
	}
	return 0
}

var verifC18Out = "OUT"

// VerifC18Validate: `acv validate P D [OUT]` against every prior state of OUT.
func VerifC18Validate() {
	toFile := v.Choice("toFile", 2) == 1
	maxReport, maxPrior := 3, 6
	if v.Deep() {
		maxReport, maxPrior = 6, 10 // thorough tier: report texts of 1..6 bytes, prior contents of 0..9 bytes
	}
	rl := 1 + v.Choice("reportLen", maxReport)
	report := v.Bytes("report", rl)
	libErr := v.Bool("libErr")
	v.StubOn("validator.Validate")
	v.SetLibResult("validator.Validate", report, libErr)
	v.FSPut("P", "profile-text", false)
	v.FSPut("D", "data-text", false)
	prior := 0
	// the stubbed library answers with a function of the texts it is given
	report = report + "#P=profile-text#D=data-text"
	if toFile {
		// the output path may be one of the input files: the report is still the one for the texts the
		// files held when acv started
		out := []string{"OUT", "D", "P"}[v.Choice("outputIs", 3)]
		if out == "OUT" {
			prior = v.Choice("prior", 3) // 0 absent, 1 present, 2 present and read-only
			if prior != 0 {
				pl := v.Choice("priorLen", maxPrior)
				v.FSPut("OUT", v.Bytes("priorContent", pl), prior == 2)
			}
		} else {
			prior = 1
		}
		v.SetArgs([]string{"acv", "validate", "P", "D", out})
		verifC18Out = out
	} else {
		v.SetArgs([]string{"acv", "validate", "P", "D"})
	}
	panicked := runCmd(Validate)
	code := verifExitStatus(panicked)
	failed := code != 0
	if libErr {
		v.Reach("lib-failed")
		v.Assert("C18.exit-nonzero-on-failure", failed)
		v.Assert("C18.no-stdout-on-failure", v.Stdout() == "")
		return
	}
	if !toFile {
		v.Reach("printed")
		v.Assert("C18.stdout-exact", v.Stdout() == report+"\n")
		v.Assert("C18.exit-zero", code == 0)
		return
	}
	if prior == 2 {
		v.Reach("readonly")
		v.Assert("C18.exit-nonzero-on-failure", failed)
		v.Assert("C18.no-stdout-on-failure", v.Stdout() == "")
		return
	}
	v.Reach("wrote-file")
	content, ok := v.FSGet(verifC18Out)
	v.Assert("C18.file-exists", ok)
	v.Assert("C18.file-exact", content == report)
	v.Assert("C18.exit-zero", code == 0)
}

// VerifC18Generate: `acv generate P` prints exactly the generated policy.
func VerifC18Generate() {
	n := 1 + v.Choice("len", 3)
	code := v.Bytes("code", n)
	libErr := v.Bool("libErr")
	v.StubOn("validator.GenerateRego")
	v.SetLibResult("validator.GenerateRego", code, libErr)
	v.FSPut("P", "profile-text", false)
	v.SetArgs([]string{"acv", "generate", "P"})
	panicked := runCmd(Generate)
	ec := verifExitStatus(panicked)
	if libErr {
		v.Reach("lib-failed")
		v.Assert("C18.exit-nonzero-on-failure", ec != 0)
		v.Assert("C18.no-stdout-on-failure", v.Stdout() == "")
		return
	}
	v.Reach("printed")
	v.Assert("C18.stdout-exact", v.Stdout() == code+"#P=profile-text\n")
	v.Assert("C18.exit-zero", ec == 0)
}

// VerifC18Normalize: `acv normalize D` prints exactly the encoded normalised input.
func VerifC18Normalize() {
	n := 1 + v.Choice("len", 3)
	text := v.Bytes("text", n)
	libErr := v.Bool("libErr")
	v.StubOn("validator.ProcessInput")
	v.StubOn("validator.Encode")
	v.SetLibResult("validator.ProcessInput", "normalized", libErr)
	v.SetLibResult("validator.Encode", text, false)
	v.FSPut("D", "data-text", false)
	v.SetArgs([]string{"acv", "normalize", "D"})
	panicked := runCmd(Normalize)
	ec := verifExitStatus(panicked)
	if libErr {
		v.Reach("lib-failed")
		v.Assert("C18.exit-nonzero-on-failure", ec != 0)
		v.Assert("C18.no-stdout-on-failure", v.Stdout() == "")
		return
	}
	v.Reach("printed")
	v.Assert("C18.stdout-exact", v.Stdout() == text+"#E=normalized#D=data-text\n")
	v.Assert("C18.exit-zero", ec == 0)
}

// VerifC18Args: wrong argument counts and missing input files fail without stdout.
func VerifC18Args() {
	cmd := v.Choice("cmd", 3)
	n := v.Choice("nargs", 7) // total len(os.Args) in 0..6 — but at least 2 (the command itself)
	v.Assume(n >= 2)
	missing := v.Choice("missingFile", 2) == 1
	if !missing {
		v.FSPut("A", "a", false)
		v.FSPut("B", "b", false)
	}
	v.StubOn("validator.Validate")
	v.StubOn("validator.GenerateRego")
	v.StubOn("validator.ProcessInput")
	v.StubOn("validator.Encode")
	v.SetLibResult("validator.Validate", "r", false)
	v.SetLibResult("validator.GenerateRego", "r", false)
	v.SetLibResult("validator.ProcessInput", "r", false)
	v.SetLibResult("validator.Encode", "r", false)
	names := []string{"validate", "generate", "normalize"}
	args := []string{"acv", names[cmd], "A", "B", "C", "D"}[:n]
	v.SetArgs(args)
	var panicked bool
	switch cmd {
	case 0:
		panicked = runCmd(Validate)
	case 1:
		panicked = runCmd(Generate)
	default:
		panicked = runCmd(Normalize)
	}
	ec := verifExitStatus(panicked)
	okArgs := (cmd == 0 && (n == 4 || n == 5)) || (cmd != 0 && n == 3)
	if !okArgs || missing {
		v.Reach("bad-invocation")
		v.Assert("C18.exit-nonzero-on-failure", ec != 0)
		v.Assert("C18.no-stdout-on-failure", v.Stdout() == "")
	} else {
		v.Reach("good-invocation")
		v.Assert("C18.exit-zero", ec == 0)
	}
}

// VerifC18ValidateNative replays a VerifC18Validate counterexample against the
// real `acv` binary built from the working tree, with real files.
func VerifC18ValidateNative() {
	dir, err := os.MkdirTemp("", "verifc18")
	if err != nil {
		panic(err)
	}
	defer os.RemoveAll(dir)
	acv := v.BuildACV(dir)
	root := v.RepoRoot()
	profile := filepath.Join(root, "test/data/integration/profile1/profile.yaml")
	data := filepath.Join(root, "test/data/integration/profile1/negative.data.jsonld")
	if v.ReplayBool("libErr") {
		// a data text for the kind of failure the stub chose: rejected by the JSON-LD processor, cut off
		// inside its JSON value (the decoder's io.ErrUnexpectedEOF), or empty (io.EOF)
		data = filepath.Join(dir, "missing-or-bad.jsonld")
		bad := "{\"@context\": 42}"
		if _, asked := v.ReplayInput("libErrKind"); asked {
			switch v.ReplayInt("libErrKind") {
			case 1:
				bad = "{\"@id\": \"http://x/a\", \"@type\": [\"http://a.ml/vocabularies/apiContract#EndPoint\""
			case 2:
				bad = ""
			}
		}
		os.WriteFile(data, []byte(bad), 0o644)
	}
	toFile := v.ReplayInt("toFile") == 1
	if !toFile && !v.ReplayBool("libErr") {
		// stdout must be exactly what the library returns: put the solver's report bytes (their printable
		// part) into the report through the validation message and compare with the in-process library call
		var msg []byte
		for _, b := range v.ReplayBytes("report") {
			if b >= 0x20 && b < 0x7f && b != '"' && b != '\\' && b != '{' && b != '}' {
				msg = append(msg, b)
			}
		}
		prof := "#%Validation Profile 1.0\nprofile: T\nviolation:\n  - v1\nvalidations:\n  v1:\n    message: \"x" + string(msg) + "x\"\n    targetClass: apiContract.EndPoint\n    propertyConstraints:\n      core.description:\n        minCount: 1\n"
		doc := `{"@id": "http://x/a", "@type": "http://a.ml/vocabularies/apiContract#EndPoint"}`
		pf, df := filepath.Join(dir, "p.yaml"), filepath.Join(dir, "d.jsonld")
		os.WriteFile(pf, []byte(prof), 0o644)
		os.WriteFile(df, []byte(doc), 0o644)
		lib, lerr := validator.Validate(prof, doc, false, nil)
		if lerr != nil {
			panic(lerr)
		}
		so, _, code := v.RunCmd(dir, acv, "validate", pf, df)
		v.Assert("C18.stdout-exact", dropDate(so) == dropDate(lib+"\n"))
		v.Assert("C18.exit-zero", code == 0)
		// files of other shapes: CRLF line ends, no final newline, one line longer than 64 KiB
		// (minified data, a long flow list in the profile)
		long := strings.Repeat("x", 70000)
		variants := [][2]string{
			{strings.ReplaceAll(prof, "\n", "\r\n"), doc},
			{strings.TrimRight(prof, "\n"), doc + "\n\n"},
			{prof, `{"@id": "http://x/a", "@type": "http://a.ml/vocabularies/apiContract#EndPoint", "http://a.ml/vocabularies/core#name": "` + long + `"}`},
			{"#%Validation Profile 1.0\n# " + long + "\n" + strings.TrimPrefix(prof, "#%Validation Profile 1.0\n"), doc},
		}
		for _, pd := range variants {
			os.WriteFile(pf, []byte(pd[0]), 0o644)
			os.WriteFile(df, []byte(pd[1]), 0o644)
			lib, lerr := validator.Validate(pd[0], pd[1], false, nil)
			if lerr != nil {
				panic(lerr)
			}
			so, _, code := v.RunCmd(dir, acv, "validate", pf, df)
			v.Assert("C18.stdout-exact", dropDate(so) == dropDate(lib+"\n"))
			v.Assert("C18.exit-zero", code == 0)
		}
		return
	}
	// the library's report for these inputs, as the library itself prints it
	want, _, wantCode := v.RunCmd(dir, acv, "validate", profile, data)
	if !toFile {
		if v.ReplayBool("libErr") {
			v.Assert("C18.exit-nonzero-on-failure", wantCode != 0)
			v.Assert("C18.no-stdout-on-failure", want == "")
		}
		return
	}
	out := filepath.Join(dir, "OUT")
	if _, asked := v.ReplayInput("outputIs"); asked && v.ReplayInt("outputIs") != 0 {
		// the output path is one of the input files: work on private copies of both
		pc, dc := filepath.Join(dir, "p.yaml"), filepath.Join(dir, "d.jsonld")
		pb, _ := os.ReadFile(profile)
		db, _ := os.ReadFile(data)
		os.WriteFile(pc, pb, 0o644)
		os.WriteFile(dc, db, 0o644)
		profile, data = pc, dc
		out = dc
		if v.ReplayInt("outputIs") == 2 {
			out = pc
		}
		so, _, code := v.RunCmd(dir, acv, "validate", profile, data, out)
		got, rerr := os.ReadFile(out)
		v.Assert("C18.file-exists", rerr == nil)
		v.Assert("C18.file-exact", dropDate(string(got)+"\n") == dropDate(want))
		v.Assert("C18.exit-zero", code == 0 && so == "")
		return
	}
	prior := v.ReplayInt("prior")
	if prior != 0 {
		mode := os.FileMode(0o644)
		content := v.ReplayBytes("priorContent")
		// the symbolic run uses short reports; natively the report is long, so
		// scale the prior content to keep the same length relation to the report
		if len(content) > len(v.ReplayBytes("report")) {
			content = append(content, bytes.Repeat([]byte{'#'}, len(want)+16)...)
		}
		if prior == 2 {
			// "present and not writable": file modes do not bind root, a directory in the
			// file's place refuses the write for every user
			os.Mkdir(out, 0o755)
		} else {
			os.WriteFile(out, content, mode)
		}
	}
	so, _, code := v.RunCmd(dir, acv, "validate", profile, data, out)
	if v.ReplayBool("libErr") || prior == 2 {
		v.Assert("C18.exit-nonzero-on-failure", code != 0)
		v.Assert("C18.no-stdout-on-failure", so == "")
		return
	}
	got, rerr := os.ReadFile(out)
	v.Assert("C18.file-exists", rerr == nil)
	// `want` is what Println printed: the report plus a newline; the two runs
	// differ legitimately in the dateCreated line (wall clock), which is dropped
	v.Assert("C18.file-exact", dropDate(string(got)+"\n") == dropDate(want))
	v.Assert("C18.exit-zero", code == 0)
}

func dropDate(s string) string {
	var out []string
	for _, l := range strings.Split(s, "\n") {
		if !strings.Contains(l, "\"dateCreated\":") {
			out = append(out, l)
		}
	}
	return strings.Join(out, "\n")
}

// witness inputs whose encodings differ between encoder settings and formatting helpers: markup
// characters, quotes, backslashes, percent signs, non-ASCII text, numbers not in canonical form
var verifC18Docs = []string{
	`{"@id": "http://x/a", "@type": "http://a.ml/vocabularies/apiContract#EndPoint", "http://a.ml/vocabularies/core#name": "a <b> & \"c\" 100% \\ é 漢"}`,
	`{"@id": "http://x/a?q=1&r=<2>", "http://example.org/n": [12.50, 1e3, 9007199254740993, true, null]}`,
	`[]`,
}

var verifC18Profiles = []string{
	"#%Validation Profile 1.0\nprofile: \"T <1> & 100% \\\\ é\"\nviolation:\n  - v1\nvalidations:\n  v1:\n    message: \"m <b> & %d {{core.name}}\"\n    targetClass: apiContract.EndPoint\n    propertyConstraints:\n      core.description:\n        minCount: 1\n        pattern: \"^<&>%s$\"\n",
}

// VerifC18NormalizeNative: `acv normalize` of the witness documents prints exactly the library's
// encoding of the library's normalisation; undecodable data gives a failure without stdout.
func VerifC18NormalizeNative() {
	dir, err := os.MkdirTemp("", "verifc18n")
	if err != nil {
		panic(err)
	}
	defer os.RemoveAll(dir)
	acv := v.BuildACV(dir)
	df := filepath.Join(dir, "d.jsonld")
	if v.ReplayBool("libErr") {
		os.WriteFile(df, []byte("{\"@context\": 42"), 0o644)
		so, _, code := v.RunCmd(dir, acv, "normalize", df)
		v.Assert("C18.exit-nonzero-on-failure", code != 0)
		v.Assert("C18.no-stdout-on-failure", so == "")
		return
	}
	for _, doc := range verifC18Docs {
		os.WriteFile(df, []byte(doc), 0o644)
		res, lerr := validator.ProcessInput(doc, false, nil)
		if lerr != nil {
			panic(lerr)
		}
		so, _, code := v.RunCmd(dir, acv, "normalize", df)
		v.Assert("C18.stdout-exact", so == validator.Encode(res)+"\n")
		v.Assert("C18.exit-zero", code == 0)
	}
}

// VerifC18GenerateNative: `acv generate` prints exactly the policy the library generates in a
// fresh process; an untranslatable profile gives a failure without stdout.
func VerifC18GenerateNative() {
	dir, err := os.MkdirTemp("", "verifc18g")
	if err != nil {
		panic(err)
	}
	defer os.RemoveAll(dir)
	acv := v.BuildACV(dir)
	pf := filepath.Join(dir, "p.yaml")
	if v.ReplayBool("libErr") {
		os.WriteFile(pf, []byte("profile: [unclosed"), 0o644)
		so, _, code := v.RunCmd(dir, acv, "generate", pf)
		v.Assert("C18.exit-nonzero-on-failure", code != 0)
		v.Assert("C18.no-stdout-on-failure", so == "")
		return
	}
	root := v.RepoRoot()
	texts := append([]string{}, verifC18Profiles...)
	for _, f := range []string{"test/data/integration/profile1/profile.yaml", "test/data/integration/profile10/profile.yaml"} {
		if b, rerr := os.ReadFile(filepath.Join(root, f)); rerr == nil {
			texts = append(texts, string(b))
		}
	}
	for _, text := range texts {
		os.WriteFile(pf, []byte(text), 0o644)
		profile.GenReset()
		unit, lerr := validator.GenerateRego(text, false, nil)
		if lerr != nil {
			panic(lerr)
		}
		so, _, code := v.RunCmd(dir, acv, "generate", pf)
		v.Assert("C18.stdout-exact", so == unit.Code+"\n")
		v.Assert("C18.exit-zero", code == 0)
	}
}

// VerifC18LargeFilesNative (native only: sizes the executor's byte-wise file model does not reach):
// input files of 1.2 and 3 MiB - a data file with long descriptions, a profile with a long comment -
// through the built command: standard output and the output file are exactly the library's report.
func VerifC18LargeFilesNative() {
	dir, err := os.MkdirTemp("", "verifc18big")
	if err != nil {
		panic(err)
	}
	defer os.RemoveAll(dir)
	acv := v.BuildACV(dir)
	prof := "#%Validation Profile 1.0\nprofile: T\nviolation:\n  - v1\nvalidations:\n  v1:\n    message: m\n    targetClass: apiContract.EndPoint\n    propertyConstraints:\n      core.description:\n        minCount: 1\n"
	node := func(k int, fill int) string {
		return fmt.Sprintf(`{"@id": "http://x/n%d", "@type": "http://a.ml/vocabularies/apiContract#EndPoint", "http://a.ml/vocabularies/core#name": "%s"}`, k, strings.Repeat("x", fill))
	}
	var nodes []string
	for k := 0; k < 50; k++ {
		nodes = append(nodes, node(k, 25000))
	}
	bigData := `{"@graph": [` + strings.Join(nodes, ",\n") + "]}"
	bigProfile := "#%Validation Profile 1.0\n# " + strings.Repeat("c", 3<<20) + "\n" + strings.TrimPrefix(prof, "#%Validation Profile 1.0\n")
	small := node(0, 10)
	for _, pd := range [][2]string{{prof, bigData}, {bigProfile, small}, {prof, small + strings.Repeat(" ", 1<<20) + "\n"}} {
		pf, df, of := filepath.Join(dir, "p.yaml"), filepath.Join(dir, "d.jsonld"), filepath.Join(dir, "out.json")
		os.WriteFile(pf, []byte(pd[0]), 0o644)
		os.WriteFile(df, []byte(pd[1]), 0o644)
		lib, lerr := validator.Validate(pd[0], pd[1], false, nil)
		if lerr != nil {
			panic(lerr)
		}
		so, _, code := v.RunCmd(dir, acv, "validate", pf, df)
		v.Assert("C18.stdout-exact", dropDate(so) == dropDate(lib+"\n"))
		v.Assert("C18.exit-zero", code == 0)
		os.Remove(of)
		so2, _, code2 := v.RunCmd(dir, acv, "validate", pf, df, of)
		written, _ := os.ReadFile(of)
		v.Assert("C18.file-exact", dropDate(string(written)) == dropDate(lib) && so2 == "")
		v.Assert("C18.exit-zero", code2 == 0)
	}
}
