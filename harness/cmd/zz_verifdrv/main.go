//go:build verif

// zz_verifdrv is the native batch driver of /verif: it runs the real parser and
// generator (and, on request, the whole validation) built from the working tree.
//
//	zz_verifdrv generate   < JSON array of profile texts   > JSON array of {code,error}
//	zz_verifdrv validate   < JSON array of {profile,data}  > JSON array of {report,error}
package main

import (
	"encoding/json"
	"fmt"
	"os"

	"github.com/aml-org/amf-custom-validator/internal/parser/profile"
	"github.com/aml-org/amf-custom-validator/internal/validator"
	"github.com/aml-org/amf-custom-validator/pkg"
	"github.com/aml-org/amf-custom-validator/pkg/config"
)

type genOut struct {
	Code  string `json:"code"`
	Name  string `json:"name"`
	Error string `json:"error"`
}

type valIn struct {
	Profile string `json:"profile"`
	Data    string `json:"data"`
}

type valOut struct {
	Report string `json:"report"`
	Error  string `json:"error"`
}

func guard(f func()) (msg string) {
	defer func() {
		if r := recover(); r != nil {
			msg = fmt.Sprintf("panic: %v", r)
		}
	}()
	f()
	return ""
}

func main() {
	dec := json.NewDecoder(os.Stdin)
	enc := json.NewEncoder(os.Stdout)
	switch os.Args[1] {
	case "generate":
		var in []string
		if err := dec.Decode(&in); err != nil {
			panic(err)
		}
		out := make([]genOut, len(in))
		for i, text := range in {
			i, text := i, text
			if m := guard(func() {
				profile.GenReset()
				unit, err := validator.GenerateRego(text, false, nil)
				if err != nil {
					out[i].Error = err.Error()
					return
				}
				out[i].Code, out[i].Name = unit.Code, unit.Name
			}); m != "" {
				out[i].Error = m
			}
		}
		enc.Encode(out)
	case "normalize":
		var in []string
		if err := dec.Decode(&in); err != nil {
			panic(err)
		}
		out := make([]valOut, len(in))
		for i, text := range in {
			i, text := i, text
			if m := guard(func() {
				n, err := validator.ProcessInput(text, false, nil)
				if err != nil {
					out[i].Error = err.Error()
					return
				}
				out[i].Report = validator.Encode(n)
			}); m != "" {
				out[i].Error = m
			}
		}
		enc.Encode(out)
	case "validate":
		var in []valIn
		if err := dec.Decode(&in); err != nil {
			panic(err)
		}
		out := make([]valOut, len(in))
		for i, x := range in {
			i, x := i, x
			if m := guard(func() {
				r, err := pkg.ValidateWithConfiguration(x.Profile, x.Data, false, nil, config.TestValidationConfiguration{}, config.DefaultReportConfiguration())
				if err != nil {
					out[i].Error = err.Error()
					return
				}
				out[i].Report = r
			}); m != "" {
				out[i].Error = m
			}
		}
		enc.Encode(out)
	}
}
