//go:build verif

package pkg

import (
	"sync"

	v "github.com/aml-org/amf-custom-validator/internal/zzverif"
	c "github.com/aml-org/amf-custom-validator/pkg/config"
)

// VerifC10WriteSet: no entry point performs an unsynchronised store to package-level
// state (two concurrent calls doing so would be a data race by the Go memory model).
func VerifC10WriteSet() {
	ep := v.Choice("entry", 4)
	prof := verifProfiles[v.Choice("profile", len(verifProfiles))]
	v.Scope("v")
	v.TrackWrites(true)
	verifGuard(func() {
		switch ep {
		case 0:
			CompileProfile(prof, false, nil)
		case 1:
			Validate(prof, "<<data>>", false, nil)
		case 2:
			compiled, cerr := CompileProfile(prof, false, nil)
			if cerr == nil {
				ValidateCompiled(compiled, "<<data>>", false, nil)
			}
		default:
			ValidateWithConfiguration(prof, "<<data>>", false, nil, c.TestValidationConfiguration{}, c.DefaultReportConfiguration())
		}
	})
	v.TrackWrites(false)
	v.Reach("returned")
	for _, w := range v.WriteLog() {
		v.Note("write", w)
	}
	v.Assert("C10.no-unsynchronised-global-write", v.GlobalWrites() == 0)
}

// VerifC10WriteSetNative: concurrent calls under the race detector.
func VerifC10WriteSetNative() {
	prof := verifProfiles[v.ReplayInt("profile")]
	data := `{"@id": "http://x/a", "@type": "http://a.ml/vocabularies/apiContract#EndPoint"}`
	var wg sync.WaitGroup
	for g := 0; g < 8; g++ {
		wg.Add(1)
		go func() {
			defer wg.Done()
			for i := 0; i < 10; i++ {
				verifGuard(func() {
					compiled, cerr := CompileProfile(prof, false, nil)
					if cerr == nil {
						ValidateCompiled(compiled, data, false, nil)
					}
				})
			}
		}()
	}
	wg.Wait()
}
