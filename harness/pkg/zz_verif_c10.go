//go:build verif

package pkg

import (
	"sync"

	v "github.com/aml-org/amf-custom-validator/internal/zzverif"
	c "github.com/aml-org/amf-custom-validator/pkg/config"
)

// verifRichProfile uses most of the profile language, so that the write-set lemma covers the
// parser's and generator's code for it: declared prefixes (one overriding a built-in one, one
// new), every connective, quantified and nested constraints, path operators, scalar sets,
// comparisons, a message with a placeholder and embedded Rego.
const verifRichProfile = `#%Validation Profile 1.0
profile: Rich
prefixes:
  ex: http://example.org/vocab#
  core: http://example.org/core#
violation:
  - v1
  - v3
warning:
  - v2
info:
  - v4
validations:
  v1:
    message: "value {{ex.a}} of 100%"
    targetClass: ex.C
    propertyConstraints:
      ex.a / ex.b | ex.c^:
        minCount: 1
        pattern: "^a"
      core.name:
        in: [a, b]
        datatype: xsd.string
      ex.n:
        maxInclusive: 5
        lessThanProperty: ex.m
  v2:
    message: m2
    targetClass: apiContract.EndPoint
    not:
      or:
        - propertyConstraints:
            ex.items:
              nested:
                propertyConstraints:
                  ex.a:
                    minLength: 2
        - propertyConstraints:
            ex.items:
              atLeast:
                count: 1
                validation:
                  propertyConstraints:
                    ex.b:
                      containsSome: [x, y]
  v3:
    message: m3
    targetClass: ex.D
    if:
      propertyConstraints:
        ex.a:
          minCount: 1
    then:
      propertyConstraints:
        ex.b:
          uniqueValues: true
    else:
      propertyConstraints:
        ex.c:
          maxCount: 0
  v4:
    message: m4
    targetClass: ex.C
    rego: |
      $result = true
`

var verifProfilesC10 = append(append([]string{}, verifProfiles...), verifRichProfile)

// VerifC10WriteSet: no entry point performs an unsynchronised store to package-level
// state (two concurrent calls doing so would be a data race by the Go memory model).
func VerifC10WriteSet() { verifWriteSet("C10.no-unsynchronised-global-write") }

// VerifC06NoHiddenState: the same lemma read for C06/C09 - an entry point that stores nothing
// into package-level state (the generated-identifier counter apart, which never reaches a
// report) cannot make a later call with the same inputs answer differently.
func VerifC06NoHiddenState() { verifWriteSet("C06.no-hidden-state") }

func verifWriteSet(label string) {
	ep := v.Choice("entry", 4)
	prof := verifProfilesC10[v.Choice("profile", len(verifProfilesC10))]
	v.Scope("v")
	v.TrackWrites(true)
	verifGuard(func() {
		switch ep {
		case 0:
			CompileProfile(prof, false, nil)
		case 1:
			Validate(prof, "<<data>>", false, nil)
		case 2:
			compiled, cerr := CompileProfile(prof, false, nil)
			if cerr == nil {
				ValidateCompiled(compiled, "<<data>>", false, nil)
			}
		default:
			ValidateWithConfiguration(prof, "<<data>>", false, nil, c.TestValidationConfiguration{}, c.DefaultReportConfiguration())
		}
	})
	v.TrackWrites(false)
	v.Reach("returned")
	for _, w := range v.WriteLog() {
		v.Note("write", w)
	}
	v.Assert(label, v.GlobalWrites() == 0)
}

// VerifC10WriteSetNative: concurrent calls under the race detector.
func VerifC10WriteSetNative() {
	prof := verifProfilesC10[v.ReplayInt("profile")]
	data := `{"@id": "http://x/a", "@type": "http://a.ml/vocabularies/apiContract#EndPoint"}`
	var wg sync.WaitGroup
	for g := 0; g < 8; g++ {
		wg.Add(1)
		go func() {
			defer wg.Done()
			for i := 0; i < 10; i++ {
				verifGuard(func() {
					compiled, cerr := CompileProfile(prof, false, nil)
					if cerr == nil {
						ValidateCompiled(compiled, data, false, nil)
					}
				})
			}
		}()
	}
	wg.Wait()
}

// VerifC06NoHiddenStateNative: a probe validation that relies on the built-in prefixes gives the
// same report before and after the offending call ran in the same process.
func VerifC06NoHiddenStateNative() {
	const probeProfile = `#%Validation Profile 1.0
profile: Probe
violation:
  - p1
validations:
  p1:
    message: probe
    targetClass: apiContract.EndPoint
    propertyConstraints:
      core.name:
        minCount: 1
      shacl.name:
        maxCount: 0
`
	const probeData = `{"@id": "http://x/a", "@type": "http://a.ml/vocabularies/apiContract#EndPoint", "http://a.ml/vocabularies/core#name": "n"}`
	label := "C06.no-hidden-state"
	prof := verifProfilesC10[v.ReplayInt("profile")]
	before, _ := ValidateWithConfiguration(probeProfile, probeData, false, nil, c.TestValidationConfiguration{}, c.DefaultReportConfiguration())
	verifGuard(func() {
		compiled, cerr := CompileProfile(prof, false, nil)
		if cerr == nil {
			ValidateCompiled(compiled, probeData, false, nil)
		}
	})
	after, _ := ValidateWithConfiguration(probeProfile, probeData, false, nil, c.TestValidationConfiguration{}, c.DefaultReportConfiguration())
	v.Assert(label, before == after)
}
