//go:build verif

package pkg

import (
	"sync"

	v "github.com/aml-org/amf-custom-validator/internal/zzverif"
	c "github.com/aml-org/amf-custom-validator/pkg/config"
)

// verifRichProfile uses most of the profile language, so that the write-set lemma covers the
// parser's and generator's code for it: declared prefixes (one overriding a built-in one, one
// new), every connective, quantified and nested constraints, path operators, scalar sets,
// comparisons, a message with a placeholder and embedded Rego.
const verifRichProfile = `#%Validation Profile 1.0
profile: Rich
prefixes:
  ex: http://example.org/vocab#
  core: http://example.org/core#
violation:
  - v1
  - v3
warning:
  - v2
info:
  - v4
validations:
  v1:
    message: "value {{ex.a}} of 100%"
    targetClass: ex.C
    propertyConstraints:
      ex.a / ex.b | ex.c^:
        minCount: 1
        pattern: "^a"
      core.name:
        in: [a, b]
        datatype: xsd.string
      ex.n:
        maxInclusive: 5
        lessThanProperty: ex.m
  v2:
    message: m2
    targetClass: apiContract.EndPoint
    not:
      or:
        - propertyConstraints:
            ex.items:
              nested:
                propertyConstraints:
                  ex.a:
                    minLength: 2
        - propertyConstraints:
            ex.items:
              atLeast:
                count: 1
                validation:
                  propertyConstraints:
                    ex.b:
                      containsSome: [x, y]
  v3:
    message: m3
    targetClass: ex.D
    if:
      propertyConstraints:
        ex.a:
          minCount: 1
    then:
      propertyConstraints:
        ex.b:
          uniqueValues: true
    else:
      propertyConstraints:
        ex.c:
          maxCount: 0
  v4:
    message: m4
    targetClass: ex.C
    rego: |
      $result = true
`

var verifProfilesC10 = append(append([]string{}, verifProfiles...), verifRichProfile)

// VerifC10WriteSet: no entry point performs an unsynchronised store to package-level
// state (two concurrent calls doing so would be a data race by the Go memory model).
func VerifC10WriteSet() { verifWriteSet("C10.no-unsynchronised-global-write") }

// VerifC06NoHiddenState: the same lemma read for C06/C09 - an entry point that stores nothing
// into package-level state (the generated-identifier counter apart, which never reaches a
// report) cannot make a later call with the same inputs answer differently.
func VerifC06NoHiddenState() { verifWriteSet("C06.no-hidden-state") }

// VerifC02PrefixTableNotShared: the lemma once more, read for C02 - what a property path denotes is
// fixed by the profile's own prefixes and the documented built-in ones: a compilation that wrote
// into shared state (the prefix table, an expander) would change what later profiles' paths denote.
func VerifC02PrefixTableNotShared() { verifWriteSet("C02.prefix-resolution-not-shared") }

func verifWriteSet(label string) {
	ep := v.Choice("entry", 4)
	prof := verifProfilesC10[v.Choice("profile", len(verifProfilesC10))]
	debug := v.Choice("debug", 2) == 1
	v.Scope("v")
	v.TrackWrites(true)
	verifGuard(func() {
		switch ep {
		case 0:
			CompileProfile(prof, debug, nil)
		case 1:
			Validate(prof, "<<data>>", debug, nil)
		case 2:
			compiled, cerr := CompileProfile(prof, debug, nil)
			if cerr == nil {
				ValidateCompiled(compiled, "<<data>>", debug, nil)
			}
		default:
			ValidateWithConfiguration(prof, "<<data>>", debug, nil, c.TestValidationConfiguration{}, c.DefaultReportConfiguration())
		}
	})
	v.TrackWrites(false)
	v.Reach("returned")
	for _, w := range v.WriteLog() {
		v.Note("write", w)
	}
	for _, w := range v.GlobalResets() {
		v.Note("reset", w)
	}
	v.Assert(label, v.GlobalWrites() == 0)
	// the identifier counter may be added to (every caller still gets its own numbers), never reset
	v.Assert(label+".reset", len(v.GlobalResets()) == 0)
}

// VerifC10WriteSetNative: concurrent calls under the race detector, each compared with the same
// call made alone (a reset of shared state is no data race, it shows as a different answer).
func VerifC10WriteSetNative() {
	prof := verifProfilesC10[v.ReplayInt("profile")]
	debug := false
	if _, asked := v.ReplayInput("debug"); asked {
		debug = v.ReplayInt("debug") == 1
	}
	same := verifConcurrentEqualsAlone2(prof, debug)
	v.Assert("C10.no-unsynchronised-global-write.reset", same)
	v.Assert("C10.no-unsynchronised-global-write", same)
}

// VerifC06NoHiddenStateNative: a probe validation that relies on the built-in prefixes gives the
// same report before and after the offending call ran in the same process.
func VerifC06NoHiddenStateNative() {
	const probeProfile = `#%Validation Profile 1.0
profile: Probe
violation:
  - p1
validations:
  p1:
    message: probe
    targetClass: apiContract.EndPoint
    propertyConstraints:
      core.name:
        minCount: 1
      shacl.name:
        maxCount: 0
`
	const probeData = `{"@id": "http://x/a", "@type": "http://a.ml/vocabularies/apiContract#EndPoint", "http://a.ml/vocabularies/core#name": "n"}`
	label := "C06.no-hidden-state"
	prof := verifProfilesC10[v.ReplayInt("profile")]
	before, _ := ValidateWithConfiguration(probeProfile, probeData, false, nil, c.TestValidationConfiguration{}, c.DefaultReportConfiguration())
	verifGuard(func() {
		compiled, cerr := CompileProfile(prof, false, nil)
		if cerr == nil {
			ValidateCompiled(compiled, probeData, false, nil)
		}
	})
	after, _ := ValidateWithConfiguration(probeProfile, probeData, false, nil, c.TestValidationConfiguration{}, c.DefaultReportConfiguration())
	v.Assert(label, before == after)
	// "... and any degree of concurrency": concurrent validations answer what the same call answers alone
	same := verifConcurrentEqualsAlone(prof)
	v.Assert(label, same)
	v.Assert(label+".reset", same)
}

// verifConcurrentEqualsAlone: several goroutines compile and validate three profiles over and over;
// every answer must equal the answer of the same call made alone.
func verifConcurrentEqualsAlone(prof string) bool {
	return verifConcurrentEqualsAlone2(prof, false) && verifConcurrentEqualsAlone2(prof, true)
}

func verifConcurrentEqualsAlone2(prof string, debug bool) bool {
	// documents that fail the rich profile and the small one
	data := `{"@graph": [{"@id": "http://x/a", "@type": ["http://a.ml/vocabularies/apiContract#EndPoint", "http://example.org/vocab#C", "http://example.org/vocab#D"], "http://example.org/vocab#items": {"@id": "http://x/b"}}, {"@id": "http://x/b", "http://example.org/vocab#a": "q"}]}`
	profs := []string{prof, verifRichProfile, verifGoodProfile}
	run := func(p string) (report string) {
		verifGuard(func() {
			compiled, cerr := CompileProfile(p, debug, nil)
			if cerr == nil {
				report, _ = ValidateCompiledWithConfiguration(compiled, data, debug, nil, c.TestValidationConfiguration{}, c.DefaultReportConfiguration())
			}
		})
		return
	}
	alone := make([]string, len(profs))
	for k, p := range profs {
		alone[k] = run(p)
	}
	var wg sync.WaitGroup
	var mu sync.Mutex
	same := true
	for g := 0; g < 12; g++ {
		wg.Add(1)
		go func(g int) {
			defer wg.Done()
			for i := 0; i < 25; i++ {
				k := (g + i) % len(profs)
				if r := run(profs[k]); r != alone[k] {
					mu.Lock()
					same = false
					mu.Unlock()
				}
			}
		}(g)
	}
	wg.Wait()
	return same
}

// VerifC02PrefixTableNotSharedNative: a probe profile using only built-in prefixes in its paths gives
// the same report before and after the offending profile was compiled in the same process.
func VerifC02PrefixTableNotSharedNative() {
	const probe = `#%Validation Profile 1.0
profile: Probe
violation:
  - p1
validations:
  p1:
    message: probe
    targetClass: apiContract.EndPoint
    propertyConstraints:
      core.name / core.name | catalog.tag:
        minCount: 1
      shacl.name^:
        maxCount: 0
`
	const data = `{"@graph": [{"@id": "http://x/a", "@type": "http://a.ml/vocabularies/apiContract#EndPoint", "http://anypoint.com/vocabs/digital-repository#tag": "t", "http://a.ml/vocabularies/core#name": {"@id": "http://x/b"}}, {"@id": "http://x/b", "http://a.ml/vocabularies/core#name": "n"}]}`
	prof := verifProfilesC10[v.ReplayInt("profile")]
	before, _ := ValidateWithConfiguration(probe, data, false, nil, c.TestValidationConfiguration{}, c.DefaultReportConfiguration())
	verifGuard(func() { CompileProfile(prof, false, nil) })
	verifGuard(func() { CompileProfile(verifRichProfile, false, nil) })
	after, _ := ValidateWithConfiguration(probe, data, false, nil, c.TestValidationConfiguration{}, c.DefaultReportConfiguration())
	v.Assert("C02.prefix-resolution-not-shared", before == after && before != "")
	v.Assert("C02.prefix-resolution-not-shared.reset", before == after)
}
