//go:build verif

package pkg

import (
	"fmt"
	"strings"

	v "github.com/aml-org/amf-custom-validator/internal/zzverif"
	"github.com/open-policy-agent/opa/ast"
)

func verifIndent(s string, n int) string {
	pad := strings.Repeat(" ", n)
	lines := strings.Split(s, "\n")
	for i := range lines {
		lines[i] = pad + lines[i]
	}
	return strings.Join(lines, "\n")
}

// VerifC08NativeMatrix (native only): the assumption behind C08 — the linked engine
// rejects every module that calls a denied built-in, whatever the syntax — exercised
// through the real CompileProfile for built-in x embedding position x call syntax.
func VerifC08NativeMatrix() {
	calls := map[string]string{
		"http.send":          `http.send({"method": "get", "url": "http://localhost:1"})`,
		"net.lookup_ip_addr": `net.lookup_ip_addr("localhost")`,
		"opa.runtime":        `opa.runtime()`,
		"rego.parse_module":  `rego.parse_module("x.rego", "package x")`,
		"walk":               `walk(input, [p, q])`,
	}
	for name, call := range calls {
		_, registered := ast.BuiltinMap[name]
		v.Assert("C08.listed-exists."+name, registered)
		syntaxes := map[string]string{
			"statement":     call + "\n$result = true",
			"assignment":    "out := " + call + "\n$result = true",
			"comprehension": "outs = [o | o := " + call + "]\n$result = true",
		}
		if name == "walk" {
			syntaxes = map[string]string{"statement": call + "\n$result = true", "comprehension": "outs = [p | " + call + "]\n$result = true"}
		}
		for sname, code := range syntaxes {
			positions := map[string]string{
				"rego":         "    rego: |\n" + verifIndent(code, 6),
				"regoModule":   "    regoModule: |\n" + verifIndent(code, 6),
				"code-message": "    rego:\n      message: m\n      code: |\n" + verifIndent(code, 8),
				"under-path":   "    propertyConstraints:\n      core.name:\n        rego: |\n" + verifIndent(strings.ReplaceAll(code, "$result = true", "$result = ($node != null)"), 10),
				"nested":       "    propertyConstraints:\n      apiContract.endpoint:\n        nested:\n          rego: |\n" + verifIndent(code, 12),
				"not":          "    not:\n      rego: |\n" + verifIndent(code, 8),
				"or":           "    or:\n      - propertyConstraints:\n          core.name:\n            minCount: 1\n      - rego: |\n" + verifIndent(code, 10),
				"if":           "    if:\n      rego: |\n" + verifIndent(code, 8) + "\n    then:\n      propertyConstraints:\n        core.name:\n          minCount: 1",
			}
			for pname, body := range positions {
				prof := "#%Validation Profile 1.0\nprofile: T\nviolation:\n  - v1\nvalidations:\n  v1:\n    message: m\n    targetClass: apiContract.WebAPI\n" + body + "\n"
				for _, debug := range []bool{false, true} {
					_, err := CompileProfile(prof, debug, nil)
					if err == nil {
						fmt.Printf("ACCEPTED builtin=%s syntax=%s position=%s debug=%v\n", name, sname, pname, debug)
					}
					v.Assert("C08.rejected."+name, err != nil)
				}
			}
			// hidden in a helper function of rego_extensions
			helper := "helper(x) = y {\n  y := " + call + "\n}"
			if name == "walk" {
				helper = "helper(x) = p {\n  " + call + "\n}"
			}
			prof := "#%Validation Profile 1.0\nprofile: T\nrego_extensions: |\n" + verifIndent(helper, 2) + "\nviolation:\n  - v1\nvalidations:\n  v1:\n    message: m\n    targetClass: apiContract.WebAPI\n    rego: |\n      z = helper(1)\n      $result = true\n"
			_, err := CompileProfile(prof, false, nil)
			if err == nil {
				fmt.Printf("ACCEPTED builtin=%s position=rego_extensions\n", name)
			}
			v.Assert("C08.rejected."+name, err != nil)
		}
	}
	// sanity: the same shapes with a harmless built-in are accepted (the matrix is not vacuous)
	ok := "#%Validation Profile 1.0\nprofile: T\nviolation:\n  - v1\nvalidations:\n  v1:\n    message: m\n    targetClass: apiContract.WebAPI\n    rego: |\n      out := count([1])\n      $result = true\n"
	_, err := CompileProfile(ok, false, nil)
	v.Assert("C08.matrix-not-vacuous", err == nil)
}
