//go:build verif

package pkg

import (
	"fmt"
	"strings"

	v "github.com/aml-org/amf-custom-validator/internal/zzverif"
	c "github.com/aml-org/amf-custom-validator/pkg/config"
	e "github.com/aml-org/amf-custom-validator/pkg/events"
	"github.com/aml-org/amf-custom-validator/pkg/milestones"
	"github.com/open-policy-agent/opa/rego"
)

const verifGoodProfile = `#%Validation Profile 1.0
profile: Test
violation:
  - v1
validations:
  v1:
    message: m
    targetClass: apiContract.EndPoint
    propertyConstraints:
      apiContract.path:
        minCount: 1
`

const verifUnknownPrefixProfile = `#%Validation Profile 1.0
profile: Test
violation:
  - v1
validations:
  v1:
    message: m
    targetClass: nosuchprefix.EndPoint
    propertyConstraints:
      apiContract.path:
        minCount: 1
`

// verifEvalErrProfile compiles, and its evaluation fails (eval_conflict_error).
const verifEvalErrProfile = `#%Validation Profile 1.0
profile: EvalErr
violation:
  - v1
rego_extensions: |
  verif_conflict = 1 { true }
  verif_conflict = 2 { true }
validations:
  v1:
    message: m
    targetClass: apiContract.EndPoint
    rego: |
      $result = (verif_conflict == 1)
`

// verifReportFailProfile compiles and evaluates, and its result cannot be turned into a report.
const verifReportFailProfile = `#%Validation Profile 1.0
profile: ReportFail
violation:
  - v1
rego_extensions: |
  violation[m] { m := "not a result node" }
validations:
  v1:
    message: m
    targetClass: apiContract.EndPoint
    propertyConstraints:
      apiContract.path:
        minCount: 1
`

// valid; YAML error; structure error; empty document (the parser fails hard); unknown prefix (the generator fails hard)
var verifProfiles = []string{verifGoodProfile, "profile: [unclosed", "profile: OnlyAName\n", "", verifUnknownPrefixProfile}

var verifStageOrder = []e.EventType{
	e.ProfileParsingStart, e.ProfileParsingDone, e.RegoGenerationStart, e.RegoGenerationDone,
	e.RegoCompilationStart, e.RegoCompilationDone, e.InputDataParsingStart, e.InputDataParsingDone,
	e.InputDataNormalizationStart, e.InputDataNormalizationDone, e.OpaValidationStart, e.OpaValidationDone,
	e.BuildReportStart, e.BuildReportDone,
}

func verifDrain(ch chan e.Event) (evs []e.Event, closed bool) {
	for {
		select {
		case ev, ok := <-ch:
			if !ok {
				return evs, true
			}
			evs = append(evs, ev)
		default:
			return evs, false
		}
	}
}

func verifGuard(f func()) (panicked bool, msg string) {
	defer func() {
		if r := recover(); r != nil {
			panicked = true
			msg = fmt.Sprint(r)
		}
	}()
	f()
	return
}

// VerifC11Events: fault at every stage x every entry point; the event log must be
// a prefix of the stage order and the channel closed exactly once by the validating call.
func VerifC11Events() {
	ep := v.Choice("entry", 5)
	prof := verifProfiles[v.Choice("profile", len(verifProfiles))]
	ch := make(chan e.Event, 64)
	// the document may start with three arbitrary bytes (a byte order mark, blanks, ...)
	data := v.Bytes("prefix", 3*v.Choice("prefixLen", 2)) + "<<data>>"
	var compiled *rego.PreparedEvalQuery
	var cerr error
	compileFailed := false
	var verr error
	var report string
	v.Scope("v")
	panicked, msg := verifGuard(func() {
		switch ep {
		case 0:
			report, verr = Validate(prof, data, false, &ch)
		case 1:
			report, verr = ValidateWithConfiguration(prof, data, false, &ch, c.TestValidationConfiguration{}, c.DefaultReportConfiguration())
		default:
			compiled, cerr = CompileProfile(prof, false, &ch)
			if cerr != nil {
				compileFailed = true
				return
			}
			if ep == 2 {
				report, verr = ValidateCompiled(compiled, data, false, &ch)
			} else if ep == 3 {
				report, verr = ValidateCompiledWithConfiguration(compiled, data, false, &ch, c.TestValidationConfiguration{}, c.DefaultReportConfiguration())
			}
		}
	})
	evs, closed := verifDrain(ch)
	v.Reach("returned")
	// 1. prefix of the stage order
	v.Assert("C11.prefix-of-stage-order.length", len(evs) <= len(verifStageOrder))
	for i, ev := range evs {
		if i < len(verifStageOrder) {
			v.Assert("C11.prefix-of-stage-order", ev.EventType == verifStageOrder[i])
		}
	}
	// 1b. a call that came back with a report went through every stage: each was started and finished
	if ep < 4 && !panicked && !compileFailed && verr == nil && report != "" {
		v.Reach("succeeded")
		v.Assert("C11.complete-on-success", len(evs) == len(verifStageOrder))
	}
	// 2. close discipline
	doubleClose := panicked && strings.Contains(msg, "close of closed channel")
	v.Assert("C11.closed-once", !doubleClose)
	if ep == 4 && !compileFailed && !panicked {
		v.Reach("compile-ok")
		v.Assert("C11.compile-ok-open", !closed)
	} else {
		if panicked {
			v.Reach("panicked")
		}
		if compileFailed {
			v.Reach("compile-failed")
		}
		v.Assert("C11.closed-on-return", closed)
	}
	// 3. a stage that was started after a failed stage: the log must stop at the failure
	if len(evs)%2 == 1 {
		v.Reach("ends-in-start")
	}
	// 4. milestones
	ch2 := make(chan e.Event, 64)
	for _, ev := range evs {
		ch2 <- ev
	}
	close(ch2)
	mch := make(chan milestones.Milestone, 64)
	milestones.GenerateMilestonesFromEvents(&ch2, &mch)
	want := 0
	for i, ev := range evs {
		if i%2 == 1 && ev.EventType != e.RegoCompilationDone {
			want++
		}
	}
	n := 0
	for m := range mch {
		n++
		v.Assert("C11.duration-nonneg", m.Duration >= 0)
	}
	v.Assert("C11.one-milestone-per-stage", n == want)
}

// verifC11Request: one request of a service that keeps its event channel in a variable: the variable
// gets a new channel, the entry point gets the variable's address.
func verifC11Request(ep int, prof, data string, ch *chan e.Event) (evs []e.Event, closed, panicked bool) {
	*ch = make(chan e.Event, 64)
	current := *ch
	panicked, _ = verifGuard(func() {
		switch ep {
		case 0:
			Validate(prof, data, false, ch)
		case 1:
			ValidateWithConfiguration(prof, data, false, ch, c.TestValidationConfiguration{}, c.DefaultReportConfiguration())
		default:
			compiled, cerr := CompileProfile(prof, false, ch)
			if cerr != nil {
				return
			}
			ValidateCompiled(compiled, data, false, ch)
		}
	})
	evs, closed = verifDrain(current)
	return
}

// VerifC11Reuse: histories of requests. Each request's channel is closed when the request returns
// and carries a prefix of the stage order - whether the requests keep their channel in one and the
// same variable (re-made per request) or each in its own, and whatever happened to earlier requests.
func VerifC11Reuse() {
	requests, profiles, entries := 2, 2, 3
	if v.Deep() {
		requests, profiles, entries = 3, 1, 2 // thorough tier: one more request; one profile, text or text-with-configuration entry
	}
	prof := verifProfiles[v.Choice("profile", profiles)]
	var shared, own1, own2, own3 chan e.Event
	sameVariable := v.Bool("sameVariable")
	slots := []*chan e.Event{&own1, &own2, &own3}
	for k := 0; k < requests; k++ {
		slot := slots[k]
		if sameVariable {
			slot = &shared
		}
		v.Scope([]string{"r1", "r2", "r3"}[k])
		evs, closed, _ := verifC11Request(v.Choice("entry", entries), prof, "<<data>>", slot)
		v.Assert("C11.closed-on-return", closed)
		v.Assert("C11.prefix-of-stage-order.length", len(evs) <= len(verifStageOrder))
		for i, ev := range evs {
			if i < len(verifStageOrder) {
				v.Assert("C11.prefix-of-stage-order", ev.EventType == verifStageOrder[i])
			}
		}
	}
	v.Reach("two-requests")
}

// VerifC11ReuseNative: the same history with real inputs; a request whose decoding stage was
// chosen to fail gets a text that is not JSON.
func VerifC11ReuseNative() {
	prof := verifProfiles[v.ReplayInt("profile")]
	var shared, own1, own2, own3 chan e.Event
	sameVariable := v.ReplayBool("sameVariable")
	slots := []*chan e.Event{&own1, &own2, &own3}
	requests := 2
	if v.Deep() {
		requests = 3
	}
	for k := 0; k < requests; k++ {
		slot := slots[k]
		if sameVariable {
			slot = &shared
		}
		scope := []string{"r1", "r2", "r3"}[k]
		name := "entry"
		if k > 0 {
			name = "entry#" + string(rune('0'+k))
		}
		ep := 0
		if _, asked := v.ReplayInput(name); asked {
			ep = v.ReplayInt(name)
		}
		data := `{"@id": "http://x/a", "@type": "http://a.ml/vocabularies/apiContract#EndPoint"}`
		if v.ReplayBool("flag:" + scope + ".decode.err") {
			data = "not json"
		} else if v.ReplayBool("flag:" + scope + ".flatten.err") {
			data = `{"@context": 42, "@id": "x"}`
		}
		evs, closed, _ := verifC11Request(ep, prof, data, slot)
		v.Assert("C11.closed-on-return", closed)
		v.Assert("C11.prefix-of-stage-order.length", len(evs) <= len(verifStageOrder))
	}
}

// VerifC11NilChannel: without a channel nothing is sent or closed and nothing panics
// because of the missing channel.
func VerifC11NilChannel() {
	ep := v.Choice("entry", 3)
	prof := verifProfiles[v.Choice("profile", len(verifProfiles))]
	v.Scope("v")
	panicked, msg := verifGuard(func() {
		switch ep {
		case 0:
			Validate(prof, "<<data>>", false, nil)
		case 1:
			CompileProfile(prof, false, nil)
		default:
			compiled, cerr := CompileProfile(prof, false, nil)
			if cerr == nil {
				ValidateCompiled(compiled, "<<data>>", false, nil)
			}
		}
	})
	v.Reach("returned")
	v.Assert("C11.nil-channel-safe", !panicked || !strings.Contains(msg, "nil"))
}

// verifCompileErrProfile: a profile the engine refuses. Its extension block holds eleven rules with an
// unsafe variable each: the engine stops at its limit of ten errors and appends a marker that has
// no location, so the error value has both kinds of entries.
const verifCompileErrProfile = `#%Validation Profile 1.0
profile: Test
rego_extensions: |
  helper_1 { unbound_1 }
  helper_2 { unbound_2 }
  helper_3 { unbound_3 }
  helper_4 { unbound_4 }
  helper_5 { unbound_5 }
  helper_6 { unbound_6 }
  helper_7 { unbound_7 }
  helper_8 { unbound_8 }
  helper_9 { unbound_9 }
  helper_10 { unbound_10 }
  helper_11 { unbound_11 }
violation:
  - v1
validations:
  v1:
    message: m
    targetClass: apiContract.EndPoint
    propertyConstraints:
      core.name:
        minCount: 1
`

// VerifC11EventsNative replays a VerifC11Events counterexample with real inputs that
// provoke the recorded stage faults (those that can be provoked from outside).
func VerifC11EventsNative() {
	ep := v.ReplayInt("entry")
	prof := verifProfiles[v.ReplayInt("profile")]
	if v.ReplayBool("flag:v.compile.err") {
		prof = verifCompileErrProfile
	}
	data := `{"@id": "http://x/a", "@type": "http://a.ml/vocabularies/apiContract#EndPoint"}`
	if v.ReplayBool("flag:v.flatten.empty") {
		data = `{"@context": {"ex": "http://example.org/"}}`
	}
	if v.ReplayBool("flag:v.decode.err") {
		data = "not json"
	} else if v.ReplayBool("flag:v.flatten.err") {
		data = `{"@context": 42, "@id": "x"}`
		if v.ReplayBool("flag:v.flatten.panic") {
			data = `{"@context": {"@protected": 5, "apiContract": "http://a.ml/vocabularies/apiContract#"}, "@id": "http://x/a", "@type": "apiContract:EndPoint"}`
		} else if v.ReplayBool("flag:v.flatten.plain") {
			data = `{"@id": "http://example.com/g", "@graph": "http://example.com/x"}`
		}
	}
	// evaluation-stage outcomes are provoked through the profile: a run-time conflict makes the
	// engine's Eval fail, a non-object in a result set makes report building fail (the stage the
	// stub's empty result set fails in)
	if v.ReplayBool("flag:v.eval.err") {
		prof = verifEvalErrProfile
	} else if v.ReplayBool("flag:v.eval.empty") {
		prof = verifReportFailProfile
	}
	// the recorded first bytes of the document go in front of the witness (a prefix that is not blank
	// makes the text unreadable, which is what the decoder was recorded to say in that case)
	data = string(v.ReplayBytes("prefix")) + data
	ch := make(chan e.Event, 64)
	compileFailed := false
	var verr error
	var report string
	panicked, msg := verifGuard(func() {
		switch ep {
		case 0:
			report, verr = Validate(prof, data, false, &ch)
		case 1:
			report, verr = ValidateWithConfiguration(prof, data, false, &ch, c.TestValidationConfiguration{}, c.DefaultReportConfiguration())
		default:
			compiled, cerr := CompileProfile(prof, false, &ch)
			if cerr != nil {
				compileFailed = true
				return
			}
			if ep == 2 {
				report, verr = ValidateCompiled(compiled, data, false, &ch)
			} else if ep == 3 {
				report, verr = ValidateCompiledWithConfiguration(compiled, data, false, &ch, c.TestValidationConfiguration{}, c.DefaultReportConfiguration())
			}
		}
	})
	evs, closed := verifDrain(ch)
	if ep < 4 && !panicked && !compileFailed && verr == nil && report != "" {
		v.Assert("C11.complete-on-success", len(evs) == len(verifStageOrder))
	}
	v.Assert("C11.prefix-of-stage-order.length", len(evs) <= len(verifStageOrder))
	for i, ev := range evs {
		if i < len(verifStageOrder) {
			v.Assert("C11.prefix-of-stage-order", ev.EventType == verifStageOrder[i])
		}
	}
	v.Assert("C11.closed-once", !(panicked && strings.Contains(msg, "close of closed channel")))
	if ep == 4 && !compileFailed && !panicked {
		v.Assert("C11.compile-ok-open", !closed)
	} else {
		v.Assert("C11.closed-on-return", closed)
	}
	ch2 := make(chan e.Event, 64)
	for _, ev := range evs {
		ch2 <- ev
	}
	close(ch2)
	mch := make(chan milestones.Milestone, 64)
	milestones.GenerateMilestonesFromEvents(&ch2, &mch)
	want := 0
	for i, ev := range evs {
		if i%2 == 1 && ev.EventType != e.RegoCompilationDone {
			want++
		}
	}
	n := 0
	for m := range mch {
		n++
		v.Assert("C11.duration-nonneg", m.Duration >= 0)
	}
	v.Assert("C11.one-milestone-per-stage", n == want)
}

// VerifC17WithChannel: with an event channel attached, every entry point still returns (a report or
// an error) whatever stage fails - it does not panic, also not on a close of the channel.
func VerifC17WithChannel() {
	ep := v.Choice("entry", 5)
	prof := verifProfiles[v.Choice("profile", len(verifProfiles))]
	ch := make(chan e.Event, 64)
	v.Scope("v")
	panicked, msg := verifGuard(func() {
		switch ep {
		case 0:
			Validate(prof, "<<data>>", false, &ch)
		case 1:
			ValidateWithConfiguration(prof, "<<data>>", false, &ch, c.TestValidationConfiguration{}, c.DefaultReportConfiguration())
		default:
			compiled, cerr := CompileProfile(prof, false, &ch)
			if cerr != nil {
				return
			}
			if ep == 2 {
				ValidateCompiled(compiled, "<<data>>", false, &ch)
			} else if ep == 3 {
				ValidateCompiledWithConfiguration(compiled, "<<data>>", false, &ch, c.TestValidationConfiguration{}, c.DefaultReportConfiguration())
			}
		}
	})
	v.Reach("returned")
	_ = msg
	v.Assert("C17.no-panic.with-channel", !panicked)
}

// VerifC17WithChannelNative replays with witness inputs for the recorded stage outcomes.
func VerifC17WithChannelNative() {
	ep := v.ReplayInt("entry")
	prof := verifProfiles[v.ReplayInt("profile")]
	if v.ReplayBool("flag:v.compile.err") {
		prof = verifCompileErrProfile
	}
	data := `{"@id": "http://x/a", "@type": "http://a.ml/vocabularies/apiContract#EndPoint"}`
	if v.ReplayBool("flag:v.flatten.empty") {
		data = `{"@context": {"ex": "http://example.org/"}}`
	}
	if v.ReplayBool("flag:v.decode.err") {
		data = "not json"
	} else if v.ReplayBool("flag:v.flatten.err") {
		data = `{"@context": 42, "@id": "x"}`
		if v.ReplayBool("flag:v.flatten.panic") {
			data = `{"@context": {"@protected": 5, "apiContract": "http://a.ml/vocabularies/apiContract#"}, "@id": "http://x/a", "@type": "apiContract:EndPoint"}`
		} else if v.ReplayBool("flag:v.flatten.plain") {
			data = `{"@id": "http://example.com/g", "@graph": "http://example.com/x"}`
		}
	}
	if v.ReplayBool("flag:v.eval.err") {
		prof = verifEvalErrProfile
	} else if v.ReplayBool("flag:v.eval.empty") {
		prof = verifReportFailProfile
	}
	ch := make(chan e.Event, 64)
	panicked, _ := verifGuard(func() {
		switch ep {
		case 0:
			Validate(prof, data, false, &ch)
		case 1:
			ValidateWithConfiguration(prof, data, false, &ch, c.TestValidationConfiguration{}, c.DefaultReportConfiguration())
		default:
			compiled, cerr := CompileProfile(prof, false, &ch)
			if cerr != nil {
				return
			}
			if ep == 2 {
				ValidateCompiled(compiled, data, false, &ch)
			} else if ep == 3 {
				ValidateCompiledWithConfiguration(compiled, data, false, &ch, c.TestValidationConfiguration{}, c.DefaultReportConfiguration())
			}
		}
	})
	v.Assert("C17.no-panic.with-channel", !panicked)
}
