//go:build verif

package pkg

import (
	"strings"
	"sync"
	"time"

	v "github.com/aml-org/amf-custom-validator/internal/zzverif"
	c "github.com/aml-org/amf-custom-validator/pkg/config"
	e "github.com/aml-org/amf-custom-validator/pkg/events"
)

// Native-only supplements (no solver): sizes and thread counts the symbolic harnesses do not reach.

const verifNativeProfile = `#%Validation Profile 1.0
profile: Sizes
violation:
  - v1
validations:
  v1:
    message: m
    targetClass: apiContract.EndPoint
    propertyConstraints:
      core.description:
        minCount: 1
`

const verifNativeDoc = `{"@id": "http://x/a", "@type": "http://a.ml/vocabularies/apiContract#EndPoint"}`

// VerifC11LargeDataNative: a data text of 17 MiB (the document followed by white space) and one of
// 33 MiB, with an event channel: the call returns, the events are a prefix of the stage order and the
// channel is closed - whether the call succeeds or refuses the text.
func VerifC11LargeDataNative() {
	for _, size := range []int{17 << 20, 33 << 20} {
		data := verifNativeDoc + strings.Repeat(" ", size)
		for ep := 0; ep < 2; ep++ {
			ch := make(chan e.Event, 64)
			if ep == 0 {
				Validate(verifNativeProfile, data, false, &ch)
			} else {
				compiled, err := CompileProfile(verifNativeProfile, false, &ch)
				if err != nil {
					panic(err)
				}
				ValidateCompiled(compiled, data, false, &ch)
			}
			evs, closed := verifDrain(ch)
			v.Assert("C11.closed-on-return", closed)
			v.Assert("C11.prefix-of-stage-order.length", len(evs) <= len(verifStageOrder))
			for i, ev := range evs {
				if i < len(verifStageOrder) {
					v.Assert("C11.prefix-of-stage-order", ev.EventType == verifStageOrder[i])
				}
			}
		}
	}
}

// VerifC10ManyCallsNative: 48 validations started at once (and 48 more through one compiled profile):
// all return within a minute with the report of a call made alone.
func VerifC10ManyCallsNative() {
	solo, err := ValidateWithConfiguration(verifNativeProfile, verifNativeDoc, false, nil, c.TestValidationConfiguration{}, c.DefaultReportConfiguration())
	if err != nil {
		panic(err)
	}
	compiled, err := CompileProfile(verifNativeProfile, false, nil)
	if err != nil {
		panic(err)
	}
	const n = 48
	results := make([]string, 2*n)
	var wg sync.WaitGroup
	start := make(chan struct{})
	for k := 0; k < 2*n; k++ {
		wg.Add(1)
		go func(k int) {
			defer wg.Done()
			<-start
			if k < n {
				results[k], _ = ValidateWithConfiguration(verifNativeProfile, verifNativeDoc, false, nil, c.TestValidationConfiguration{}, c.DefaultReportConfiguration())
			} else {
				results[k], _ = ValidateCompiledWithConfiguration(compiled, verifNativeDoc, false, nil, c.TestValidationConfiguration{}, c.DefaultReportConfiguration())
			}
		}(k)
	}
	close(start)
	done := make(chan struct{})
	go func() { wg.Wait(); close(done) }()
	select {
	case <-done:
	case <-time.After(60 * time.Second):
		v.Assert("C10.all-calls-return", false)
		return
	}
	for _, r := range results {
		v.Assert("C10.concurrent-eq-solo", r == solo)
	}
}
