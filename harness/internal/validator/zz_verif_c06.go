//go:build verif

package validator

import (
	"fmt"

	"github.com/aml-org/amf-custom-validator/internal/parser/profile"
	"github.com/aml-org/amf-custom-validator/internal/types"
	v "github.com/aml-org/amf-custom-validator/internal/zzverif"
	c "github.com/aml-org/amf-custom-validator/pkg/config"
)

// verifManyValidations: a profile with n one-constraint validations spread over the three levels
// (work that an implementation may decide to split up or parallelise).
func verifManyValidations(n int) string {
	levels := []string{"violation", "warning", "info"}
	lists := map[string]string{}
	defs := ""
	for k := 0; k < n; k++ {
		name := fmt.Sprintf("m%d", k)
		lists[levels[k%3]] += "  - " + name + "\n"
		defs += fmt.Sprintf("  %s:\n    message: m\n    targetClass: ex.C\n    propertyConstraints:\n      ex.p%d:\n        minCount: 1\n      ex.q%d / ex.r:\n        maxCount: %d\n", name, k, k, k)
	}
	return "profile: Many\nprefixes:\n  ex: http://example.org/\nviolation:\n" + lists["violation"] + "warning:\n" + lists["warning"] + "info:\n" + lists["info"] + "validations:\n" + defs
}

var verifC06Profiles = append(verifC06ProfilesBase, verifManyValidations(12))

var verifC06ProfilesBase = []string{
	// prefix names that contain dots, one a dotted extension of the other, and names under both: whatever
	// the expander makes of them (today: the text before the first dot is not a prefix, an error), it
	// makes the same of them every time
	`profile: P7
prefixes:
  ex.v2: http://example.org/v2#
  ex.v2.beta: http://example.org/v2/beta#
  ex.v2.beta.rc: http://example.org/v2/beta/rc#
violation:
  - v1
validations:
  v1:
    message: "{{ex.v2.beta.rc.name}}"
    targetClass: ex.v2.beta.Thing
    propertyConstraints:
      ex.v2.beta.rc.name:
        minCount: 1
      ex.v2.beta.size / ex.v2.unit:
        in: [a, b]
`,
	// three quantified constraints under one propertyConstraints: fresh variables are allocated in key order
	`profile: P1
prefixes:
  ex: http://example.org/
  ey: http://example.org/y#
violation:
  - v1
validations:
  v1:
    targetClass: ex.C
    propertyConstraints:
      ex.a:
        nested:
          propertyConstraints:
            ex.p:
              minCount: 1
      ex.b:
        atLeast:
          count: 1
          validation:
            propertyConstraints:
              ey.q:
                minCount: 1
      ex.c:
        atMost:
          count: 2
          validation:
            propertyConstraints:
              ex.r:
                pattern: "^a"
`,
	// two and three quantified constraints on ONE property, several lists with several values
	`profile: P4
prefixes:
  ex: http://example.org/
violation:
  - v1
validations:
  v1:
    targetClass: ex.C
    propertyConstraints:
      ex.a:
        atLeast:
          count: 1
          validation:
            propertyConstraints:
              ex.p:
                in: [a, b, c]
        atMost:
          count: 2
          validation:
            propertyConstraints:
              ex.p:
                containsSome: [x, y]
      ex.b:
        exactly:
          count: 1
          validation:
            propertyConstraints:
              ex.q:
                minCount: 1
        atMost:
          count: 3
          validation:
            propertyConstraints:
              ex.q:
                maxCount: 1
        nested:
          propertyConstraints:
            ex.r:
              containsAll: [u, v]
            ex.s:
              lessThanProperty: ex.t
              equalsToProperty: ex.u
`,
	// several facets on one property, two properties, under or/and/not
	`profile: P2
violation:
  - v1
  - v2
warning:
  - w1
validations:
  v1:
    targetClass: apiContract.EndPoint
    or:
      - propertyConstraints:
          apiContract.path:
            minCount: 1
            pattern: "^/"
          core.name:
            maxLength: 3
            in: [a, b]
      - not:
          propertyConstraints:
            core.description:
              minCount: 1
            core.name:
              minCount: 1
  v2:
    targetClass: apiContract.Operation
    if:
      propertyConstraints:
        apiContract.method:
          in: [get]
    then:
      propertyConstraints:
        apiContract.returns:
          minCount: 1
        apiContract.expects:
          maxCount: 0
  w1:
    targetClass: apiContract.WebAPI
    propertyConstraints:
      core.name:
        minLength: 1
`,
	// nested inside nested, two quantified siblings at each level
	`profile: P3
info:
  - i1
validations:
  i1:
    targetClass: apiContract.WebAPI
    propertyConstraints:
      apiContract.endpoint:
        nested:
          propertyConstraints:
            apiContract.supportedOperation:
              nested:
                propertyConstraints:
                  apiContract.method:
                    minCount: 1
            apiContract.server:
              atLeast:
                count: 1
                validation:
                  propertyConstraints:
                    core.urlTemplate:
                      minCount: 1
      apiContract.server:
        nested:
          propertyConstraints:
            core.urlTemplate:
              minCount: 1
`,
}

// VerifC06Generate: the generated code is the same for every Go map iteration order
// (run 1 iterates maps in a canonical order, run 2 in an arbitrary one).
func VerifC06Generate() {
	text := verifC06Profiles[v.Choice("profile", len(verifC06Profiles))]
	profile.GenReset()
	u1, e1 := GenerateRego(text, false, nil)
	v.MapOrder(true)
	profile.GenReset()
	u2, e2 := GenerateRego(text, false, nil)
	v.MapOrder(false)
	v.Reach("generated-twice")
	v.Assert("C06.code-equal.error", (e1 == nil) == (e2 == nil))
	if e1 == nil && e2 == nil {
		v.Assert("C06.code-equal", u1.Code == u2.Code)
		v.Assert("C06.name-equal", u1.Name == u2.Name && u1.Entrypoint == u2.Entrypoint)
	}
}

func verifTraceResult(i int) types.ObjectMap {
	sub := types.ObjectMap{"@type": []any{"reportSchema:ValidationResultNode"}, "focusNode": "n2", "trace": []any{
		types.ObjectMap{"@type": []any{"reportSchema:TraceMessageNode"}, "component": "minCount", "traceValue": types.ObjectMap{"@type": []any{"reportSchema:TraceValueNode"}, "actual": 0}},
	}}
	return types.ObjectMap{
		"@type":           []any{"reportSchema:ValidationResultNode", "shacl:ValidationResult"},
		"sourceShapeName": "v1",
		"focusNode":       "n1",
		"resultMessage":   "m",
		"location":        types.ObjectMap{"@type": []any{"lexicalSchema:LocationNode"}, "uri": "u", "range": types.ObjectMap{"@type": []any{"lexicalSchema:RangeNode"}, "start": types.ObjectMap{"@type": []any{"lexicalSchema:PositionNode"}, "line": 1, "column": 2}}},
		"trace": []any{
			types.ObjectMap{"@type": []any{"reportSchema:TraceMessageNode"}, "component": "nested", "resultPath": "p",
				"traceValue": types.ObjectMap{"@type": []any{"reportSchema:TraceValueNode"}, "subResult": []any{sub}}},
			types.ObjectMap{"@type": []any{"reportSchema:TraceMessageNode"}, "component": "minCount", "resultPath": "q",
				"traceValue": types.ObjectMap{"@type": []any{"reportSchema:TraceValueNode"}, "actual": i}},
			// a data node quoted as actual value: several arrays of nodes below one node
			types.ObjectMap{"@type": []any{"reportSchema:TraceMessageNode"}, "component": "datatype", "resultPath": "r",
				"traceValue": types.ObjectMap{"@type": []any{"reportSchema:TraceValueNode"}, "actual": verifQuotedNode()}},
			types.ObjectMap{"@type": []any{"reportSchema:TraceMessageNode"}, "component": "pattern", "resultPath": "s",
				"traceValue": types.ObjectMap{"@type": []any{"reportSchema:TraceValueNode"}, "actual": verifQuotedMixedNode(1, 0)}},
		},
	}
}

// VerifC06Report: the report text is the same for every map iteration order.
func VerifC06Report() {
	n := 1 + v.Choice("results", 2)
	mk := func() string {
		var vs []any
		for i := 0; i < n; i++ {
			vs = append(vs, verifTraceResult(i))
		}
		rs := verifResultSetOf("p", vs, []any{verifTraceResult(7)}, []any{})
		text, err := BuildReport(&rs, c.TestValidationConfiguration{}, c.DefaultReportConfiguration())
		v.Assert("C06.report.no-error", err == nil)
		return text
	}
	t1 := mk()
	v.MapOrder(true)
	t2 := mk()
	v.MapOrder(false)
	v.Reach("built-twice")
	v.Assert("C06.report-equal", t1 == t2)
}

// VerifC06GenerateNative: natively the map order is whatever the runtime picks, so the
// replay generates repeatedly and compares with the first output.
func VerifC06GenerateNative() {
	text := verifC06Profiles[v.ReplayInt("profile")]
	profile.GenReset()
	u1, e1 := GenerateRego(text, false, nil)
	same := true
	for i := 0; i < 400 && same; i++ {
		profile.GenReset()
		u2, e2 := GenerateRego(text, false, nil)
		if (e1 == nil) != (e2 == nil) || (e1 == nil && u1.Code != u2.Code) {
			same = false
		}
	}
	v.Assert("C06.code-equal", same)
}

// verifC06Graph: a flattened graph whose index depends on the order in which the members of a
// class are visited if that order is not the document's: an element with lexical entries in two
// source maps (different ranges) and two source-information nodes (different root locations).
func verifC06Graph(twoMaps, twoInfos, owned bool) any {
	n1 := verifObj("@id", "http://x/n1", "@type", []any{"http://example.org/C", "http://example.org/D"})
	if owned {
		// n1 refers to its source maps (sources): both hold an entry for it
		maps := []any{verifObj("@id", "http://x/sm1")}
		if twoMaps {
			maps = append(maps, verifObj("@id", "http://x/sm2"))
		}
		n1[smNS+"sources"] = maps
	}
	nodes := []any{
		n1,
		verifObj("@id", "http://x/n2", "@type", "http://example.org/C"),
		verifObj("@id", "http://x/lexA", smNS+"element", "http://x/n1", smNS+"value", "[(1,1)-(2,2)]"),
		verifObj("@id", "http://x/lexB", smNS+"element", "http://x/n1", smNS+"value", "[(7,7)-(8,8)]"),
		verifObj("@id", "http://x/lexC", smNS+"element", "http://x/n2", smNS+"value", "[(3,3)-(4,4)]"),
		verifObj("@id", "http://x/sm1", "@type", smNS+"SourceMap", smNS+"lexical", []any{verifObj("@id", "http://x/lexA"), verifObj("@id", "http://x/lexC")}),
		verifObj("@id", "http://x/si1", "@type", docNS+"BaseUnitSourceInformation", docNS+"rootLocation", "file://root1"),
	}
	if twoMaps {
		nodes = append(nodes, verifObj("@id", "http://x/sm2", "@type", smNS+"SourceMap", smNS+"lexical", verifObj("@id", "http://x/lexB")))
	}
	if twoInfos {
		nodes = append(nodes, verifObj("@id", "http://x/si2", "@type", docNS+"BaseUnitSourceInformation", docNS+"rootLocation", "file://root2"))
	}
	return verifObj("@graph", nodes)
}

// VerifC06Index: the input index (what the policy sees of the data) is the same for every map
// iteration order.
func VerifC06Index() {
	twoMaps, twoInfos, owned := v.Choice("twoSourceMaps", 2) == 1, v.Choice("twoSourceInfos", 2) == 1, v.Choice("mapsOwned", 2) == 1
	i1 := Encode(Index(verifC06Graph(twoMaps, twoInfos, owned)))
	v.MapOrder(true)
	i2 := Encode(Index(verifC06Graph(twoMaps, twoInfos, owned)))
	v.MapOrder(false)
	v.Reach("indexed-twice")
	v.Assert("C06.index-equal", i1 == i2)
}

// VerifC06IndexNative: natively the order is the runtime's choice: index repeatedly and compare.
func VerifC06IndexNative() {
	twoMaps, twoInfos, owned := v.ReplayInt("twoSourceMaps") == 1, v.ReplayInt("twoSourceInfos") == 1, v.ReplayInt("mapsOwned") == 1
	first := Encode(Index(verifC06Graph(twoMaps, twoInfos, owned)))
	same := true
	for i := 0; i < 2000 && same; i++ {
		same = Encode(Index(verifC06Graph(twoMaps, twoInfos, owned))) == first
	}
	v.Assert("C06.index-equal", same)
}
