//go:build verif

package validator

import (
	"github.com/aml-org/amf-custom-validator/internal/parser"
	"github.com/aml-org/amf-custom-validator/internal/parser/profile"
	v "github.com/aml-org/amf-custom-validator/internal/zzverif"
)

// VerifC12Messages: every validation of a parsed profile has a non-empty message, however the
// message key is written - absent, null, an empty scalar in each of its spellings, blank, or a text.
// (The message of a result is this text with its placeholders replaced.)
func VerifC12Messages() {
	forms := []string{"", "    message: \"\"\n", "    message: ''\n", "    message:\n", "    message: ~\n", "    message: null\n",
		"    message: \" \"\n", "    message: m\n", "    message: 0\n", "    message: false\n", "    message: |\n\n", "    message: >-\n\n"}
	bodies := []string{"    propertyConstraints:\n      ex.p:\n        minCount: 1\n", "    not:\n      propertyConstraints:\n        ex.p:\n          minCount: 1\n",
		"    or:\n      - propertyConstraints:\n          ex.p:\n            minCount: 1\n      - propertyConstraints:\n          ex.q:\n            minCount: 1\n"}
	form := forms[v.Choice("message", len(forms))]
	body := bodies[v.Choice("body", len(bodies))]
	level := []string{"violation", "warning", "info"}[v.Choice("level", 3)]
	text := "#%Validation Profile 1.0\nprofile: P\nprefixes:\n  ex: http://example.org/\n" + level + ":\n  - v1\nvalidations:\n  v1:\n" + form + "    targetClass: ex.C\n" + body
	prof, err := parser.Parse(text)
	v.Assert("C12.profile-accepted", err == nil && prof != nil)
	if err != nil || prof == nil {
		return
	}
	v.Reach("parsed")
	all := append(append(append([]profile.Rule{}, prof.Violation...), prof.Warning...), prof.Info...)
	v.Assert("C12.one-validation", len(all) == 1)
	for _, r := range all {
		e, ok := r.(profile.TopLevelExpression)
		v.Assert("C12.message-non-empty", ok && e.Message.Expression != "")
	}
}
