//go:build verif

package validator

import (
	"strings"

	"github.com/aml-org/amf-custom-validator/internal/generator"
	"github.com/aml-org/amf-custom-validator/internal/parser/path"
	"github.com/aml-org/amf-custom-validator/internal/parser/profile"
	v "github.com/aml-org/amf-custom-validator/internal/zzverif"
	c "github.com/aml-org/amf-custom-validator/pkg/config"
)

var verifDangerous = []string{"http.send", "net.lookup_ip_addr", "opa.runtime", "rego.parse_module", "walk"}

func verifGateOK(i int) bool {
	// only the three options the gate is made of: anything else (a caller-supplied compiler,
	// capabilities, a store, …) may take the deny-list out of the loop
	kinds, _ := v.RegoNewOption(i, "kinds").([]string)
	for _, k := range kinds {
		if k != "query" && k != "module" && k != "unsafe" {
			v.Note("extra-option", k)
			return false
		}
	}
	names, ok := v.RegoNewOption(i, "unsafe").([]string)
	if !ok {
		return false
	}
	for _, d := range verifDangerous {
		found := false
		for _, n := range names {
			if n == d {
				found = true
			}
		}
		if !found {
			v.Note("missing", d)
			return false
		}
	}
	return true
}

// VerifC08Gate: every compilation goes through rego.New with the deny-list, and the
// deny-list names every built-in the property lists.
func VerifC08Gate() {
	ep := v.Choice("entry", 3)
	debug := v.Choice("debug", 2) == 1
	v.Scope("v")
	switch ep {
	case 0:
		ProcessProfile(verifProfile, debug, nil)
	case 1:
		Validate(verifProfile, "<<data>>", debug, nil)
	default:
		ValidateWithConfiguration(verifProfile, "<<data>>", debug, nil, c.TestValidationConfiguration{}, c.DefaultReportConfiguration())
	}
	v.Reach("compiled")
	n := v.RegoNewCount()
	v.Assert("C08.gate-used", n == 1)
	for i := 0; i < n; i++ {
		v.Assert("C08.denylist-complete", verifGateOK(i))
	}
	for _, d := range verifDangerous {
		_, listed := unsafeBuiltinsMap[d]
		v.Assert("C08.denylist-complete", listed)
	}
}

func verifRegoRule(code string, withPath bool, message string) profile.Rule {
	var p path.PropertyPath = path.NullPath{}
	if withPath {
		pp, err := path.ParsePath("ex.p")
		if err != nil {
			panic(err)
		}
		p = pp
	}
	return profile.RegoRule{
		AtomicStatement: profile.AtomicStatement{BaseStatement: profile.BaseStatement{Name: "rego"}, Variable: profile.Variable{Name: "x"}, Path: p},
		Message:         message, Argument: code,
	}
}

// VerifC08Splice: embedded Rego of arbitrary content reaches the module handed to
// the gate verbatim, from every embedding position of the profile language.
func VerifC08Splice() {
	n := 1 + v.Choice("len", 3)
	code := v.Bytes("code", n)
	for i := 0; i < n; i++ {
		v.Assume(code[i] != '$' && code[i] != '\n' && code[i] < 0x80)
	}
	pos := v.Choice("position", 8)
	prof := profile.NewProfile()
	prof.Name = "t"
	prof.Prefixes = profile.ProfileContext{"ex": "http://example.org/"}
	x := profile.Variable{Name: "x"}
	var value profile.Rule
	pc, _ := path.ParsePath("ex.q")
	atom := profile.VerifMinCount(x, pc, 1)
	switch pos {
	case 0: // rego / regoModule at the top of a validation
		value = verifRegoRule(code, false, "Violation in native Rego constraint")
	case 1: // {code, message}
		value = verifRegoRule(code, false, "custom")
	case 2: // under a property path
		value = profile.NewAnd(false, []profile.Rule{verifRegoRule(code, true, "m")})
	case 3: // rego_extensions
		prof.CustomRego = &code
		value = profile.NewAnd(false, []profile.Rule{atom})
	case 4: // inside nested
		g := profile.VerifVarGeneratorAt(1)
		value = profile.NewAnd(false, []profile.Rule{profile.VerifNewNested(false, x, pc, &g, func(child profile.Variable) profile.Rule {
			r := verifRegoRule(code, false, "m").(profile.RegoRule)
			r.Variable = child
			return profile.NewAnd(false, []profile.Rule{r})
		})})
	case 5: // under not
		value = verifRegoRule(code, false, "m").Negate()
	case 6: // operand of or
		value = profile.NewOr(false, []profile.Rule{atom, verifRegoRule(code, false, "m")})
	default: // condition of if/then
		value = profile.NewConditional(false, verifRegoRule(code, false, "m"), atom)
	}
	prof.Violation = []profile.Rule{profile.TopLevelExpression{
		Expression:     profile.Expression{BaseStatement: profile.BaseStatement{Name: "v1"}, Variable: &x, Value: value},
		Message:        profile.Message{Expression: "m"},
		Level:          "violation",
		ClassGenerator: "ex.C",
	}}
	unit := generator.Generate(prof)
	v.Reach("spliced")
	v.Assert("C08.verbatim", strings.Contains(unit.Code, code))
	v.Scope("v")
	CompileRego(&unit, nil)
	v.Assert("C08.gate-used", v.RegoNewCount() == 1)
	v.Assert("C08.module-is-code", v.RegoNewOption(0, "module.code") == unit.Code)
	v.Assert("C08.denylist-complete", verifGateOK(0))
}

// VerifC08GateNative: the observable consequence of a gate that is not (only) the deny-list —
// a profile calling a listed built-in is accepted through the recorded entry point / debug flag.
func VerifC08GateNative() {
	ep, debug := v.ReplayInt("entry"), v.ReplayInt("debug") == 1
	calls := []string{`http.send({"method": "get", "url": "http://localhost:1"})`, `net.lookup_ip_addr("localhost")`, `opa.runtime()`, `rego.parse_module("x.rego", "package x")`}
	for _, call := range calls {
		prof := "#%Validation Profile 1.0\nprofile: T\nviolation:\n  - v1\nvalidations:\n  v1:\n    message: m\n    targetClass: apiContract.WebAPI\n    rego: |\n      out := " + call + "\n      $result = true\n"
		var err error
		switch ep {
		case 0:
			_, err = ProcessProfile(prof, debug, nil)
		case 1:
			_, err = Validate(prof, `{"@id": "http://x/a", "@type": "http://a.ml/vocabularies/apiContract#WebAPI"}`, debug, nil)
		default:
			_, err = ValidateWithConfiguration(prof, `{"@id": "http://x/a", "@type": "http://a.ml/vocabularies/apiContract#WebAPI"}`, debug, nil, c.TestValidationConfiguration{}, c.DefaultReportConfiguration())
		}
		v.Assert("C08.denylist-complete", err != nil)
	}
}
