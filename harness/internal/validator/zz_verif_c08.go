//go:build verif

package validator

import (
	v "github.com/aml-org/amf-custom-validator/internal/zzverif"
	c "github.com/aml-org/amf-custom-validator/pkg/config"
)

var verifDangerous = []string{"http.send", "net.lookup_ip_addr", "opa.runtime", "rego.parse_module", "walk"}

func verifGateOK(i int) bool {
	// only the three options the gate is made of: anything else (a caller-supplied compiler,
	// capabilities, a store, …) may take the deny-list out of the loop
	kinds, _ := v.RegoNewOption(i, "kinds").([]string)
	for _, k := range kinds {
		if k != "query" && k != "module" && k != "unsafe" {
			v.Note("extra-option", k)
			return false
		}
	}
	names, ok := v.RegoNewOption(i, "unsafe").([]string)
	if !ok {
		return false
	}
	for _, d := range verifDangerous {
		found := false
		for _, n := range names {
			if n == d {
				found = true
			}
		}
		if !found {
			v.Note("missing", d)
			return false
		}
	}
	return true
}

// VerifC08Gate: every compilation goes through rego.New with the deny-list, and the
// deny-list names every built-in the property lists.
func VerifC08Gate() {
	ep := v.Choice("entry", 3)
	debug := v.Choice("debug", 2) == 1
	v.Scope("v")
	switch ep {
	case 0:
		ProcessProfile(verifProfile, debug, nil)
	case 1:
		Validate(verifProfile, "<<data>>", debug, nil)
	default:
		ValidateWithConfiguration(verifProfile, "<<data>>", debug, nil, c.TestValidationConfiguration{}, c.DefaultReportConfiguration())
	}
	v.Reach("compiled")
	n := v.RegoNewCount()
	v.Assert("C08.gate-used", n == 1)
	for i := 0; i < n; i++ {
		v.Assert("C08.denylist-complete", verifGateOK(i))
	}
	for _, d := range verifDangerous {
		_, listed := unsafeBuiltinsMap[d]
		v.Assert("C08.denylist-complete", listed)
	}
}

// VerifC08GateNative: the observable consequence of a gate that is not (only) the deny-list —
// a profile calling a listed built-in is accepted through the recorded entry point / debug flag.
func VerifC08GateNative() {
	ep, debug := v.ReplayInt("entry"), v.ReplayInt("debug") == 1
	calls := []string{`http.send({"method": "get", "url": "http://localhost:1"})`, `net.lookup_ip_addr("localhost")`, `opa.runtime()`, `rego.parse_module("x.rego", "package x")`}
	for _, call := range calls {
		prof := "#%Validation Profile 1.0\nprofile: T\nviolation:\n  - v1\nvalidations:\n  v1:\n    message: m\n    targetClass: apiContract.WebAPI\n    rego: |\n      out := " + call + "\n      $result = true\n"
		var err error
		switch ep {
		case 0:
			_, err = ProcessProfile(prof, debug, nil)
		case 1:
			_, err = Validate(prof, `{"@id": "http://x/a", "@type": "http://a.ml/vocabularies/apiContract#WebAPI"}`, debug, nil)
		default:
			_, err = ValidateWithConfiguration(prof, `{"@id": "http://x/a", "@type": "http://a.ml/vocabularies/apiContract#WebAPI"}`, debug, nil, c.TestValidationConfiguration{}, c.DefaultReportConfiguration())
		}
		v.Assert("C08.denylist-complete", err != nil)
	}
}
