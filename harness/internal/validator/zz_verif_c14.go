//go:build verif

package validator

import (
	"fmt"

	"github.com/aml-org/amf-custom-validator/internal/types"
	v "github.com/aml-org/amf-custom-validator/internal/zzverif"
)

// VerifC14Index: the lexical index has an entry exactly for the nodes some lexical entry
// names, with that entry's range and the file the node was declared in.
func VerifC14Index() {
	ids := []string{"http://x/n1", "http://x/n2", "http://x/n3"}
	elements := append(append([]string{}, ids...), "http://example.org/someProperty")
	var nodes []any
	for _, id := range ids {
		nodes = append(nodes, verifObj("@id", id, "@type", "http://example.org/C"))
	}
	maxEntries := 4
	if v.Deep() {
		maxEntries = 5 // thorough tier: 0..4 lexical entries
	}
	nEntries := v.Choice("entries", maxEntries)
	var links []any
	elemOf := make([]int, nEntries)
	for e := 0; e < nEntries; e++ {
		elemOf[e] = v.Choice(fmt.Sprintf("element%d", e), len(elements))
		lid := fmt.Sprintf("http://x/lex%d", e)
		nodes = append(nodes, verifObj("@id", lid, smNS+"element", elements[elemOf[e]], smNS+"value", fmt.Sprintf("[(%d,1)-(%d,9)]", e+1, e+1)))
		links = append(links, verifObj("@id", lid))
	}
	// the source map and the source-information node may carry a second type: @type is then a list
	metaTypeList := v.Choice("metaTypesAsList", 2) == 1
	metaType := func(t string) any {
		if metaTypeList {
			return []any{"http://example.org/Extra", t}
		}
		return t
	}
	sm := verifObj("@id", "http://x/sm", "@type", metaType(smNS+"SourceMap"))
	switch {
	case nEntries == 1 && v.Choice("single", 2) == 0:
		sm[smNS+"lexical"] = links[0]
	case nEntries > 0:
		sm[smNS+"lexical"] = links
	}
	nodes = append(nodes, sm)
	hasInfo := v.Choice("sourceInfo", 2) == 1
	nLoc := 0
	inLoc := [2][3]bool{}
	if hasInfo {
		nLoc = v.Choice("locations", 3)
		var locLinks []any
		for l := 0; l < nLoc; l++ {
			var elems []any
			for n := 0; n < 3; n++ {
				if v.Choice(fmt.Sprintf("loc%d_has_n%d", l, n), 2) == 1 {
					inLoc[l][n] = true
					elems = append(elems, verifObj("@id", ids[n]))
				}
			}
			lid := fmt.Sprintf("http://x/loc%d", l)
			loc := verifObj("@id", lid, docNS+"location", fmt.Sprintf("file://f%d", l))
			if len(elems) == 1 {
				loc[docNS+"elements"] = elems[0]
			} else if len(elems) > 1 {
				loc[docNS+"elements"] = elems
			}
			nodes = append(nodes, loc)
			locLinks = append(locLinks, verifObj("@id", lid))
		}
		si := verifObj("@id", "http://x/si", "@type", metaType(docNS+"BaseUnitSourceInformation"), docNS+"rootLocation", "file://root")
		if len(locLinks) == 1 {
			si[docNS+"additionalLocations"] = locLinks[0]
		} else if len(locLinks) > 1 {
			si[docNS+"additionalLocations"] = locLinks
		}
		nodes = append(nodes, si)
	}
	index := Index(verifObj("@graph", nodes)).(types.ObjectMap)
	v.Reach("indexed")
	lexical := index["@lexical"].(types.ObjectMap)
	for n, id := range ids {
		// the last entry naming the node wins (they are processed in order)
		want := -1
		for e := 0; e < nEntries; e++ {
			if elemOf[e] == n {
				want = e
			}
		}
		entry, has := lexical[id].(types.ObjectMap)
		v.Assert("C14.entry-iff-element", has == (want >= 0))
		if has && want >= 0 {
			v.Assert("C14.range", entry["range"] == fmt.Sprintf("[(%d,1)-(%d,9)]", want+1, want+1))
			uri := ""
			if hasInfo {
				uri = "file://root"
				for l := 0; l < nLoc; l++ {
					if inLoc[l][n] {
						uri = fmt.Sprintf("file://f%d", l)
					}
				}
			}
			v.Assert("C14.uri", entry["uri"] == uri)
		}
	}
	_, propIndexed := lexical["http://example.org/someProperty"]
	v.Assert("C14.property-entries-ignored", !propIndexed)
	v.Assert("C14.only-nodes-indexed", len(lexical) <= 3)
	idsIdx := index["@ids"].(types.ObjectMap)
	for _, id := range ids {
		_, ok := idsIdx[id]
		v.Assert("C14.ids-index", ok)
	}
}

// VerifC14OwnedMaps: source maps that belong to nodes (linked through sources). The map of a node
// holds the node's own entry and entries of its properties, keyed by the property IRI - which can be
// the id of another node (the use of a custom domain property is a property named after its
// declaration node). Such an entry is not a location of that other node: a node's range is the one
// recorded in its own map, and a node with property-level mentions only has no location.
func VerifC14OwnedMaps() {
	decl, user := "http://x/decl", "http://x/user"
	declHasOwnEntry := v.Bool("declHasOwnEntry")
	declHasMap := declHasOwnEntry || v.Bool("declHasEmptyMap")
	userFirst := v.Bool("userMapFirst")
	single := v.Bool("sourcesAsObject")
	link := func(id string) any {
		if single {
			return verifObj("@id", id)
		}
		return []any{verifObj("@id", id)}
	}
	declNode := verifObj("@id", decl, "@type", "http://example.org/C")
	userNode := verifObj("@id", user, "@type", "http://example.org/C", decl, verifObj("@id", "http://x/value"), smNS+"sources", link("http://x/sm-user"))
	var declMap []any
	if declHasMap {
		declNode[smNS+"sources"] = link("http://x/sm-decl")
		sm := verifObj("@id", "http://x/sm-decl", "@type", smNS+"SourceMap")
		if declHasOwnEntry {
			sm[smNS+"lexical"] = []any{verifObj("@id", "http://x/lex-decl")}
			declMap = append(declMap, verifObj("@id", "http://x/lex-decl", smNS+"element", decl, smNS+"value", "[(3,2)-(5,0)]"))
		}
		declMap = append(declMap, sm)
	}
	userMap := []any{
		verifObj("@id", "http://x/lex-user", smNS+"element", user, smNS+"value", "[(7,0)-(30,0)]"),
		verifObj("@id", "http://x/lex-use-of-decl", smNS+"element", decl, smNS+"value", "[(20,0)-(20,18)]"),
		verifObj("@id", "http://x/sm-user", "@type", smNS+"SourceMap", smNS+"lexical", []any{verifObj("@id", "http://x/lex-user"), verifObj("@id", "http://x/lex-use-of-decl")}),
	}
	// the order of the graph is not fixed by anything: the maps can come before the nodes that own them
	// (ids sort that way when a map is not named after its owner)
	owners := []any{declNode, userNode, verifObj("@id", "http://x/value", "@type", "http://example.org/D")}
	var maps []any
	if userFirst {
		maps = append(append(maps, userMap...), declMap...)
	} else {
		maps = append(append(maps, declMap...), userMap...)
	}
	var nodes []any
	if v.Bool("mapsBeforeOwners") {
		nodes = append(append(nodes, maps...), owners...)
	} else {
		nodes = append(append(nodes, owners...), maps...)
	}
	lexical := Index(verifObj("@graph", nodes)).(types.ObjectMap)["@lexical"].(types.ObjectMap)
	v.Reach("indexed")
	userEntry, _ := lexical[user].(types.ObjectMap)
	v.Assert("C14.range", userEntry != nil && userEntry["range"] == "[(7,0)-(30,0)]")
	declEntry, has := lexical[decl].(types.ObjectMap)
	v.Assert("C14.entry-iff-element", has == declHasOwnEntry)
	if has && declHasOwnEntry {
		v.Assert("C14.range", declEntry["range"] == "[(3,2)-(5,0)]")
	}
}

// VerifC14RangeLayout: a lexical entry is indexed with its range text verbatim whatever the
// textual layout of the four numbers is (the policy reads them with a digit scan, so blanks,
// missing brackets, leading zeros and trailing text all still carry a location).
func VerifC14RangeLayout() {
	layouts := []string{
		"[(3,2)-(5,10)]", "[(3, 2)-(5, 10)]", "[(3,2) - (5,10)]", "(3,2)-(5,10)", "3,2-5,10",
		"[(03,02)-(05,010)]", "[(3,2)-(5,10)] ", " [(3,2)-(5,10)]", "[(3,2)-(5,10)]#frag",
		"[(123456,0)-(123457,99999)]", "[(0,0)-(0,0)]", "3 2 5 10",
		"[(2147483648,0)-(2147483649,9)]", "[(3,4)-(5,123456789012)]", "[(18446744073709551616,1)-(340282366920938463463374607431768211456,2)]",
	}
	text := layouts[v.Choice("layout", len(layouts))]
	id := "http://x/n1"
	nodes := []any{
		verifObj("@id", id, "@type", "http://example.org/C"),
		verifObj("@id", "http://x/lex0", smNS+"element", id, smNS+"value", text),
	}
	sm := verifObj("@id", "http://x/sm", "@type", smNS+"SourceMap")
	if v.Choice("single", 2) == 0 {
		sm[smNS+"lexical"] = verifObj("@id", "http://x/lex0")
	} else {
		sm[smNS+"lexical"] = []any{verifObj("@id", "http://x/lex0")}
	}
	nodes = append(nodes, sm)
	hasInfo := v.Choice("sourceInfo", 2) == 1
	if hasInfo {
		nodes = append(nodes, verifObj("@id", "http://x/si", "@type", docNS+"BaseUnitSourceInformation", docNS+"rootLocation", "file://root"))
	}
	index := Index(verifObj("@graph", nodes)).(types.ObjectMap)
	v.Reach("indexed")
	entry, has := index["@lexical"].(types.ObjectMap)[id].(types.ObjectMap)
	v.Assert("C14.layout-entry-present", has)
	if has {
		v.Assert("C14.layout-range-verbatim", entry["range"] == text)
		want := ""
		if hasInfo {
			want = "file://root"
		}
		v.Assert("C14.layout-uri", entry["uri"] == want)
	}
}
