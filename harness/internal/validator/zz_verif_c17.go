//go:build verif

package validator

import (
	"encoding/json"
	"fmt"
	"strings"

	"github.com/aml-org/amf-custom-validator/internal/types"
	v "github.com/aml-org/amf-custom-validator/internal/zzverif"
	c "github.com/aml-org/amf-custom-validator/pkg/config"
)

const verifBaseProfile = `#%Validation Profile 1.0
profile: Base
description: d
prefixes:
  ex: http://example.org/
violation:
  - v1
  - v2
warning:
  - w1
info:
  - i1
validations:
  v1:
    message: "m {{ex.p}}"
    targetClass: ex.C
    propertyConstraints:
      ex.p:
        minCount: 1
        pattern: "^a"
        in: [a, 1, true]
      ex.q / ex.r:
        maxLength: 3
        nested:
          propertyConstraints:
            ex.s:
              minInclusive: 1
  v2:
    targetClass: ex.D
    or:
      - propertyConstraints:
          ex.p:
            lessThanProperty: ex.q
      - not:
          propertyConstraints:
            ex.p:
              datatype: xsd.string
  w1:
    targetClass: ex.C
    if:
      propertyConstraints:
        ex.p:
          containsAll: [a]
    then:
      propertyConstraints:
        ex.q:
          atLeast:
            count: 1
            validation:
              propertyConstraints:
                ex.t:
                  uniqueValues: true
    else:
      and:
        - propertyConstraints:
            ex.u:
              exactCount: 2
  i1:
    targetClass: ex.C
    rego: |
      $result = true
`

var verifReplacements = []string{"", "[]", "{}", "42", "true", "\"x y\"", "unknown.Thing", "[a, [b]]", "{a: 1}", "~"}

// verifMutate applies one structured mutation to the base profile.
func verifMutate(line, op int) string {
	lines := strings.Split(verifBaseProfile, "\n")
	if op == len(verifReplacements) { // delete the line
		return strings.Join(append(append([]string{}, lines[:line]...), lines[line+1:]...), "\n")
	}
	l := lines[line]
	i := strings.Index(l, ":")
	if strings.HasPrefix(strings.TrimSpace(l), "- ") {
		i = strings.Index(l, "- ") + 1
	}
	if i < 0 {
		i = len(l)
	} else {
		i++
	}
	lines[line] = l[:i] + " " + verifReplacements[op]
	return strings.Join(lines, "\n")
}

func verifGuardPanic(f func()) (panicked bool, where string) {
	defer func() {
		if r := recover(); r != nil {
			panicked = true
			where = v.PanicSite()
			_ = fmt.Sprint(r)
		}
	}()
	f()
	return
}

// VerifC17Profile: structured mutations of a feature-complete profile (one position x one
// replacement), plus degenerate documents, through parse -> generate -> compile(stub).
func VerifC17Profile() {
	nLines := len(strings.Split(verifBaseProfile, "\n")) - 1
	var text string
	if v.Choice("degenerate", 2) == 1 {
		docs := []string{"", "42", "[]", "a: [", "profile: 1", "profile: x", "profile: x\nvalidations: {}", "- a\n- b", "\"str\"", "profile: x\nvalidations: {}\nviolation: [a]",
			"profile: x\nviolation: [v]\nvalidations:\n  v:\n    targetClass: ex.C\n    and: []\n", "profile: x\nviolation: [v]\nvalidations:\n  v:\n    targetClass: apiContract.X\n    or: []\n",
			"profile: x\nviolation: [v]\nvalidations:\n  v:\n    targetClass: apiContract.X\n    not: {}\n", "profile: x\nviolation: [v]\nvalidations:\n  v:\n    targetClass: apiContract.X\n    propertyConstraints: {}\n",
			"profile: x\nviolation: [v]\nvalidations:\n  v:\n    targetClass: apiContract.X\n    propertyConstraints:\n      core.name: {}\n",
			// YAML anchors and aliases, also an alias to a node that contains it (a cyclic document)
			"profile: x\nviolation: [v]\nvalidations:\n  v: &self\n    targetClass: apiContract.X\n    not: *self\n",
			"profile: x\nviolation: [v]\nvalidations:\n  v:\n    targetClass: apiContract.X\n    and: &conj\n      - and: *conj\n",
			"profile: x\nviolation: [v]\nvalidations:\n  v: &self\n    targetClass: apiContract.X\n    propertyConstraints:\n      core.name:\n        nested: *self\n",
			"profile: x\nviolation: [v, w]\nvalidations:\n  v: &one\n    targetClass: apiContract.X\n    propertyConstraints:\n      core.name:\n        minCount: 1\n  w: *one\n",
			"profile: &n x\nviolation: [*n]\nvalidations:\n  *n :\n    targetClass: apiContract.X\n    propertyConstraints: &pc\n      core.name: {minCount: 1}\n    or:\n      - propertyConstraints: *pc\n",
			// long texts, ASCII and not, in places whose content is quoted by error and panic messages (a class
			// that is not in compact form, an unknown prefix, a path that does not parse, a pattern that does not compile)
			"profile: x\nviolation: [v]\nvalidations:\n  v:\n    targetClass: \"http://example.org/ns#" + strings.Repeat("日", 100) + "\"\n    propertyConstraints:\n      core.name: {minCount: 1}\n",
			"profile: x\nviolation: [v]\nvalidations:\n  v:\n    targetClass: " + strings.Repeat("é", 90) + "." + strings.Repeat("x", 300) + "\n    propertyConstraints:\n      core.name: {minCount: 1}\n",
			"profile: x\nviolation: [v]\nvalidations:\n  v:\n    targetClass: apiContract.X\n    propertyConstraints:\n      \"core.name / (" + strings.Repeat("ж", 200) + "\": {minCount: 1}\n",
			"profile: x\nviolation: [v]\nvalidations:\n  v:\n    targetClass: apiContract.X\n    propertyConstraints:\n      " + strings.Repeat("q", 400) + ".name: {minCount: 1}\n",
			"profile: " + strings.Repeat("名", 120) + "\nviolation: [" + strings.Repeat("v", 300) + "]\nvalidations:\n  " + strings.Repeat("v", 300) + ":\n    message: " + strings.Repeat("ü", 200) + "\n    targetClass: apiContract.X\n    propertyConstraints:\n      core.name: {pattern: \"(" + strings.Repeat("я", 150) + "\"}\n"}
		text = docs[v.Choice("doc", len(docs))]
	} else {
		text = verifMutate(v.Choice("line", nLines), v.Choice("op", len(verifReplacements)+1))
	}
	v.Faults(false)
	panicked, where := verifGuardPanic(func() {
		ProcessProfile(text, false, nil)
	})
	v.Reach("returned")
	v.Assert("C17.no-panic@"+where, !panicked)
}

func verifObj(kv ...any) types.ObjectMap {
	m := types.ObjectMap{}
	for i := 0; i+1 < len(kv); i += 2 {
		m[kv[i].(string)] = kv[i+1]
	}
	return m
}

const (
	smNS  = "http://a.ml/vocabularies/document-source-maps#"
	docNS = "http://a.ml/vocabularies/document#"
)

// verifGraph builds a JSON-LD flatten result of nondeterministic shape within the
// documented contract of the processor (see the Flatten stub).
func verifGraph() any {
	if v.Choice("top", 3) == 0 {
		return []any{} // a valid document without nodes flattens to an empty list
	}
	var nodes []any
	n1 := verifObj("@id", "n1")
	switch v.Choice("type", 4) {
	case 1:
		n1["@type"] = "http://example.org/C"
	case 2:
		n1["@type"] = []any{"http://example.org/C", "http://example.org/D"}
	case 3:
		n1["@type"] = []any{}
	}
	nodes = append(nodes, n1)
	focus := v.Choice("focus", 2) // which part of the graph varies on this path
	smChoice := 1
	if focus == 0 {
		smChoice = v.Choice("sourcemap", 2)
	}
	switch smChoice {
	case 1:
		lex := verifObj("@id", "lex1")
		elem := 0
		if focus == 0 {
			elem = v.Choice("element", 4)
		}
		switch elem {
		case 0:
			lex[smNS+"element"] = "n1"
		case 1:
			lex[smNS+"element"] = "http://example.org/someProperty"
		case 2:
			lex[smNS+"element"] = verifObj("@id", "n1") // an IRI-valued element
		}
		if focus != 0 || v.Choice("value", 2) == 0 {
			lex[smNS+"value"] = "[(1,2)-(3,4)]"
		}
		sm := verifObj("@id", "sm1", "@type", smNS+"SourceMap")
		cont := 0
		if focus == 0 {
			cont = v.Choice("lexicalContainer", 4)
		}
		switch cont {
		case 0:
			sm[smNS+"lexical"] = verifObj("@id", "lex1")
		case 1:
			sm[smNS+"lexical"] = []any{verifObj("@id", "lex1"), verifObj("@id", "lex1")}
		case 2:
			sm[smNS+"lexical"] = verifObj("@id", "missing")
		}
		nodes = append(nodes, sm, lex)
	}
	siChoice := 0
	if focus == 1 {
		siChoice = 1
	} else {
		siChoice = v.Choice("sourceInfo", 2)
	}
	switch siChoice {
	case 1:
		si := verifObj("@id", "si1", "@type", docNS+"BaseUnitSourceInformation")
		if focus != 1 || v.Choice("rootLocation", 2) == 0 {
			si[docNS+"rootLocation"] = "file://root"
		}
		loc := verifObj("@id", "loc1")
		if focus != 1 || v.Choice("locationValue", 2) == 0 {
			loc[docNS+"location"] = "file://other"
		}
		el := 0
		if focus == 1 {
			el = v.Choice("elements", 3)
		}
		switch el {
		case 0:
			loc[docNS+"elements"] = verifObj("@id", "n1")
		case 1:
			loc[docNS+"elements"] = []any{verifObj("@id", "n1"), verifObj("@id", "n2")}
		}
		ad := 0
		if focus == 1 {
			ad = v.Choice("additional", 4)
		}
		switch ad {
		case 0:
			si[docNS+"additionalLocations"] = verifObj("@id", "loc1")
		case 1:
			si[docNS+"additionalLocations"] = []any{verifObj("@id", "loc1")}
		case 2:
			si[docNS+"additionalLocations"] = verifObj("@id", "missing")
		}
		nodes = append(nodes, si, loc)
	}
	return verifObj("@graph", nodes)
}

// VerifC17Data: every documented shape of a flattened graph goes through Index and on
// to the report without a panic; a document without nodes conforms.
func VerifC17Data() {
	g := verifGraph()
	v.SetFlattenResult(g)
	v.Faults(false)
	var report string
	var err error
	panicked, where := verifGuardPanic(func() {
		compiled, cerr := ProcessProfile(verifProfile, false, nil)
		if cerr != nil {
			return
		}
		report, err = ValidateCompiledWithConfiguration(compiled, "<<data>>", false, nil, c.TestValidationConfiguration{}, c.DefaultReportConfiguration())
	})
	v.Reach("returned")
	v.Assert("C17.no-panic@"+where, !panicked)
	if _, empty := g.([]any); empty && !panicked {
		v.Reach("empty-graph")
		v.Assert("C17.empty-graph-conforms", err == nil && strings.Contains(report, "\"conforms\": true"))
	}
}

// VerifC17EvalResult: result sets of unexpected shape do not make BuildReport panic.
func VerifC17EvalResult() {
	shape := v.Choice("shape", 6)
	var m any
	switch shape {
	case 0:
		m = types.ObjectMap{"profile": "p", "violation": []any{}, "warning": []any{}, "info": []any{}}
	case 1:
		m = types.ObjectMap{"profile": "p", "violation": []any{}, "warning": []any{}} // a level key undefined
	case 2:
		m = types.ObjectMap{"violation": []any{}, "warning": []any{}, "info": []any{}} // profile undefined
	case 3:
		m = types.ObjectMap{"profile": "p", "violation": []any{"not an object"}, "warning": []any{}, "info": []any{}}
	case 4:
		m = "not an object"
	default:
		m = types.ObjectMap{"profile": 1, "violation": []any{}, "warning": []any{}, "info": []any{}}
	}
	v.SetEvalResult(m)
	v.Faults(false)
	panicked, where := verifGuardPanic(func() {
		compiled, cerr := ProcessProfile(verifProfile, false, nil)
		if cerr != nil {
			return
		}
		ValidateCompiled(compiled, "<<data>>", false, nil)
	})
	v.Reach("returned")
	v.Assert("C17.no-panic@"+where, !panicked)
}

// VerifC17DataNative: the same graph shape as JSON-LD text through the real pipeline.
func VerifC17DataNative() {
	g := verifGraph()
	text, merr := json.Marshal(g)
	if merr != nil {
		panic(merr)
	}
	var report string
	var err error
	panicked, where := verifGuardPanic(func() {
		compiled, cerr := ProcessProfile(verifProfile, false, nil)
		if cerr != nil {
			return
		}
		report, err = ValidateCompiledWithConfiguration(compiled, string(text), false, nil, c.TestValidationConfiguration{}, c.DefaultReportConfiguration())
	})
	v.Assert("C17.no-panic@"+where, !panicked)
	if _, empty := g.([]any); empty && !panicked {
		v.Assert("C17.empty-graph-conforms", err == nil && strings.Contains(report, "\"conforms\": true"))
	}
}

// VerifC17EvalResultNative: an odd result shape provoked through rego_extensions.
func VerifC17EvalResultNative() {
	if v.ReplayInt("shape") != 3 {
		fmt.Println("VERIF_NOT_REPRODUCIBLE this result shape cannot be provoked from outside")
		return
	}
	prof := "#%Validation Profile 1.0\nprofile: T\nrego_extensions: |\n  violation[\"not an object\"] { true }\nviolation:\n  - v1\nvalidations:\n  v1:\n    message: m\n    targetClass: apiContract.EndPoint\n    propertyConstraints:\n      apiContract.path:\n        minCount: 1\n"
	data := `{"@id": "http://x/a", "@type": "http://a.ml/vocabularies/apiContract#EndPoint"}`
	panicked, where := verifGuardPanic(func() {
		Validate(prof, data, false, nil)
	})
	v.Assert("C17.no-panic@"+where, !panicked)
}
