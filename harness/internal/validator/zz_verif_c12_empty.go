//go:build verif

package validator

import (
	"strings"

	"github.com/aml-org/amf-custom-validator/internal/generator"
	"github.com/aml-org/amf-custom-validator/internal/parser"
	v "github.com/aml-org/amf-custom-validator/internal/zzverif"
)

var verifEmptyBodies = []string{"    or: []\n", "    not:\n      and: []\n", "    and: []\n", "    not:\n      or: []\n"}
var verifEmptyNames = []string{"or-empty", "not-and-empty", "and-empty", "not-or-empty"}

// verifEmptyOperands: the module generated for a validation whose body is an empty list of
// alternatives or an empty conjunction, plain or negated. The parser accepts all four.
func verifEmptyOperands() (code, level, name string, ok bool) {
	b := v.Choice("body", len(verifEmptyBodies))
	level = []string{"violation", "warning", "info"}[v.Choice("level", 3)]
	text := "#%Validation Profile 1.0\nprofile: P\nprefixes:\n  ex: http://example.org/\n" + level + ":\n  - v1\nvalidations:\n  v1:\n    message: m\n    targetClass: ex.C\n" + verifEmptyBodies[b]
	prof, err := parser.Parse(text)
	if err != nil || prof == nil {
		return "", level, verifEmptyNames[b], false // rejecting such a profile is fine
	}
	v.Reach("accepted")
	return generator.Generate(*prof).Code, level, verifEmptyNames[b], true
}

// VerifC12EmptyOperands: an always-failing validation reports every target node; the result
// constructor must be given a trace (an empty list literal is an empty trace).
func VerifC12EmptyOperands() {
	code, _, name, ok := verifEmptyOperands()
	if ok {
		emptyTrace := false
		for _, line := range strings.Split(code, "\n") {
			line = strings.TrimSpace(line)
			if strings.Contains(line, ":= error(") && (strings.HasSuffix(line, ",[])") || strings.HasSuffix(line, ", [])")) {
				emptyTrace = true
			}
		}
		v.Assert("C12.trace-non-empty:"+name, !emptyTrace)
	}
}

// VerifC07EmptyOperands: an always-holding validation generates no rule; its level must still be
// defined in the module (the report rules read all three levels, an undefined one does not compile).
func VerifC07EmptyOperands() {
	code, level, name, ok := verifEmptyOperands()
	if ok {
		v.Assert("C07.level-defined:"+name, strings.Contains(code, "\n"+level+"[matches] {") || strings.Contains(code, "default "+level+" = []"))
	}
}
