//go:build verif

package validator

import (
	"fmt"
	"strings"

	"github.com/aml-org/amf-custom-validator/internal/generator"
	"github.com/aml-org/amf-custom-validator/internal/parser/path"
	"github.com/aml-org/amf-custom-validator/internal/parser/profile"
	v "github.com/aml-org/amf-custom-validator/internal/zzverif"
)

// This file holds the harness that drives internal functions of the compilation stage directly
// (profile AST constructors, CompileRego): if their signatures change it stops type-checking and is
// left out by the loader, while the harnesses that go through the stable entry points still run.

func verifRegoRule(code string, withPath bool, message string) profile.Rule {
	var p path.PropertyPath = path.NullPath{}
	if withPath {
		pp, err := path.ParsePath("ex.p")
		if err != nil {
			panic(err)
		}
		p = pp
	}
	return profile.RegoRule{
		AtomicStatement: profile.AtomicStatement{BaseStatement: profile.BaseStatement{Name: "rego"}, Variable: profile.Variable{Name: "x"}, Path: p},
		Message:         message, Argument: code,
	}
}

// VerifC08Splice: embedded Rego of arbitrary content reaches the module handed to
// the gate verbatim, from every embedding position of the profile language.
func VerifC08Splice() {
	n := 1 + v.Choice("len", 3)
	code := v.Bytes("code", n)
	for i := 0; i < n; i++ {
		v.Assume(code[i] != '$' && code[i] != '\n' && code[i] < 0x80)
	}
	pos := v.Choice("position", 9)
	prof := profile.NewProfile()
	prof.Name = "t"
	prof.Prefixes = profile.ProfileContext{"ex": "http://example.org/"}
	x := profile.Variable{Name: "x"}
	var value profile.Rule
	pc, _ := path.ParsePath("ex.q")
	atom := profile.VerifMinCount(x, pc, 1)
	switch pos {
	case 0: // rego / regoModule at the top of a validation
		value = verifRegoRule(code, false, "Violation in native Rego constraint")
	case 1: // {code, message}
		value = verifRegoRule(code, false, "custom")
	case 2: // under a property path
		value = profile.NewAnd(false, []profile.Rule{verifRegoRule(code, true, "m")})
	case 3: // rego_extensions
		prof.CustomRego = &code
		value = profile.NewAnd(false, []profile.Rule{atom})
	case 4: // inside nested
		g := profile.VerifVarGeneratorAt(1)
		value = profile.NewAnd(false, []profile.Rule{profile.VerifNewNested(false, x, pc, &g, func(child profile.Variable) profile.Rule {
			r := verifRegoRule(code, false, "m").(profile.RegoRule)
			r.Variable = child
			return profile.NewAnd(false, []profile.Rule{r})
		})})
	case 5: // under not
		value = verifRegoRule(code, false, "m").Negate()
	case 6: // operand of or
		value = profile.NewOr(false, []profile.Rule{atom, verifRegoRule(code, false, "m")})
	case 7: // condition of if/then
		value = profile.NewConditional(false, verifRegoRule(code, false, "m"), atom)
	default: // one constraint of one alternative of a wide or (four or six alternatives of two constraints each)
		width := []int{4, 6}[v.Choice("orWidth", 2)]
		at, first := v.Choice("alternative", width), v.Bool("first")
		var alts []profile.Rule
		for k := 0; k < width; k++ {
			a1 := profile.VerifMinCount(x, mustVerifPath(fmt.Sprintf("ex.p%d", 2*k)), 1)
			a2 := profile.VerifMinCount(x, mustVerifPath(fmt.Sprintf("ex.p%d", 2*k+1)), 1)
			pair := []profile.Rule{a1, a2}
			if k == at {
				// two embedded constraints on two properties: the one under test sorts before or after the other
				mine, other := "ex.a", "ex.z"
				if !first {
					mine, other = other, mine
				}
				rule := func(c, on string) profile.Rule {
					return profile.RegoRule{
						AtomicStatement: profile.AtomicStatement{BaseStatement: profile.BaseStatement{Name: "rego"}, Variable: profile.Variable{Name: "x"}, Path: mustVerifPath(on)},
						Message:         "m", Argument: c,
					}
				}
				pair = []profile.Rule{rule(code, mine), rule("$result = true", other)}
			}
			alts = append(alts, profile.NewAnd(false, pair))
		}
		value = profile.NewOr(false, alts)
	}
	prof.Violation = []profile.Rule{profile.TopLevelExpression{
		Expression:     profile.Expression{BaseStatement: profile.BaseStatement{Name: "v1"}, Variable: &x, Value: value},
		Message:        profile.Message{Expression: "m"},
		Level:          "violation",
		ClassGenerator: "ex.C",
	}}
	unit := generator.Generate(prof)
	v.Reach("spliced")
	v.Assert("C08.verbatim", strings.Contains(unit.Code, code))
	v.Scope("v")
	CompileRego(&unit, nil)
	v.Assert("C08.gate-used", v.RegoNewCount() == 1)
	v.Assert("C08.module-is-code", v.RegoNewOption(0, "module.code") == unit.Code)
	v.Assert("C08.denylist-complete", verifGateOK(0))
}


func mustVerifPath(text string) path.PropertyPath {
	p, err := path.ParsePath(text)
	if err != nil {
		panic(err)
	}
	return p
}
