//go:build verif

package validator

import (
	"fmt"
	"strings"

	"github.com/aml-org/amf-custom-validator/internal/types"
	v "github.com/aml-org/amf-custom-validator/internal/zzverif"
	c "github.com/aml-org/amf-custom-validator/pkg/config"
	"github.com/open-policy-agent/opa/rego"
)

const verifProfile = `#%Validation Profile 1.0
profile: Test
violation:
  - v1
validations:
  v1:
    message: m
    targetClass: apiContract.EndPoint
    propertyConstraints:
      apiContract.path:
        minCount: 1
`

// verifCall drives one validation entry point; a panic is reported, not propagated.
func verifCall(ep int, compiled *rego.PreparedEvalQuery, data string) (report string, err error, panicked bool) {
	defer func() {
		if r := recover(); r != nil {
			panicked = true
		}
	}()
	switch ep {
	case 0:
		report, err = Validate(verifProfile, data, false, nil)
	case 1:
		report, err = ValidateWithConfiguration(verifProfile, data, false, nil, c.TestValidationConfiguration{}, c.DefaultReportConfiguration())
	case 2:
		report, err = ValidateCompiled(compiled, data, false, nil)
	default:
		report, err = ValidateCompiledWithConfiguration(compiled, data, false, nil, c.TestValidationConfiguration{}, c.DefaultReportConfiguration())
	}
	return
}

// VerifC04Entry: whatever the downstream stages do, a decode or JSON-LD failure
// yields an error and no report, from every validation entry point.
func VerifC04Entry() {
	ep := v.Choice("entry", 4)
	var compiled *rego.PreparedEvalQuery
	if ep >= 2 {
		var cerr error
		compiled, cerr = ProcessProfile(verifProfile, false, nil)
		v.Assume(cerr == nil)
	}
	// one data text: whenever it is read, it meets the same stage outcomes
	v.ScopeShared("v")
	report, err, panicked := verifCall(ep, compiled, "<<data text>>")
	decodeErr, flattenErr := v.Flag("v.decode.err"), v.Flag("v.flatten.err")
	// text after a first JSON value (a YAML source that starts with a JSON value, a second document):
	// the text is not a JSON document either
	if v.Flag("v.decode.trailing") {
		decodeErr = true
		v.Reach("trailing-text")
	}
	if decodeErr {
		v.Reach("decode-failed")
	}
	if flattenErr {
		v.Reach("flatten-failed")
	}
	if decodeErr || flattenErr {
		v.Assert("C04.no-panic", !panicked)
		v.Assert("C04.error-returned", panicked || err != nil)
		v.Assert("C04.no-report", report == "")
		// ... also when the same unreadable text is submitted again, through any entry point
		ep2 := v.Choice("entryAgain", 4)
		if ep2 >= 2 && compiled == nil {
			var cerr error
			compiled, cerr = ProcessProfile(verifProfile, false, nil)
			v.Assume(cerr == nil)
		}
		report2, err2, panicked2 := verifCall(ep2, compiled, "<<data text>>")
		v.Reach("submitted-again")
		v.Assert("C04.no-panic", !panicked2)
		v.Assert("C04.error-returned", panicked2 || err2 != nil)
		v.Assert("C04.no-report", report2 == "")
	} else if err == nil && !panicked {
		v.Reach("ok-path")
		v.Assert("C04.ok-has-report", report != "")
	}
}

func verifWitnessData(decodeErr, flattenErr bool) string {
	switch {
	case v.ReplayBool("flag:v.decode.trailing"):
		return "\"openapi\": \"3.0.0\"\n\"info\":\n  \"title\": \"not json\"\n"
	case decodeErr:
		// the decoder model also says whether More() saw anything: "no" is an empty / blank text
		if _, asked := v.ReplayInput("v.decode.more"); asked && v.ReplayInt("v.decode.more") == 0 {
			return " \n"
		}
		return "#%RAML 1.0\ntitle: not json"
	case flattenErr:
		return verifFlattenWitness("v")
	}
	return `{"@id": "http://x/a", "@type": "http://a.ml/vocabularies/apiContract#EndPoint"}`
}

// VerifC04EntryNative replays a VerifC04Entry counterexample through the real
// entry points with real (witness) data texts.
func VerifC04EntryNative() {
	ep := v.ReplayInt("entry")
	decodeErr, flattenErr := v.ReplayBool("flag:v.decode.err") || v.ReplayBool("flag:v.decode.trailing"), v.ReplayBool("flag:v.flatten.err")
	var compiled *rego.PreparedEvalQuery
	if ep >= 2 {
		var cerr error
		compiled, cerr = ProcessProfile(verifProfile, false, nil)
		if cerr != nil {
			panic(cerr)
		}
	}
	data := verifWitnessData(decodeErr, flattenErr)
	report, err, panicked := verifCall(ep, compiled, data)
	if decodeErr || flattenErr {
		v.Assert("C04.no-panic", !panicked)
		v.Assert("C04.error-returned", panicked || err != nil)
		v.Assert("C04.no-report", report == "")
		ep2 := 0
		if _, asked := v.ReplayInput("entryAgain"); asked {
			ep2 = v.ReplayInt("entryAgain")
		}
		if ep2 >= 2 && compiled == nil {
			var cerr error
			compiled, cerr = ProcessProfile(verifProfile, false, nil)
			if cerr != nil {
				panic(cerr)
			}
		}
		report2, err2, panicked2 := verifCall(ep2, compiled, data)
		v.Assert("C04.no-panic", !panicked2)
		v.Assert("C04.error-returned", panicked2 || err2 != nil)
		v.Assert("C04.no-report", report2 == "")
	}
}

// verifUnreadableTexts: data texts that are not a JSON document - empty, truncated, another encoding,
// other formats (the YAML/RAML source itself, YAML flow collections, comments), and texts that go on
// after a first JSON value.
// The decoders run natively on them: which texts are readable is decided by the real code, not by
// an environment choice.
var verifUnreadableTexts = []string{
	"", " \n\t", "{", "[1,", "{\"@id\":", "\"abc", "tru", "nul", "-", "1e", "[1 2]", "{\"a\" 1}", "{\"a\": 1,}", "[1,]",
	"#%RAML 1.0\ntitle: API\nversion: 1\n/pets:\n  get:\n", "title: API\nversion: 1\n", "- a\n- b\n", "{'@id': 'x'}", "{a: 1}", "{@id: x}",
	"# generated\n{}", "// generated\n{}", "\xef\xbb\xbf{}", "\xff\xfe{\x00}\x00", "\xfe\xff\x00{\x00}", "---", "--- {}", "~", "<rdf:RDF/>", "\x00", "@prefix ex: <http://example.org/> .",
	"NaN", "Infinity", "undefined", "'text'", "[a, b]", "key: [1, 2]\n", "? a\n: b\n", "!!map {}", "&a {}", "%YAML 1.2\n---\n{}\n",
	// a JSON value followed by more text: sources in other formats that happen to start with one, a second document
	"\"openapi\": \"3.0.0\"\n\"info\":\n  \"title\": \"API\"\n", "3.0: x\n", "2023-01-01: release notes\n", "true: yes\n", "null\n---\ntitle: API\n",
	"{\"@graph\": []} {\"@graph\": [{\"@id\": ", "[]\n#%RAML 1.0\ntitle: API\n", "{} garbage", "[]]]]", "{}{}", "{\"@graph\": []}\n{\"@graph\": []}\n", "{},", "{}\x00",
	// JSON in another encoding: bytes that are not UTF-8 inside a string, in a key, after the document
	"{\"@id\":\"http://a.ml/x\",\"http://a.ml/p\":\"caf\xe9\"}", "{\"caf\xe9\": 1}", "\"\xff\"", "[\"\xc3\"]", "{}\n\xa0", "{\"a\":\"\xed\xa0\x80\"}",
}

func init() {
	// text that starts far behind the document: behind more blanks than a decoder reads ahead (512,
	// 1536, 3584 ... bytes), directly behind a document that ends on such a boundary, behind a
	// megabyte of blank lines
	doc := `{"@id": "http://x/a", "@type": "http://a.ml/vocabularies/apiContract#EndPoint"}`
	pad := func(n int) string { return strings.Repeat(" ", n) }
	verifUnreadableTexts = append(verifUnreadableTexts,
		doc+pad(600)+"#%RAML 1.0\ntitle: API\n", doc+strings.Repeat("\n", 5000)+"{\"@graph\": [{\"@id\": ", doc+pad(512-len(doc))+"}", doc+pad(1536-len(doc))+"]",
		doc+pad(1<<20)+"garbage", "{}"+pad(510)+"x", "[]"+pad(4000)+"[]")
}

// VerifC04Texts: every text of the family, through every entry point: an error and no report.
func VerifC04Texts() {
	ep := v.Choice("entry", 4)
	var compiled *rego.PreparedEvalQuery
	if ep >= 2 {
		var cerr error
		compiled, cerr = ProcessProfile(verifProfile, false, nil)
		v.Assume(cerr == nil)
	}
	k := v.Choice("text", len(verifUnreadableTexts))
	v.ScopeShared("v")
	report, err, panicked := verifCall(ep, compiled, verifUnreadableTexts[k])
	v.Reach("returned")
	v.Assert("C04.no-panic", !panicked)
	v.Assert("C04.error-returned", panicked || err != nil)
	v.Assert("C04.no-report", report == "")
	if v.Deep() {
		// thorough tier: the same text again, through any entry point, and then a second unreadable text
		ep2 := v.Choice("entryAgain", 4)
		if ep2 >= 2 && compiled == nil {
			var cerr error
			compiled, cerr = ProcessProfile(verifProfile, false, nil)
			v.Assume(cerr == nil)
		}
		for _, text := range []string{verifUnreadableTexts[k], verifUnreadableTexts[(k+7)%len(verifUnreadableTexts)]} {
			report2, err2, panicked2 := verifCall(ep2, compiled, text)
			v.Assert("C04.no-panic", !panicked2)
			v.Assert("C04.error-returned", panicked2 || err2 != nil)
			v.Assert("C04.no-report", report2 == "")
		}
	}
}

func VerifC04TextsNative() {
	ep := v.ReplayInt("entry")
	var compiled *rego.PreparedEvalQuery
	if ep >= 2 {
		var cerr error
		compiled, cerr = ProcessProfile(verifProfile, false, nil)
		if cerr != nil {
			panic(cerr)
		}
	}
	k := v.ReplayInt("text")
	report, err, panicked := verifCall(ep, compiled, verifUnreadableTexts[k])
	v.Assert("C04.no-panic", !panicked)
	v.Assert("C04.error-returned", panicked || err != nil)
	v.Assert("C04.no-report", report == "")
	if v.Deep() {
		ep2 := 0
		if _, asked := v.ReplayInput("entryAgain"); asked {
			ep2 = v.ReplayInt("entryAgain")
		}
		if ep2 >= 2 && compiled == nil {
			var cerr error
			compiled, cerr = ProcessProfile(verifProfile, false, nil)
			if cerr != nil {
				panic(cerr)
			}
		}
		for _, text := range []string{verifUnreadableTexts[k], verifUnreadableTexts[(k+7)%len(verifUnreadableTexts)]} {
			report2, err2, panicked2 := verifCall(ep2, compiled, text)
			v.Assert("C04.no-panic", !panicked2)
			v.Assert("C04.error-returned", panicked2 || err2 != nil)
			v.Assert("C04.no-report", report2 == "")
		}
	}
}

// VerifC09Equiv: validating with the profile text equals compiling first and
// validating with the compiled profile, for every outcome of the stubbed stages.
func VerifC09Equiv() {
	// the document may start with three arbitrary bytes (a byte order mark, blanks, ...): whatever
	// one entry point does with them, the other does too
	data := v.Bytes("prefix", 3*v.Choice("prefixLen", 2)) + "<<data text>>"
	// one profile text and one document: both runs meet the same stage outcomes
	v.ScopeShared("a")
	r1, e1, p1 := verifCall(1, nil, data)
	compiled, cerr := ProcessProfile(verifProfile, false, nil)
	if cerr != nil {
		v.Reach("compile-failed")
		v.Assert("C09.compile-error-eq", e1 != nil && !p1)
		return
	}
	r2, e2, p2 := verifCall(3, compiled, data)
	v.Reach("validated-both")
	v.Assert("C09.compiled-eq-source.report", r1 == r2)
	v.Assert("C09.compiled-eq-source.error", (e1 == nil) == (e2 == nil))
	v.Assert("C09.compiled-eq-source.panic", p1 == p2)
	// every module handed to the engine in this run is the same module (generated identifiers carry a
	// process-wide counter: modulo that renumbering) queried the same way - however many times the
	// implementation chooses to compile it
	m0, _ := v.RegoNewOption(0, "module.code").(string)
	v.Assert("C09.same-module", m0 != "")
	for k := 1; k < v.RegoNewCount(); k++ {
		mk, _ := v.RegoNewOption(k, "module.code").(string)
		v.Assert("C09.same-module", verifStripDigits(m0) == verifStripDigits(mk))
		v.Assert("C09.same-query", v.RegoNewOption(0, "query") == v.RegoNewOption(k, "query"))
	}
}

// VerifC09History: one compiled profile, three calls with arbitrary per-call
// outcomes; call 3 repeats call 1's outcomes and must return what call 1 returned,
// and no call may write package-level state.
func VerifC09History() {
	compiled, cerr := ProcessProfile(verifProfile, false, nil)
	v.Assume(cerr == nil)
	v.TrackWrites(true)
	// which calls see the same document: doc 1, doc 2, doc 1 | doc 1, doc 2, doc 2 (a retry) | doc 1, doc 1, doc 2
	patterns := [][3]int{{1, 2, 1}, {1, 2, 2}, {1, 1, 2}}
	pat := patterns[v.Choice("pattern", len(patterns))]
	docs := map[int]string{1: "<<doc 1>>", 2: "<<doc 2>>"}
	var r [3]string
	var e [3]error
	var p [3]bool
	for k := 0; k < 3; k++ {
		// the same document meets the same stage outcomes whenever it is validated
		v.ScopeShared(fmt.Sprintf("d%d", pat[k]))
		r[k], e[k], p[k] = verifCall(3, compiled, docs[pat[k]])
	}
	v.TrackWrites(false)
	v.Reach("validated-3")
	for i := 0; i < 3; i++ {
		for j := i + 1; j < 3; j++ {
			if pat[i] == pat[j] {
				v.Assert("C09.step-independent.report", r[i] == r[j])
				v.Assert("C09.step-independent.error", (e[i] == nil) == (e[j] == nil))
				v.Assert("C09.step-independent.panic", p[i] == p[j])
			}
		}
	}
	v.Assert("C09.frame-globals", v.GlobalWrites() == 0)
}

func verifStripDigits(s string) string {
	b := make([]byte, 0, len(s))
	for i := 0; i < len(s); i++ {
		if s[i] < '0' || s[i] > '9' {
			b = append(b, s[i])
		}
	}
	return string(b)
}

func verifDocFor(scope string, good string) (string, bool) {
	switch {
	case v.ReplayBool("flag:" + scope + ".eval.err"), v.ReplayBool("flag:" + scope + ".eval.empty"):
		return "", false
	case v.ReplayBool("flag:" + scope + ".decode.err"):
		// not JSON, and long enough for the decoder to stop before having read all of it
		return "<html><body>" + strings.Repeat("502 Bad Gateway ", 200) + "</body></html>", true
	case v.ReplayBool("flag:" + scope + ".flatten.err"):
		return verifFlattenWitness(scope), true
	case v.ReplayBool("flag:" + scope + ".flatten.empty"):
		return `{"@context": {"ex": "http://example.org/"}}`, true
	case v.ReplayBool("flag:" + scope + ".flatten.odd"):
		// well-formed JSON-LD whose source map points at something that is not a node
		return `{"@graph": [` + good + `, {"@id": "http://x/sm", "@type": "http://a.ml/vocabularies/document-source-maps#SourceMap", "http://a.ml/vocabularies/document-source-maps#lexical": {"@id": "http://x/missing"}}]}`, true
	}
	return good, true
}

// VerifC09HistoryNative replays a three-call history through one compiled profile with real
// documents that provoke the recorded per-call outcomes.
func VerifC09HistoryNative() {
	good := map[int]string{
		1: `{"@id": "http://x/a", "@type": "http://a.ml/vocabularies/apiContract#EndPoint"}`,
		2: `{"@id": "http://x/b", "@type": "http://a.ml/vocabularies/apiContract#EndPoint", "http://a.ml/vocabularies/apiContract#path": "/p"}`,
	}
	patterns := [][3]int{{1, 2, 1}, {1, 2, 2}, {1, 1, 2}}
	pat := patterns[0]
	if _, asked := v.ReplayInput("pattern"); asked {
		pat = patterns[v.ReplayInt("pattern")]
	}
	// each document is the witness of the stage outcomes recorded for the first call that saw it
	docOf := map[int]string{}
	for k := 0; k < 3; k++ {
		if _, done := docOf[pat[k]]; done {
			continue
		}
		d, ok := verifDocFor(fmt.Sprintf("d%d", pat[k]), good[pat[k]])
		if !ok {
			fmt.Println("VERIF_NOT_REPRODUCIBLE evaluation faults cannot be provoked from outside with this profile")
			return
		}
		docOf[pat[k]] = d
	}
	compiled, cerr := ProcessProfile(verifProfile, false, nil)
	if cerr != nil {
		panic(cerr)
	}
	for attempt := 0; attempt < 10; attempt++ {
		var r [3]string
		var e [3]error
		var p [3]bool
		for k := 0; k < 3; k++ {
			r[k], e[k], p[k] = verifCall(3, compiled, docOf[pat[k]])
		}
		for i := 0; i < 3; i++ {
			for j := i + 1; j < 3; j++ {
				if pat[i] == pat[j] {
					v.Assert("C09.step-independent.report", r[i] == r[j])
					v.Assert("C09.step-independent.error", (e[i] == nil) == (e[j] == nil))
					v.Assert("C09.step-independent.panic", p[i] == p[j])
				}
			}
		}
	}
}

// VerifC09IndexFrame: building the input index of any document shape stores nothing into
// package-level state (what one document leaves behind, the next one would see).
func VerifC09IndexFrame() {
	g := verifGraph()
	v.TrackWrites(true)
	panicked, _ := verifGuardPanic(func() { Index(g) })
	v.TrackWrites(false)
	v.Reach("indexed")
	_ = panicked
	for _, w := range v.WriteLog() {
		v.Note("write", w)
	}
	v.Assert("C09.frame-globals", v.GlobalWrites() == 0)
}

// VerifC09IndexFrameNative: the observable consequence of index state leaking between documents:
// a document without source information indexed after one that has it.
func VerifC09IndexFrameNative() {
	withSI := verifObj("@graph", []any{
		verifObj("@id", "n1", "@type", "http://example.org/C"),
		verifObj("@id", "si1", "@type", docNS+"BaseUnitSourceInformation", docNS+"rootLocation", "file://root", docNS+"additionalLocations", verifObj("@id", "loc1")),
		verifObj("@id", "loc1", docNS+"location", "file://other", docNS+"elements", []any{verifObj("@id", "n1"), verifObj("@id", "n2")}),
	})
	plain := func() any {
		return verifObj("@graph", []any{
			verifObj("@id", "n1", "@type", "http://example.org/C"),
			verifObj("@id", "sm1", "@type", smNS+"SourceMap", smNS+"lexical", verifObj("@id", "lex1")),
			verifObj("@id", "lex1", smNS+"element", "n1", smNS+"value", "[(1,2)-(3,4)]"),
		})
	}
	fresh := Index(plain()).(types.ObjectMap)["@lexical"].(types.ObjectMap)["n1"].(types.ObjectMap)["uri"]
	Index(withSI)
	after := Index(plain()).(types.ObjectMap)["@lexical"].(types.ObjectMap)["n1"].(types.ObjectMap)["uri"]
	v.Assert("C09.frame-globals", fresh == after && after == "")
}

// verifUnitGraph: a unit whose root file is root and whose library file://lib declares the nodes
// listed in inLib; every node n1..n3 has a lexical entry of its own.
func verifUnitGraph(root string, inLib []string, rangeOf func(id string) string) any {
	nodes := []any{}
	var lex []any
	for _, id := range []string{"http://x/n1", "http://x/n2", "http://x/n3"} {
		nodes = append(nodes, verifObj("@id", id, "@type", "http://example.org/C"))
		nodes = append(nodes, verifObj("@id", id+"/lex", smNS+"element", id, smNS+"value", rangeOf(id)))
		lex = append(lex, verifObj("@id", id+"/lex"))
	}
	nodes = append(nodes, verifObj("@id", "http://x/sm", "@type", smNS+"SourceMap", smNS+"lexical", lex))
	si := verifObj("@id", "http://x/si", "@type", docNS+"BaseUnitSourceInformation", docNS+"rootLocation", root)
	if len(inLib) > 0 {
		var els []any
		for _, id := range inLib {
			els = append(els, verifObj("@id", id))
		}
		si[docNS+"additionalLocations"] = verifObj("@id", "http://x/loc")
		nodes = append(nodes, verifObj("@id", "http://x/loc", docNS+"location", "file://lib", docNS+"elements", els))
	}
	nodes = append(nodes, si)
	return verifObj("@graph", nodes)
}

// verifC09Units: units that share their root location (a file parsed again after an edit) and differ
// in what the library declares or in where the nodes are.
func verifC09Units(k int) (g any, lib map[string]bool, rng func(string) string, root string) {
	r1 := func(id string) string { return "[(1,1)-(2,2)]" }
	r2 := func(id string) string { return "[(5,0)-(6,9)]" }
	switch k {
	case 0:
		return verifUnitGraph("file://root", []string{"http://x/n1"}, r1), map[string]bool{"http://x/n1": true}, r1, "file://root"
	case 1:
		return verifUnitGraph("file://root", []string{"http://x/n2", "http://x/n3"}, r1), map[string]bool{"http://x/n2": true, "http://x/n3": true}, r1, "file://root"
	case 2:
		return verifUnitGraph("file://root", nil, r2), map[string]bool{}, r2, "file://root"
	}
	return verifUnitGraph("file://other", []string{"http://x/n1"}, r2), map[string]bool{"http://x/n1": true}, r2, "file://other"
}

func verifC09CheckUnit(k int) {
	g, lib, rng, root := verifC09Units(k)
	idx := Index(g).(types.ObjectMap)
	lexical, _ := idx["@lexical"].(types.ObjectMap)
	for _, id := range []string{"http://x/n1", "http://x/n2", "http://x/n3"} {
		entry, _ := lexical[id].(types.ObjectMap)
		want := root
		if lib[id] {
			want = "file://lib"
		}
		v.Assert("C09.index-of-this-document.uri", entry != nil && entry["uri"] == want)
		v.Assert("C09.index-of-this-document.range", entry != nil && entry["range"] == rng(id))
	}
}

// VerifC09IndexHistory: what the policy sees of a document is a function of that document, whatever
// was indexed before it: histories of three units that share node ids and (mostly) their root location.
func VerifC09IndexHistory() {
	steps := 3
	if v.Deep() {
		steps = 5
	}
	for step := 0; step < steps; step++ {
		verifC09CheckUnit(v.Choice("unit", 4))
	}
	v.Reach("indexed-3")
}

func VerifC09IndexHistoryNative() {
	steps := 3
	if v.Deep() {
		steps = 5
	}
	for step := 0; step < steps; step++ {
		name := "unit"
		if step > 0 {
			name = "unit#" + string(rune('0'+step))
		}
		k := 0
		if _, asked := v.ReplayInput(name); asked {
			k = v.ReplayInt(name)
		}
		verifC09CheckUnit(k)
	}
}

// VerifC09LongHistory: one compiled profile over many documents - seventy distinct documents, then
// the same seventy again: every document gets the report it got the first time (a history longer than
// any small table of recent documents; every stage succeeds, the stubbed engine quotes the document).
func VerifC09LongHistory() {
	v.Faults(false)
	compiled, cerr := ProcessProfile(verifProfile, false, nil)
	v.Assume(cerr == nil)
	const n = 70
	var first [n]string
	for pass := 0; pass < 2; pass++ {
		for k := 0; k < n; k++ {
			r, err := ValidateCompiledWithConfiguration(compiled, fmt.Sprintf("<<doc %d>>", k), false, nil, c.TestValidationConfiguration{}, c.DefaultReportConfiguration())
			if pass == 0 {
				first[k] = r
				v.Assert("C09.step-independent.error", err == nil && r != "")
				for j := 0; j < k; j++ {
					if first[j] == r {
						v.Assert("C09.step-independent.report", false) // two different documents, one report
					}
				}
			} else {
				v.Assert("C09.step-independent.report", err == nil && r == first[k])
			}
		}
	}
	v.Reach("validated-140")
}

func VerifC09LongHistoryNative() {
	compiled, cerr := ProcessProfile(verifProfile, false, nil)
	if cerr != nil {
		panic(cerr)
	}
	const n = 70
	var first [n]string
	for pass := 0; pass < 2; pass++ {
		for k := 0; k < n; k++ {
			doc := fmt.Sprintf(`{"@id": "http://x/n%d", "@type": "http://a.ml/vocabularies/apiContract#EndPoint"}`, k)
			r, err := ValidateCompiledWithConfiguration(compiled, doc, false, nil, c.TestValidationConfiguration{}, c.DefaultReportConfiguration())
			if pass == 0 {
				first[k] = r
				v.Assert("C09.step-independent.error", err == nil && r != "")
			} else {
				v.Assert("C09.step-independent.report", err == nil && r == first[k])
			}
		}
	}
}

// verifFlattenWitness is a document the JSON-LD processor rejects with the kind of error
// the stub chose: a *ld.JsonLdError (invalid local context), a plain error (a scalar as
// the content of a named graph) or a panic inside the processor (a non-boolean @protected).
func verifFlattenWitness(scope string) string {
	if v.ReplayBool("flag:" + scope + ".flatten.panic") {
		return `{"@context": {"@protected": 5, "apiContract": "http://a.ml/vocabularies/apiContract#"}, "@id": "http://x/a", "@type": "apiContract:EndPoint"}`
	}
	if v.ReplayBool("flag:" + scope + ".flatten.plain") {
		return `{"@id": "http://example.com/g", "@graph": "http://example.com/x"}`
	}
	return `{"@context": 42, "@id": "x"}`
}

// verifValueProfile quotes values of the document in its traces (numbers, strings, typed
// literals), so that differences in how the two entry points carry values become visible.
const verifValueProfile = `#%Validation Profile 1.0
profile: Values
prefixes:
  ex: http://example.org/vocab#
violation:
  - num
  - str
  - cmp
validations:
  num:
    message: "number {{ex.n}}"
    targetClass: ex.C
    propertyConstraints:
      ex.n:
        maxInclusive: 5
  str:
    message: "text {{ex.s}}"
    targetClass: ex.C
    propertyConstraints:
      ex.s:
        pattern: "^zzz$"
        in: [zzz]
  cmp:
    message: m
    targetClass: ex.C
    propertyConstraints:
      ex.n:
        lessThanProperty: ex.m
`

var verifValueDocs = []string{
	`{"@id": "http://x/a", "@type": "http://example.org/vocab#C", "http://example.org/vocab#n": 12.50, "http://example.org/vocab#m": 1.2E1, "http://example.org/vocab#s": "a\"b\\c\u00e9\n"}`,
	`{"@id": "http://x/a", "@type": "http://example.org/vocab#C", "http://example.org/vocab#n": 9007199254740993, "http://example.org/vocab#m": 100, "http://example.org/vocab#s": "<&>"}`,
	`{"@id": "http://x/a", "@type": "http://example.org/vocab#C", "http://example.org/vocab#n": {"@value": "7.0", "@type": "http://www.w3.org/2001/XMLSchema#decimal"}, "http://example.org/vocab#m": {"@value": "6", "@type": "http://www.w3.org/2001/XMLSchema#integer"}, "http://example.org/vocab#s": true}`,
}

// VerifC09EquivNative replays a VerifC09Equiv counterexample: with the recorded stage outcomes
// provoked by witness documents and, for the all-stages-succeed case, over documents whose
// values (numbers not in canonical form, escapes, typed literals) are quoted in the report.
func VerifC09EquivNative() {
	check := func(profileText, doc string) {
		r1, e1, p1 := func() (r string, e error, p bool) {
			defer func() {
				if x := recover(); x != nil {
					p = true
				}
			}()
			r, e = ValidateWithConfiguration(profileText, doc, false, nil, c.TestValidationConfiguration{}, c.DefaultReportConfiguration())
			return
		}()
		compiled, cerr := ProcessProfile(profileText, false, nil)
		if cerr != nil {
			v.Assert("C09.compile-error-eq", e1 != nil && !p1)
			return
		}
		r2, e2, p2 := func() (r string, e error, p bool) {
			defer func() {
				if x := recover(); x != nil {
					p = true
				}
			}()
			r, e = ValidateCompiledWithConfiguration(compiled, doc, false, nil, c.TestValidationConfiguration{}, c.DefaultReportConfiguration())
			return
		}()
		v.Assert("C09.compiled-eq-source.report", r1 == r2)
		v.Assert("C09.compiled-eq-source.error", (e1 == nil) == (e2 == nil))
		v.Assert("C09.compiled-eq-source.panic", p1 == p2)
	}
	if v.ReplayBool("flag:a.eval.err") || v.ReplayBool("flag:a.eval.empty") {
		fmt.Println("VERIF_NOT_REPRODUCIBLE evaluation faults cannot be provoked from outside")
		return
	}
	if d, ok := verifDocFor("a", ""); ok && d != "" {
		check(verifProfile, d)
		return
	}
	prefix := string(v.ReplayBytes("prefix"))
	check(verifProfile, prefix+`{"@id": "http://x/a", "@type": "http://a.ml/vocabularies/apiContract#EndPoint"}`)
	for _, d := range verifValueDocs {
		check(verifValueProfile, prefix+d)
	}
}

const verifOtherProfile = `#%Validation Profile 1.0
profile: Other
prefixes:
  apiContract: http://example.org/contract#
  core: http://example.org/core#
  zoo: http://example.org/zoo#
warning:
  - o1
validations:
  o1:
    message: other
    targetClass: apiContract.EndPoint
    propertyConstraints:
      core.name:
        minCount: 1
`

// VerifC09TwoProfiles: a compiled profile keeps meaning its own source whatever else is compiled
// or validated from text afterwards (every stage succeeds; the stubbed engine's answer names the
// module a query was prepared from).
func VerifC09TwoProfiles() {
	v.Faults(false)
	doc := "<<doc>>"
	order := v.Choice("order", 3)
	hA, errA := ProcessProfile(verifProfile, false, nil)
	v.Assume(errA == nil)
	var hB *rego.PreparedEvalQuery
	switch order {
	case 0: // B compiled after A
		var errB error
		hB, errB = ProcessProfile(verifOtherProfile, false, nil)
		v.Assume(errB == nil)
	case 1: // B validated from text after A was compiled
		Validate(verifOtherProfile, doc, false, nil)
	default: // A compiled twice, B in between
		ProcessProfile(verifOtherProfile, false, nil)
		ProcessProfile(verifProfile, false, nil)
	}
	rA, eA := ValidateCompiledWithConfiguration(hA, doc, false, nil, c.TestValidationConfiguration{}, c.DefaultReportConfiguration())
	tA, etA := ValidateWithConfiguration(verifProfile, doc, false, nil, c.TestValidationConfiguration{}, c.DefaultReportConfiguration())
	v.Reach("validated")
	v.Assert("C09.compiled-eq-source.after-other-profile", rA == tA && (eA == nil) == (etA == nil) && rA != "")
	if hB != nil {
		rB, eB := ValidateCompiledWithConfiguration(hB, doc, false, nil, c.TestValidationConfiguration{}, c.DefaultReportConfiguration())
		tB, etB := ValidateWithConfiguration(verifOtherProfile, doc, false, nil, c.TestValidationConfiguration{}, c.DefaultReportConfiguration())
		v.Assert("C09.compiled-eq-source.after-other-profile", rB == tB && (eB == nil) == (etB == nil) && rB != rA)
	}
}

// VerifC09TwoProfilesNative: the same with the real engine and a document both profiles object to.
func VerifC09TwoProfilesNative() {
	doc := `{"@id": "http://x/a", "@type": "http://a.ml/vocabularies/apiContract#EndPoint"}`
	order := v.ReplayInt("order")
	hA, errA := ProcessProfile(verifProfile, false, nil)
	if errA != nil {
		panic(errA)
	}
	var hB *rego.PreparedEvalQuery
	switch order {
	case 0:
		hB, _ = ProcessProfile(verifOtherProfile, false, nil)
	case 1:
		Validate(verifOtherProfile, doc, false, nil)
	default:
		ProcessProfile(verifOtherProfile, false, nil)
		ProcessProfile(verifProfile, false, nil)
	}
	rA, eA := ValidateCompiledWithConfiguration(hA, doc, false, nil, c.TestValidationConfiguration{}, c.DefaultReportConfiguration())
	tA, etA := ValidateWithConfiguration(verifProfile, doc, false, nil, c.TestValidationConfiguration{}, c.DefaultReportConfiguration())
	v.Assert("C09.compiled-eq-source.after-other-profile", rA == tA && (eA == nil) == (etA == nil) && rA != "")
	if hB != nil {
		rB, eB := ValidateCompiledWithConfiguration(hB, doc, false, nil, c.TestValidationConfiguration{}, c.DefaultReportConfiguration())
		tB, etB := ValidateWithConfiguration(verifOtherProfile, doc, false, nil, c.TestValidationConfiguration{}, c.DefaultReportConfiguration())
		v.Assert("C09.compiled-eq-source.after-other-profile", rB == tB && (eB == nil) == (etB == nil) && rB != rA)
	}
}
