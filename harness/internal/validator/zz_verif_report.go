//go:build verif

package validator

import (
	"encoding/json"
	"io"
	"os"
	"time"

	"github.com/aml-org/amf-custom-validator/internal/types"
	v "github.com/aml-org/amf-custom-validator/internal/zzverif"
	c "github.com/aml-org/amf-custom-validator/pkg/config"
	"github.com/open-policy-agent/opa/rego"
)

type verifClock struct{ t time.Time }

func (k verifClock) ReportCreationTime() time.Time { return k.t }

func verifResult(tag string, i int) types.ObjectMap {
	return types.ObjectMap{
		"@type":           []any{"reportSchema:ValidationResultNode", "shacl:ValidationResult"},
		"sourceShapeName": v.Bytes("shape."+tag, 1),
		"focusNode":       v.Bytes("focus."+tag, 1),
		"resultMessage":   "m",
		"trace":           []any{},
	}
}

func verifResultSet(name string, nv, nw, ni int) rego.ResultSet {
	var vs, ws, is []any
	vs, ws, is = []any{}, []any{}, []any{}
	for i := 0; i < nv; i++ {
		vs = append(vs, verifResult("v", i))
	}
	for i := 0; i < nw; i++ {
		ws = append(ws, verifResult("w", i))
	}
	for i := 0; i < ni; i++ {
		is = append(is, verifResult("i", i))
	}
	return verifResultSetOf(name, vs, ws, is)
}

func verifResultSetOf(name string, vs, ws, is []any) rego.ResultSet {
	m := types.ObjectMap{"profile": name, "violation": vs, "warning": ws, "info": is}
	return rego.ResultSet{rego.Result{Expressions: []*rego.ExpressionValue{{Value: m}}}}
}

// VerifC03Report: BuildReport on result sets of symbolic size and content under
// every report configuration.
func VerifC03Report() {
	per := 3
	if v.Deep() {
		per = 4 // thorough tier: 0..3 results per level
	}
	nv, nw, ni := v.Choice("nv", per), v.Choice("nw", per), v.Choice("ni", per)
	name := v.Bytes("profileName", 2)
	rs := verifResultSet(name, nv, nw, ni)
	// remember what went in (BuildReport mutates the maps in place)
	var shapes []string
	for _, l := range []string{"violation", "warning", "info"} {
		for _, r := range rs[0].Expressions[0].Value.(types.ObjectMap)[l].([]any) {
			shapes = append(shapes, r.(types.ObjectMap)["sourceShapeName"].(string))
		}
	}
	includeTime := v.Bool("includeTime")
	rc := c.ReportConfiguration{IncludeReportCreationTime: includeTime, ReportSchemaIri: v.Bytes("reportSchemaIri", 1), LexicalSchemaIri: v.Bytes("lexicalSchemaIri", 1)}
	// the configured instant in UTC, east and west of it (an offset with minutes included)
	zones := []*time.Location{time.UTC, time.FixedZone("", 2*3600), time.FixedZone("", -(3*3600 + 1800))}
	// ... with or without a sub-second part (the report's text has seconds: it still denotes the second
	// the instant lies in), at the end of a year
	nanos := []int{0, 250000000, 750000000, 999999999}[v.Choice("nanos", 4)]
	clock := verifClock{time.Date(2000+v.Choice("year", 2), time.December, 31, 23, 59, 59, nanos, zones[v.Choice("zone", len(zones))])}
	text, err := BuildReport(&rs, clock, rc)
	v.Assert("C03.no-error", err == nil && text != "")
	v.Reach("encoded")
	rep, ctx, ok := verifReportParts(text)
	v.Assert("C03.single-instance", ok)
	if !ok {
		return
	}
	v.Assert("C03.conforms", rep["conforms"] == (nv == 0))
	v.Assert("C03.profileName", rep["profileName"] == name)
	results, has := rep["result"].([]any)
	total := nv + nw + ni
	v.Assert("C03.result-key", has == (total > 0))
	if has {
		v.Assert("C03.result-count", len(results) == total)
		for i, r := range results {
			want := "http://www.w3.org/ns/shacl#Info"
			if i < nv {
				want = "http://www.w3.org/ns/shacl#Violation"
			} else if i < nv+nw {
				want = "http://www.w3.org/ns/shacl#Warning"
			}
			m := r.(types.ObjectMap)
			v.Assert("C03.severity", m["resultSeverity"] == want)
			v.Assert("C03.result-order", m["sourceShapeName"] == shapes[i])
		}
	}
	date, hasDate := rep["dateCreated"]
	if includeTime {
		v.Reach("with-date")
		// the text is an xsd:dateTime (RFC 3339) that denotes the configured instant
		ds, isStr := date.(string)
		parsed, perr := time.Parse(time.RFC3339, ds)
		v.Assert("C03.dateCreated", hasDate && isStr && perr == nil && parsed.Equal(clock.t.Truncate(time.Second)))
	} else {
		v.Reach("without-date")
		v.Assert("C03.dateCreated", !hasDate)
	}
	// frame: the configuration changes nothing but dateCreated and the two schema context entries
	v.Assert("C03.config-frame.reportSchema", ctx["reportSchema"] == rc.ReportSchemaIri+"#/declarations/")
	if total > 0 {
		v.Assert("C03.config-frame.lexicalSchema", ctx["lexicalSchema"] == rc.LexicalSchemaIri+"#/declarations/")
	}
	for k := range rep {
		switch k {
		case "@id", "@type", "profileName", "conforms", "dateCreated", "result":
		default:
			v.Assert("C03.config-frame.unexpected-key", false)
		}
	}
}

// VerifC03EmptyResultSet: an empty result set is an error, never a verdict.
func VerifC03EmptyResultSet() {
	rs := rego.ResultSet{}
	text, err := BuildReport(&rs, verifClock{}, c.DefaultReportConfiguration())
	v.Reach("returned")
	v.Assert("C03.empty-resultset-is-error", err != nil && text == "")
}

// VerifC03ForeignMembers: the level sets are open to embedded Rego and rego_extensions, so a member
// that is not a result object can sit among (or instead of) the results. Whatever BuildReport makes
// of it - an error, a panic turned into an error by the entry points, or a report - a report that is
// returned agrees with itself: conforms says whether the result list holds a Violation, and the
// result key is there exactly when the list is not empty.
func VerifC03ForeignMembers() {
	foreign := []any{"checked-by-extension", json.Number("7"), true, []any{"x"}}[v.Choice("foreign", 4)]
	level := []string{"violation", "warning", "info"}[v.Choice("level", 3)]
	lists := map[string][]any{"violation": {}, "warning": {}, "info": {}}
	// the foreign member before, after or without a genuine result of its level; a genuine
	// result may sit in another level as well
	switch v.Choice("layout", 3) {
	case 0:
		lists[level] = []any{foreign}
	case 1:
		lists[level] = []any{foreign, verifResult("a", 0)}
	case 2:
		lists[level] = []any{verifResult("a", 0), foreign}
	}
	if v.Bool("other") {
		other := []string{"violation", "warning", "info"}[v.Choice("otherLevel", 3)]
		lists[other] = append(lists[other], verifResult("o", 1))
	}
	rs := verifResultSetOf("p", lists["violation"], lists["warning"], lists["info"])
	text, err, panicked := verifBuildReportRecovered(&rs)
	if panicked || err != nil {
		v.Reach("refused")
		v.Assert("C03.foreign.no-verdict-with-error", text == "")
		return
	}
	v.Reach("reported")
	rep, _, ok := verifReportParts(text)
	v.Assert("C03.single-instance", ok)
	if !ok {
		return
	}
	results, has := rep["result"].([]any)
	violations := 0
	for _, r := range results {
		if m, isMap := r.(types.ObjectMap); isMap && m["resultSeverity"] == "http://www.w3.org/ns/shacl#Violation" {
			violations++
		}
	}
	v.Assert("C03.conforms", rep["conforms"] == (violations == 0))
	v.Assert("C03.result-key", has == (len(results) > 0))
}

func verifBuildReportRecovered(rs *rego.ResultSet) (text string, err error, panicked bool) {
	defer func() {
		if r := recover(); r != nil {
			text, panicked = "", true
		}
	}()
	text, err = BuildReport(rs, verifClock{}, c.DefaultReportConfiguration())
	return
}

// verifReportParts returns the report node and the @context of the dialect instance: from the
// structure handed to the encoder under the symbolic executor, from the JSON text natively.
func verifReportParts(text string) (rep types.ObjectMap, ctx types.ObjectMap, ok bool) {
	if v.Symbolic() {
		doc, isDoc := v.LastEncoded().([]types.ObjectMap)
		if !isDoc || len(doc) != 1 {
			return nil, nil, false
		}
		enc, isEnc := doc[0]["doc:encodes"].([]types.ObjectMap)
		if !isEnc || len(enc) != 1 {
			return nil, nil, false
		}
		ctx, _ = doc[0]["@context"].(types.ObjectMap)
		return enc[0], ctx, true
	}
	var doc []any
	if err := json.Unmarshal([]byte(text), &doc); err != nil || len(doc) != 1 {
		return nil, nil, false
	}
	inst, _ := doc[0].(map[string]any)
	enc, _ := inst["doc:encodes"].([]any)
	if len(enc) != 1 {
		return nil, nil, false
	}
	rep, _ = enc[0].(map[string]any)
	ctx, _ = inst["@context"].(map[string]any)
	return rep, ctx, rep != nil
}

// verifSilentProfiles: profiles that take the library through its less usual branches - names listed
// under a level without a definition, an empty level, a validation nobody lists, a profile that does
// not parse.
var verifSilentProfiles = []string{
	verifProfile,
	"#%Validation Profile 1.0\nprofile: Levels\nprefixes:\n  ex: http://example.org/\nviolation:\n  - v1\n  - not-defined\nwarning:\n  - defined-validaton\ninfo: []\nvalidations:\n  v1:\n    message: m\n    targetClass: ex.C\n    propertyConstraints:\n      ex.p:\n        minCount: 1\n  unlisted:\n    message: m\n    targetClass: ex.C\n    propertyConstraints:\n      ex.q:\n        maxCount: 0\n",
	"#%Validation Profile 1.0\nprofile: Broken\nviolation:\n  - v1\nvalidations:\n  v1:\n    message: m\n    propertyConstraints:\n      ex.p:\n        minCount: 1\n",
	"profile: [not, a, name\n",
}

// VerifC18LibrarySilent: the command line prints what the library returns and nothing else reaches
// its standard output - so the library itself writes nothing there, whatever the profile, the data
// and the outcome of each stage (debug switched off).
func VerifC18LibrarySilent() {
	prof := verifSilentProfiles[v.Choice("profile", len(verifSilentProfiles))]
	v.Scope("v")
	switch v.Choice("entry", 4) {
	case 0:
		GenerateRego(prof, false, nil)
	case 1:
		Validate(prof, "<<data text>>", false, nil)
	case 2:
		compiled, err := ProcessProfile(prof, false, nil)
		if err == nil {
			ValidateCompiled(compiled, "<<data text>>", false, nil)
		}
	default:
		verifGuardPanic(func() { ProcessInput("<<data text>>", false, nil) })
	}
	v.Reach("returned")
	v.Assert("C18.library-writes-nothing-to-stdout", v.Stdout() == "")
}

// VerifC18LibrarySilentNative: the same call with the process's standard output redirected to a file.
func VerifC18LibrarySilentNative() {
	prof := verifSilentProfiles[v.ReplayInt("profile")]
	data := `{"@id": "http://x/a", "@type": "http://example.org/C"}`
	if v.ReplayBool("flag:v.decode.err") {
		data = "not json"
	} else if v.ReplayBool("flag:v.flatten.err") {
		data = `{"@context": 42, "@id": "x"}`
	}
	f, err := os.CreateTemp("", "verif-stdout")
	if err != nil {
		panic(err)
	}
	defer os.Remove(f.Name())
	saved := os.Stdout
	os.Stdout = f
	func() {
		defer func() { recover() }()
		switch v.ReplayInt("entry") {
		case 0:
			GenerateRego(prof, false, nil)
		case 1:
			Validate(prof, data, false, nil)
		case 2:
			compiled, err := ProcessProfile(prof, false, nil)
			if err == nil {
				ValidateCompiled(compiled, data, false, nil)
			}
		default:
			ProcessInput(data, false, nil)
		}
	}()
	os.Stdout = saved
	f.Seek(0, 0)
	written, _ := io.ReadAll(f)
	f.Close()
	v.Assert("C18.library-writes-nothing-to-stdout", len(written) == 0)
}
