//go:build verif

package validator

import (
	"encoding/json"
	"fmt"

	"github.com/aml-org/amf-custom-validator/internal/types"
	v "github.com/aml-org/amf-custom-validator/internal/zzverif"
	c "github.com/aml-org/amf-custom-validator/pkg/config"
)

type verifShape struct {
	traces                  [4]int // traces per result, by depth
	subs                    [4]int // sub-results per trace, by depth
	loc                     [4]bool
	labelLayout, sizeLayout int // layouts of the two multi-valued properties of the mixed quoted node
	lit                     int // which of the trace value's actual / expected are typed literals taken from the data: bit 0 actual, bit 1 expected; 4 = actual is a quoted data node, 5 = a quoted data node whose arrays mix plain values and typed literals
}

// verifQuotedNode: a node of the data graph quoted as the actual value of a trace (what an inverse
// path step hands to datatype / pattern / comparison constraints): typed, with its own @id and two
// properties that each hold an array of typed literals.
func verifQuotedNode() any {
	lit := func(s string) any {
		return types.ObjectMap{"@type": "http://www.w3.org/2001/XMLSchema#int", "@value": s}
	}
	return types.ObjectMap{"@id": "http://x/household", "@type": []any{"http://example.org/Household"},
		"http://example.org/a": []any{lit("1"), lit("2")}, "http://example.org/b": []any{lit("3"), lit("4")},
		"http://example.org/c": types.ObjectMap{"@id": "http://x/other"},
		// a single-valued property whose name reads like an element of the array-valued property a
		"http://example.org/a_0": lit("0"), "http://example.org/b_1": lit("1"),
		// properties of two vocabularies with the same local name, single-valued and multi-valued
		"http://example.org/v#size": lit("5"), "http://example.org/w#size": lit("6"), "http://example.org/w/size": lit("7"),
		"http://example.org/v#list": []any{lit("8")}, "http://example.org/w#list": []any{lit("9")}}
}

// verifQuotedMixedNode: a quoted data node whose multi-valued properties mix plain values and typed
// literals (a label given once as a plain string and once as a typed number), next to a property
// with typed literals only.
func verifQuotedMixedNode(labelLayout, sizeLayout int) any {
	lit := func(s string) any {
		return types.ObjectMap{"@type": "http://www.w3.org/2001/XMLSchema#integer", "@value": s}
	}
	layout := func(k int) any {
		switch k {
		case 0:
			return []any{lit("1"), lit("2")}
		case 1:
			return []any{"plain", lit("2")}
		case 2:
			return []any{lit("1"), "plain"}
		case 3:
			return []any{"plain", "other"}
		}
		return lit("1")
	}
	return types.ObjectMap{"@id": "http://x/box", "@type": []any{"http://example.org/Box"},
		"http://example.org/label": layout(labelLayout), "http://example.org/size": layout(sizeLayout), "http://example.org/tags": []any{"a", "b"}}
}

func verifLiteral(typed bool, val string) any {
	if typed {
		return types.ObjectMap{"@type": "http://www.w3.org/2001/XMLSchema#date", "@value": val}
	}
	return val
}

func verifLocation() types.ObjectMap {
	pos := func(l, col int) types.ObjectMap {
		return types.ObjectMap{"@type": []any{"lexicalSchema:PositionNode", "lexical:Position"}, "line": l, "column": col}
	}
	return types.ObjectMap{"@type": []any{"lexicalSchema:LocationNode", "lexical:Location"}, "uri": "file://x",
		"range": types.ObjectMap{"@type": []any{"lexicalSchema:RangeNode", "lexical:Range"}, "start": pos(1, 2), "end": pos(3, 4)}}
}

func verifResultTree(sh *verifShape, depth int, name string) types.ObjectMap {
	var traces []any
	for t := 0; t < sh.traces[depth]; t++ {
		tv := types.ObjectMap{"@type": []any{"reportSchema:TraceValueNode", "validation:TraceValue"}, "negated": false,
			"actual": verifLiteral(sh.lit&1 != 0, "2020-01-01"), "expected": verifLiteral(sh.lit&2 != 0, "2021-01-01")}
		if sh.lit == 4 {
			tv["actual"] = verifQuotedNode()
		}
		if sh.lit == 5 {
			tv["actual"] = verifQuotedMixedNode(sh.labelLayout, sh.sizeLayout)
		}
		if depth > 0 && sh.subs[depth] > 0 {
			var subs []any
			for s := 0; s < sh.subs[depth]; s++ {
				subs = append(subs, verifResultTree(sh, depth-1, "nested"))
			}
			tv["subResult"] = subs
		}
		tr := types.ObjectMap{"@type": []any{"reportSchema:TraceMessageNode", "validation:TraceMessage"}, "component": "c", "resultPath": "p", "traceValue": tv}
		if sh.loc[depth] {
			tr["location"] = verifLocation()
		}
		traces = append(traces, tr)
	}
	r := types.ObjectMap{"@type": []any{"reportSchema:ValidationResultNode", "shacl:ValidationResult"}, "sourceShapeName": name, "focusNode": "n", "resultMessage": "m", "trace": traces}
	if sh.loc[depth] {
		r["location"] = verifLocation()
	}
	return r
}

// verifCollectIds walks the document and checks that every typed node has an @id.
func verifCollectIds(x any, ids *[]string) {
	switch n := x.(type) {
	case types.ObjectMap:
		if _, typed := n["@type"]; typed {
			id, ok := n["@id"].(string)
			v.Assert("C12.has-id", ok && id != "")
			*ids = append(*ids, id)
		}
		for k, e := range n {
			if k == "@context" {
				continue
			}
			verifCollectIds(e, ids)
		}
	case []types.ObjectMap:
		for _, e := range n {
			verifCollectIds(e, ids)
		}
	case []any:
		for _, e := range n {
			verifCollectIds(e, ids)
		}
	}
}

// VerifC12Ids: every node of the report, at any depth of nested sub-results, gets an @id
// that is unique in the document; one dialect instance encodes one report node.
func VerifC12Ids() {
	depth := 1 + v.Choice("depth", 3)
	sh := &verifShape{lit: v.Choice("literals", 6), labelLayout: 1, sizeLayout: 0}
	if sh.lit == 5 && v.Deep() {
		// thorough tier: every layout of the two multi-valued properties (typed only, plain first,
		// typed first, plain only, single typed value)
		sh.labelLayout, sh.sizeLayout = v.Choice("labelLayout", 5), v.Choice("sizeLayout", 5)
	}
	traces, subs, loc := 1+v.Choice("traces", 2), v.Choice("subs", 3), v.Choice("loc", 2) == 1
	for d := 0; d <= depth; d++ {
		sh.traces[d] = traces
		if d > 0 {
			sh.subs[d] = subs
		}
		sh.loc[d] = loc
	}
	_ = fmt.Sprint
	nv, nw, ni := 1+v.Choice("violations", 2), v.Choice("warnings", 2), v.Choice("infos", 2)
	var vs, ws, is []any
	for i := 0; i < ni; i++ {
		is = append(is, verifResultTree(sh, depth, "i1"))
	}
	for i := 0; i < nv; i++ {
		vs = append(vs, verifResultTree(sh, depth, "v1"))
	}
	for i := 0; i < nw; i++ {
		ws = append(ws, verifResultTree(sh, depth, "w1"))
	}
	rs := verifResultSetOf("p", vs, ws, is)
	v.MapOrderGlobal(true)
	text, err := BuildReport(&rs, c.TestValidationConfiguration{}, c.DefaultReportConfiguration())
	v.MapOrder(false)
	v.Assert("C12.no-error", err == nil && text != "")
	var doc any
	if v.Symbolic() {
		doc = v.LastEncoded()
	} else {
		var generic []any
		json.Unmarshal([]byte(text), &generic)
		doc = generic
	}
	_, _, ok := verifReportParts(text)
	v.Assert("C12.single-instance", ok)
	var ids []string
	verifCollectIds(doc, &ids)
	v.Reach("ids-defined")
	seen := map[string]bool{}
	for _, id := range ids {
		v.Assert("C12.ids-unique", !seen[id])
		seen[id] = true
	}
	v.Assert("C12.ids-counted", len(ids) >= 3+nv+nw+ni)
	rep, _, _ := verifReportParts(text)
	results, _ := rep["result"].([]any)
	v.Assert("C12.results-complete", len(results) == nv+nw+ni)
	for _, r := range results {
		m, isMap := r.(map[string]any)
		_, typed := m["@type"]
		v.Assert("C12.results-complete", isMap && typed && m["focusNode"] == "n" && m["resultMessage"] == "m")
	}
}


// VerifC12ManyResults: reports with many results per level (two-digit ordinals, more results than
// any chunk or buffer a builder might use): ids stay unique and every result is there.
func VerifC12ManyResults() {
	sizes := [][3]int{{12, 9, 0}, {9, 0, 17}, {33, 1, 10}}
	n := sizes[v.Choice("sizes", len(sizes))]
	sh := &verifShape{lit: 0, labelLayout: 1}
	sh.traces[0], sh.traces[1] = 1, 2
	sh.subs[1] = 1
	var vs, ws, is []any
	for i := 0; i < n[0]; i++ {
		vs = append(vs, verifResultTree(sh, 1, "v1"))
	}
	for i := 0; i < n[1]; i++ {
		ws = append(ws, verifResultTree(sh, 0, "w1"))
	}
	for i := 0; i < n[2]; i++ {
		is = append(is, verifResultTree(sh, 1, "i1"))
	}
	rs := verifResultSetOf("p", vs, ws, is)
	text, err := BuildReport(&rs, c.TestValidationConfiguration{}, c.DefaultReportConfiguration())
	v.Assert("C12.no-error", err == nil && text != "")
	var doc any
	if v.Symbolic() {
		doc = v.LastEncoded()
	} else {
		var generic []any
		json.Unmarshal([]byte(text), &generic)
		doc = generic
	}
	var ids []string
	verifCollectIds(doc, &ids)
	v.Reach("ids-defined")
	seen := map[string]bool{}
	for _, id := range ids {
		v.Assert("C12.ids-unique", !seen[id])
		seen[id] = true
	}
	rep, _, _ := verifReportParts(text)
	results, _ := rep["result"].([]any)
	v.Assert("C12.results-complete", len(results) == n[0]+n[1]+n[2])
	for k, r := range results {
		m, isMap := r.(map[string]any)
		want := "http://www.w3.org/ns/shacl#Info"
		if k < n[0] {
			want = "http://www.w3.org/ns/shacl#Violation"
		} else if k < n[0]+n[1] {
			want = "http://www.w3.org/ns/shacl#Warning"
		}
		v.Assert("C12.results-complete", isMap && m["focusNode"] == "n" && m["resultMessage"] == "m" && m["resultSeverity"] == want)
	}
}
