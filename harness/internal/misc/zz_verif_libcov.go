//go:build verif

package misc

import (
	"bufio"
	"bytes"
	"context"
	"encoding/json"
	"errors"
	"fmt"
	"io"
	"maps"
	"os"
	"path/filepath"
	"regexp"
	"slices"
	"sort"
	"strconv"
	"strings"
	"sync"
	"sync/atomic"
	"time"
	"unicode"
	"unicode/utf8"

	v "github.com/aml-org/amf-custom-validator/internal/zzverif"
)

// Library-coverage probes: each exercises one family of standard-library calls a maintainer's
// change might introduce, so that `verif selftest` shows which ones the executor can follow
// (anything it cannot follow makes a check INCONCLUSIVE, never silently passing).

func VerifLibSyncOnce() {
	var once sync.Once
	n := 0
	once.Do(func() { n++ })
	once.Do(func() { n++ })
	var mu sync.RWMutex
	mu.RLock()
	mu.RUnlock()
	mu.Lock()
	mu.Unlock()
	var m sync.Map
	m.Store("a", 1)
	x, ok := m.Load("a")
	var av atomic.Value
	av.Store("s")
	var cnt atomic.Int64
	cnt.Add(2)
	v.Reach("done")
	v.Assert("lib.sync", n == 1 && ok && x == 1 && av.Load() == "s" && cnt.Load() == 2)
}

func VerifLibSort() {
	xs := []string{"b", "a", "c"}
	sort.Slice(xs, func(i, j int) bool { return xs[i] < xs[j] })
	ys := []int{3, 1, 2}
	sort.SliceStable(ys, func(i, j int) bool { return ys[i] < ys[j] })
	sort.Ints(ys)
	zs := []string{"q", "p"}
	slices.Sort(zs)
	m := map[string]int{"k2": 2, "k1": 1}
	keys := slices.Sorted(maps.Keys(m))
	v.Reach("done")
	v.Assert("lib.sort", xs[0] == "a" && ys[0] == 1 && zs[0] == "p" && keys[0] == "k1" && slices.Contains(keys, "k2") && sort.SearchStrings(xs, "b") == 1)
}

func VerifLibStrings() {
	s := v.Bytes("s", 2)
	v.Assume(s[0] < 0x80 && s[1] < 0x80)
	f := strings.Fields(" a  b ")
	r := strings.NewReplacer("a", "b").Replace("aa")
	t := strings.TrimFunc("  x ", unicode.IsSpace)
	u := strings.Map(func(r rune) rune { return unicode.ToUpper(r) }, "ab")
	var sb strings.Builder
	sb.WriteString(s)
	sb.WriteByte('!')
	sb.WriteRune('é')
	v.Reach("done")
	v.Assert("lib.strings", len(f) == 2 && r == "bb" && t == "x" && u == "AB" && sb.Len() == 5 && strings.EqualFold("Ab", "aB") && strings.Count("aaa", "a") == 3 &&
		strings.Repeat("ab", 2) == "abab" && strings.Title("ab") == "Ab" && strings.ToUpper(s) == strings.ToUpper(s) && utf8.RuneCountInString("é") == 1 && strings.LastIndex("abcabc", "b") == 4)
}

func VerifLibStrconv() {
	q := strconv.Quote("a\"b")
	uq, err := strconv.Unquote(q)
	n, err2 := strconv.ParseInt("-12", 10, 64)
	u, err3 := strconv.ParseUint("ff", 16, 64)
	b, err4 := strconv.ParseBool("true")
	v.Reach("done")
	v.Assert("lib.strconv", uq == "a\"b" && err == nil && n == -12 && err2 == nil && u == 255 && err3 == nil && b && err4 == nil && strconv.FormatInt(255, 16) == "ff" && strconv.Itoa(7) == "7" && strconv.AppendInt(nil, 5, 10)[0] == '5')
}

type verifLibErr struct{ code int }

func (e *verifLibErr) Error() string { return "lib error " + strconv.Itoa(e.code) }

func VerifLibErrors() {
	base := &verifLibErr{3}
	w := fmt.Errorf("wrapped: %w", base)
	var target *verifLibErr
	j := errors.Join(errors.New("x"), base)
	v.Reach("done")
	v.Assert("lib.errors", errors.Is(w, base) && errors.As(w, &target) && target.code == 3 && errors.Unwrap(w) == error(base) && strings.Contains(w.Error(), "lib error 3") && errors.Is(j, base))
}

func VerifLibFmt() {
	s := v.Bytes("s", 1)
	a := fmt.Sprint("a", 1, true)
	b := fmt.Sprintln("a", 2)
	c := fmt.Sprintf("%5d|%-4s|%05.1f|%x|%q|%v|%T|%c|%U|%8.3s|%t", 42, "ab", 3.14159, 255, "q", []int{1, 2}, 1.5, 'x', 'x', "abcdef", false)
	d := fmt.Sprintf("%s=%d", s, 3)
	var bb bytes.Buffer
	fmt.Fprintf(&bb, "%d-%s", 1, "z")
	fmt.Fprint(&bb, "!")
	fmt.Fprintln(&bb, "?")
	v.Reach("done")
	v.Assert("lib.fmt", a == "a1 true" && b == "a 2\n" && c == "   42|ab  |003.1|ff|\"q\"|[1 2]|float64|x|U+0078|     abc|false" && len(d) == 3 && bb.String() == "1-z!?\n")
}

func VerifLibRegexp() {
	re := regexp.MustCompile(`(\w+)\.(\w+)`)
	m := re.FindStringSubmatch("x a.b y")
	all := re.FindAllString("a.b c.d", -1)
	r := re.ReplaceAllString("a.b", "$2.$1")
	rf := re.ReplaceAllStringFunc("a.b", strings.ToUpper)
	idx := re.FindStringIndex("zz a.b")
	v.Reach("done")
	v.Assert("lib.regexp", len(m) == 3 && m[2] == "b" && len(all) == 2 && r == "b.a" && rf == "A.B" && idx[0] == 3 && re.MatchString("q.r") && regexp.QuoteMeta("a.b") == `a\.b` && len(re.Split("x a.b y", -1)) == 2)
}

func VerifLibJSON() {
	type rec struct {
		Name string   `json:"name"`
		N    int      `json:"n,omitempty"`
		Tags []string `json:"tags"`
		In   *rec     `json:"in,omitempty"`
	}
	b, err := json.Marshal(rec{Name: "x", Tags: []string{"a"}, In: &rec{Name: "y", N: 2}})
	var back rec
	err2 := json.Unmarshal(b, &back)
	var generic any
	err3 := json.Unmarshal([]byte(`{"a": [1, 2.50, "s", null, true], "b": {"c": 1e3}}`), &generic)
	ind, err4 := json.MarshalIndent(map[string]any{"k": 1}, "", "  ")
	dec := json.NewDecoder(strings.NewReader(`{"z": 12.50}`))
	dec.UseNumber()
	var viaDec any
	err5 := dec.Decode(&viaDec)
	v.Reach("done")
	v.Assert("lib.json", err == nil && err2 == nil && err3 == nil && err4 == nil && err5 == nil && back.In.N == 2 && back.Tags[0] == "a" && string(b) == `{"name":"x","tags":["a"],"in":{"name":"y","n":2,"tags":null}}` &&
		generic.(map[string]any)["a"].([]any)[1] == 2.5 && string(ind) == "{\n  \"k\": 1\n}" && viaDec.(map[string]any)["z"] == json.Number("12.50") && json.Valid(b))
}

func VerifLibIO() {
	data, err := io.ReadAll(strings.NewReader("l1\nl2\n"))
	sc := bufio.NewScanner(bytes.NewReader(data))
	n := 0
	for sc.Scan() {
		n++
	}
	var bb bytes.Buffer
	w := bufio.NewWriter(&bb)
	w.WriteString("x")
	w.Flush()
	io.WriteString(&bb, "y")
	cp := new(bytes.Buffer)
	io.Copy(cp, &bb)
	v.Reach("done")
	v.Assert("lib.io", err == nil && n == 2 && cp.String() == "xy" && bytes.Equal(bytes.TrimSpace([]byte(" a ")), []byte("a")) && bytes.Contains(data, []byte("l2")))
}

func VerifLibOSPath() {
	p := filepath.Join("a", "b", "../c.txt")
	os.Setenv("VERIF_LIBCOV", "1")
	e := os.Getenv("VERIF_LIBCOV")
	_, ok := os.LookupEnv("VERIF_LIBCOV_MISSING")
	v.Reach("done")
	v.Assert("lib.ospath", p == "a/c.txt" && filepath.Base(p) == "c.txt" && filepath.Ext(p) == ".txt" && filepath.Dir(p) == "a" && e == "1" && !ok)
}

func VerifLibTimeContext() {
	t0 := time.Now()
	d := time.Since(t0)
	ctx, cancel := context.WithCancel(context.Background())
	cancel()
	dur := 1500 * time.Millisecond
	v.Reach("done")
	v.Assert("lib.timecontext", d >= 0 && ctx.Err() != nil && dur.Seconds() == 1.5)
}

type verifPair[K comparable, V any] struct {
	k K
	v V
}

func VerifLibGenericsClosures() {
	ps := []verifPair[string, int]{{"a", 1}, {"b", 2}}
	idx := slices.IndexFunc(ps, func(p verifPair[string, int]) bool { return p.k == "b" })
	m := map[string][]int{}
	m["x"] = append(m["x"], 1, 2)
	clone := maps.Clone(m)
	delete(m, "x")
	ch := make(chan int, 2)
	ch <- 1
	close(ch)
	got := 0
	for x := range ch {
		got += x
	}
	func() {
		defer func() { recover() }()
		var np *verifPair[string, int]
		_ = np.k
	}()
	v.Reach("done")
	v.Assert("lib.generics", idx == 1 && len(clone["x"]) == 2 && len(m) == 0 && got == 1 && slices.Equal([]int{1}, []int{1}) && slices.Index([]string{"p", "q"}, "q") == 1)
}
