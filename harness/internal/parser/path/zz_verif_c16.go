//go:build verif

package path

import (
	"fmt"

	v "github.com/aml-org/amf-custom-validator/internal/zzverif"
)

// ---- reference recogniser: PEG semantics of third_party/propertyparser.peg, anchored at EOF ----

type refP struct {
	s   string
	pos int
}

func isNs(c byte) bool {
	return (c >= 'a' && c <= 'z') || (c >= 'A' && c <= 'Z') || (c >= '0' && c <= '9') || c == '_' || c == '-'
}

func isProp(c byte) bool { return isNs(c) || c == '.' || c == '\\' || c == '/' }

func isMod(c byte) bool { return c == '^' || c == '*' }

func isWs(c byte) bool { return c == ' ' || c == '\n' || c == '\t' || c == '\r' }

func (p *refP) ws() {
	for p.pos < len(p.s) && isWs(p.s[p.pos]) {
		p.pos++
	}
}

// canonical rendering shared by the reference and by the real parser's result
func renderIri(value string, inverse, transitive bool) string {
	r := "I[" + value
	if inverse {
		r += "^"
	}
	if transitive {
		r += "*"
	}
	return r + "]"
}

func (p *refP) iri() (string, bool) {
	start := p.pos
	i := p.pos
	for i < len(p.s) && isNs(p.s[i]) {
		i++
	}
	if i == start || i >= len(p.s) || p.s[i] != '.' {
		return "", false
	}
	dot := i
	i++
	ps := i
	for i < len(p.s) && isProp(p.s[i]) {
		i++
	}
	if i == ps {
		return "", false
	}
	val := p.s[start:dot] + "." + p.s[ps:i]
	p.pos = i
	p.ws()
	inv, tr := false, false
	if p.pos < len(p.s) && isMod(p.s[p.pos]) {
		if p.s[p.pos] == '^' {
			inv = true
		}
		if p.s[p.pos] == '*' {
			tr = true
		}
		p.pos++
	}
	return renderIri(val, inv, tr), true
}

func (p *refP) factor(depth int) (string, bool) {
	save := p.pos
	if depth > 0 && p.pos < len(p.s) && p.s[p.pos] == '(' {
		p.pos++
		p.ws()
		if e, ok := p.expression(depth - 1); ok {
			p.ws()
			if p.pos < len(p.s) && p.s[p.pos] == ')' {
				p.pos++
				return e, true
			}
		}
		p.pos = save
	}
	if r, ok := p.iri(); ok {
		return r, true
	}
	p.pos = save
	if p.pos+5 <= len(p.s) && p.s[p.pos:p.pos+5] == "@type" {
		p.pos += 5
		return renderIri("@type", false, false), true
	}
	return "", false
}

func (p *refP) list(depth int, sep byte, tag string, item func(int) (string, bool)) (string, bool) {
	head, ok := item(depth)
	if !ok {
		return "", false
	}
	acc := head
	n := 1
	for {
		save := p.pos
		p.ws()
		if p.pos < len(p.s) && p.s[p.pos] == sep {
			p.pos++
			p.ws()
			if next, ok := item(depth); ok {
				acc += "," + next
				n++
				continue
			}
		}
		p.pos = save
		break
	}
	if n == 1 {
		return acc, true
	}
	return tag + "(" + acc + ")", true
}

func (p *refP) term(depth int) (string, bool) { return p.list(depth, '|', "OR", p.factor) }

func (p *refP) expression(depth int) (string, bool) { return p.list(depth, '/', "AND", p.term) }

// refSentence: is the WHOLE string a sentence, and what structure does the grammar assign?
func refSentence(s string, depth int) (string, bool) {
	p := &refP{s: s}
	e, ok := p.expression(depth)
	if !ok || p.pos != len(s) {
		return "", false
	}
	return e, true
}

func renderPath(pp PropertyPath) string {
	switch x := pp.(type) {
	case Property:
		return renderIri(x.Iri, x.Inverse, x.Transitive)
	case AndPath:
		acc := ""
		for i, e := range x.And {
			if i > 0 {
				acc += ","
			}
			acc += renderPath(e)
		}
		return "AND(" + acc + ")"
	case OrPath:
		acc := ""
		for i, e := range x.Or {
			if i > 0 {
				acc += ","
			}
			acc += renderPath(e)
		}
		return "OR(" + acc + ")"
	case NullPath:
		return "NULL"
	}
	return "?"
}

func verifParsePath(s string) (pp PropertyPath, err error, panicked bool) {
	defer func() {
		if r := recover(); r != nil {
			panicked = true
		}
	}()
	pp, err = ParsePath(s)
	return
}

func verifInput(maxLen int) string {
	n := 1 + v.Choice("len", maxLen)
	s := v.Bytes("s", n)
	for i := 0; i < n; i++ {
		v.Assume(s[i] < 0x80)
	}
	return s
}

func trimRightWs(s string) string {
	n := len(s)
	for n > 0 && isWs(s[n-1]) {
		n--
	}
	return s[:n]
}

func verifC16(maxLen int) {
	s := verifInput(maxLen)
	pp, err, panicked := verifParsePath(s)
	accepted := !panicked && err == nil
	// a sentence of the grammar, optionally followed by whitespace
	ref, sentence := refSentence(trimRightWs(s), 3)
	if accepted {
		v.Reach("accepted")
		v.Assert("C16.accept-only-sentences", sentence)
		if sentence {
			v.Reach("accepted-sentence")
			v.Assert("C16.structure", renderPath(pp) == ref)
			v.Assert("C16.source-kept", pp.Source() == s)
		}
	} else {
		v.Reach("rejected")
		v.Assert("C16.reject-is-error", !panicked && err != nil)
		v.Assert("C16.sentences-accepted", !sentence)
	}
}

// VerifC16Parse3 / 4 / 5: all ASCII strings up to the given length.
func VerifC16Parse3() { verifC16(3) }
func VerifC16Parse4() { verifC16(4) }
func VerifC16Parse5() { verifC16(5) }
func VerifC16Parse6() { verifC16(6) }
func VerifC16Parse7() { verifC16(7) }

// VerifC16Variants: redundant parentheses and optional whitespace do not change the structure.
func verifC16Variants(maxLen int) {
	s := verifInput(maxLen)
	ref, sentence := refSentence(s, 2)
	v.Assume(sentence)
	v.Reach("sentence")
	for _, variant := range []string{"(" + s + ")", "( " + s + " )", "((" + s + "))"} {
		pp, err, panicked := verifParsePath(variant)
		v.Assert("C16.parens-invariant.accepted", !panicked && err == nil)
		if !panicked && err == nil {
			v.Assert("C16.parens-invariant", renderPath(pp) == ref)
		}
	}
}

func VerifC16Variants3() { verifC16Variants(3) }
func VerifC16Variants4() { verifC16Variants(4) }
func VerifC16Variants5() { verifC16Variants(5) }

var verifSentences = []string{"a.b", "a.b^", "(a.b)", "@type", "a.b / c.d", "a.b | c.d", "a.b / (c.d | e.f^)", "( a.b )", "a.b\t/\nc.d", "x-1.y_2/z"}

// VerifC16Edits: every single-byte edit (insert / replace / delete at any position) of a set
// of sentences, and every two-byte tail appended to them, with the edited bytes symbolic.
func VerifC16Edits() {
	base := verifSentences[v.Choice("sentence", len(verifSentences))]
	kind := v.Choice("edit", 4)
	var s string
	switch kind {
	case 0: // insert one arbitrary byte
		pos := v.Choice("pos", len(base)+1)
		s = base[:pos] + v.Bytes("b", 1) + base[pos:]
	case 1: // replace one byte
		pos := v.Choice("pos", len(base))
		s = base[:pos] + v.Bytes("b", 1) + base[pos+1:]
	case 2: // delete one byte
		pos := v.Choice("pos", len(base))
		s = base[:pos] + base[pos+1:]
	default: // append two arbitrary bytes
		s = base + v.Bytes("b", 2)
	}
	for i := 0; i < len(s); i++ {
		v.Assume(s[i] < 0x80)
	}
	// what a string is does not depend on what was parsed before it: the sentence the string was
	// made from, or a sentence with the same characters apart from blanks, may have been parsed first
	switch v.Choice("history", 3) {
	case 1:
		verifParsePath(base)
	case 2:
		verifParsePath(base)
		verifParsePath("a.b / c.d")
		verifParsePath("a.b/c.d")
	}
	pp, err, panicked := verifParsePath(s)
	accepted := !panicked && err == nil
	ref, sentence := refSentence(trimRightWs(s), 3)
	if accepted {
		v.Reach("accepted")
		v.Assert("C16.accept-only-sentences", sentence)
		if sentence {
			v.Assert("C16.structure", renderPath(pp) == ref)
			v.Assert("C16.source-kept", pp.Source() == s)
		}
	} else {
		v.Reach("rejected")
		v.Assert("C16.reject-is-error", !panicked && err != nil)
		v.Assert("C16.sentences-accepted", !sentence)
	}
}

// verifC16Compose: two or three concrete predicates (repeats included) glued by symbolic bytes:
// an optional modifier byte (one of ^ blank * ) |) after each predicate and one operator byte (one of
// | / blank ^ ( )) between predicates.
// Reaches sentences of 7..13 characters such as `a.b|a.b^` or `a.b/c.d|a.b` that the
// all-strings harnesses cannot reach, with the operators and modifiers left to the solver.
func verifC16Compose(operands int) {
	pool := []string{"a.b", "c.d"}
	s := ""
	for k := 0; k < operands; k++ {
		if k > 0 {
			op := v.Bytes(fmt.Sprintf("op%d", k), 1)
			v.Assume(op[0] == '|' || op[0] == '/' || op[0] == ' ' || op[0] == '^' || op[0] == '(' || op[0] == ')')
			s += op
		}
		s += pool[v.Choice(fmt.Sprintf("pred%d", k), len(pool))]
		mod := v.Bytes(fmt.Sprintf("mod%d", k), v.Choice(fmt.Sprintf("modlen%d", k), 2))
		if len(mod) == 1 {
			v.Assume(mod[0] == '^' || mod[0] == ' ' || mod[0] == '*' || mod[0] == ')' || mod[0] == '|')
		}
		s += mod
	}
	pp, err, panicked := verifParsePath(s)
	accepted := !panicked && err == nil
	ref, sentence := refSentence(trimRightWs(s), 3)
	if accepted {
		v.Reach("accepted")
		v.Assert("C16.accept-only-sentences", sentence)
		if sentence {
			v.Assert("C16.structure", renderPath(pp) == ref)
			v.Assert("C16.source-kept", pp.Source() == s)
		}
	} else {
		v.Reach("rejected")
		v.Assert("C16.reject-is-error", !panicked && err != nil)
		v.Assert("C16.sentences-accepted", !sentence)
	}
}

func VerifC16Compose2() { verifC16Compose(2) }
func VerifC16Compose3() { verifC16Compose(3) }


// VerifC16LongGaps: strings far longer than the symbolic bounds - a sentence, a long run of white
// space (around 16, 32, 64 and 256 bytes) and then more text: accepted exactly when the whole is
// a sentence (white space may end a path, nothing else may follow).
func VerifC16LongGaps() {
	heads := []string{"(a.b)", "a.b", "@type", "a.b^", "a.b / c.d", "( a.b | c.d )"}
	gaps := []int{15, 16, 17, 31, 32, 33, 63, 64, 65, 255, 256, 257}
	tails := []string{"", ") junk", "/ c.d", "| (", "x", ",", "/", "^"}
	head := heads[v.Choice("head", len(heads))]
	gap := gaps[v.Choice("gap", len(gaps))]
	tail := tails[v.Choice("tail", len(tails))]
	ws := []string{" ", " \t\r\n"}[v.Choice("ws", 2)]
	blank := ""
	for len(blank) < gap {
		blank += ws
	}
	s := head + blank[:gap] + tail
	pp, err, panicked := verifParsePath(s)
	accepted := !panicked && err == nil
	ref, sentence := refSentence(trimRightWs(s), 3)
	v.Reach("parsed")
	if accepted {
		v.Assert("C16.accept-only-sentences", sentence)
		if sentence {
			v.Assert("C16.structure", renderPath(pp) == ref)
		}
	} else {
		v.Assert("C16.reject-is-error", !panicked && err != nil)
		v.Assert("C16.sentences-accepted", !sentence)
	}
}
