//go:build verif

package path

import (
	v "github.com/aml-org/amf-custom-validator/internal/zzverif"
)

func VerifDebugParse() {
	p, err := Parse("", []byte("apiContract.path"), Recover(false))
	v.Note("res", "x")
	_ = p
	if err != nil {
		panic(err.Error())
	}
}
