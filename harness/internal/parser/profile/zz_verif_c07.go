//go:build verif

package profile

import (
	v "github.com/aml-org/amf-custom-validator/internal/zzverif"
)

// VerifC07Genvar: one inductive step of Genvar from an arbitrary counter state.
func VerifC07Genvar() {
	c := v.Int("counter", 0, 1000)
	globalGenerator.counter = c
	name := Genvar("x")
	v.Reach("named")
	v.Assert("C07.genvar-step.post", globalGenerator.counter == c+1)
	name2 := Genvar("x")
	v.Assert("C07.genvar-step.distinct", name != name2)
}

func VerifSmoke() {
	a := v.Int("a", 0, 10)
	b := v.Int("b", 0, 10)
	if a+b == 7 {
		v.Reach("seven")
		v.Assert("smoke.a-le-7", a <= 7)
		v.Assert("smoke.a-ne-3", a != 3)
	}
	s := v.Bytes("s", 2)
	if s == "ab" {
		v.Reach("ab")
	}
	t := "x" + s + "y"
	v.Assert("smoke.len", len(t) == 4)
	v.Assert("smoke.first", t[0] == 'x')
	v.Assert("smoke.notq", t[1] != '"')
}
