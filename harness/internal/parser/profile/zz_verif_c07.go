//go:build verif

package profile

import (
	"github.com/aml-org/amf-custom-validator/internal/parser/path"
	v "github.com/aml-org/amf-custom-validator/internal/zzverif"
)

// VerifVarGeneratorAt returns a variable generator in an arbitrary state.
func VerifVarGeneratorAt(counter int) VarGenerator {
	g := NewVarGenerator()
	g.counter = counter
	return g
}

// VerifNewNested builds a nested expression exactly as the parser does.
func VerifNewNested(negated bool, parent Variable, p path.PropertyPath, g *VarGenerator, inner func(child Variable) Rule) NestedExpression {
	n := newNestedExpression(negated, parent, p, g)
	n.Value = inner(n.Child)
	return n
}

// VerifMinCount builds the atom `minCount n` on a path, as the parser does.
func VerifMinCount(variable Variable, p path.PropertyPath, n int) Rule {
	return newMinCount(false, variable, p, n)
}

// VerifSetGenvarCounter puts the process-wide identifier counter in an arbitrary state.
func VerifSetGenvarCounter(c int) { genvarCounter = int64(c) }

// VerifGenvarCounter reads it back.
func VerifGenvarCounter() int { return int(genvarCounter) }

// VerifCounterState returns an arbitrary counter state: a boundary base plus a symbolic
// offset (decimal rendering forces the executor to enumerate the offset).
func VerifCounterState() int {
	bases := []int{0, 90, 9990, 999990, 1<<31 - 8, 1<<53 - 8, 1<<62 - 8}
	return bases[v.Choice("counterBase", len(bases))] + v.Int("counterOffset", 0, 15)
}

// VerifC07Genvar: one inductive step of Genvar from an arbitrary counter state.
func VerifC07Genvar() {
	c := VerifCounterState()
	VerifSetGenvarCounter(c)
	name := Genvar("x")
	v.Reach("named")
	v.Assert("C07.genvar-step.post", VerifGenvarCounter() == c+1)
	name2 := Genvar("x")
	v.Assert("C07.genvar-step.distinct", name != name2)
	v.Assert("C07.genvar-step.post2", VerifGenvarCounter() == c+2)
	for i := 0; i < len(name); i++ {
		ch := name[i]
		v.Assert("C07.genvar-identifier", ch == '_' || (ch >= 'a' && ch <= 'z') || (ch >= 'A' && ch <= 'Z') || (ch >= '0' && ch <= '9'))
	}
}
