//go:build verif

// Package zzverif is the harness-side API of the /verif symbolic executor.
// Under gosym every function here is intercepted by name; the bodies below are
// the native replay implementation: they read the solver's model from the JSON
// file named by $VERIF_REPLAY so that the very same harness function re-runs
// against the natively compiled code.
package zzverif

import (
	"encoding/json"
	"fmt"
	"os"
)

type replay struct {
	Harness string                 `json:"harness"`
	Inputs  map[string]interface{} `json:"inputs"`
}

var (
	loaded  bool
	rp      replay
	counts  = map[string]int{}
	Failed  []string
	Reached []string
)

func load() {
	if loaded {
		return
	}
	loaded = true
	p := os.Getenv("VERIF_REPLAY")
	if p == "" {
		return
	}
	b, err := os.ReadFile(p)
	if err != nil {
		panic(err)
	}
	if err := json.Unmarshal(b, &rp); err != nil {
		panic(err)
	}
}

func uniq(name string) string {
	n := counts[name]
	counts[name] = n + 1
	if n == 0 {
		return name
	}
	return fmt.Sprintf("%s#%d", name, n)
}

func get(name string) (interface{}, bool) {
	load()
	v, ok := rp.Inputs[uniq(name)]
	return v, ok
}

// Symbolic reports whether the harness runs under the symbolic executor.
func Symbolic() bool { return false }

// Int returns an arbitrary int in [lo, hi].
func Int(name string, lo, hi int) int {
	if v, ok := get(name); ok {
		return int(v.(float64))
	}
	return lo
}

// Bool returns an arbitrary bool.
func Bool(name string) bool {
	if v, ok := get(name); ok {
		return v.(bool)
	}
	return false
}

// Choice returns an arbitrary value in [0, n); every value is a separate path.
func Choice(name string, n int) int {
	if v, ok := get(name); ok {
		return int(v.(float64))
	}
	return 0
}

// Bytes returns a string of n arbitrary bytes.
func Bytes(name string, n int) string {
	b := make([]byte, n)
	if v, ok := get(name); ok {
		for i, x := range v.([]interface{}) {
			if i < n {
				b[i] = byte(x.(float64))
			}
		}
	}
	return string(b)
}

// AssumeFalse is the panic value used when a replayed input violates an assumption.
type AssumeFalse struct{}

// Assume restricts the inputs; it must precede the code it constrains.
func Assume(c bool) {
	if !c {
		fmt.Println("VERIF_ASSUME_FALSE")
		panic(AssumeFalse{})
	}
}

// Assert states a property; label identifies it in reports and known findings.
func Assert(label string, c bool) {
	if !c {
		Failed = append(Failed, label)
		fmt.Printf("VERIF_ASSERT_FAILED label=%s\n", label)
	}
}

// Reach marks a program point that must be reachable (vacuity witness).
func Reach(label string) {
	Reached = append(Reached, label)
}

// MapOrder switches exploration of all map iteration orders on or off.
func MapOrder(on bool) {}

// Note attaches a key/value to the current path (shown in samples and violations).
func Note(key, val string) {}

// Flag reads a fault flag set by an environment stub during symbolic execution.
// Natively there are no stubs: the flag is whatever the model recorded.
func Flag(name string) bool {
	load()
	if v, ok := rp.Inputs["flag:"+name]; ok {
		return v.(bool)
	}
	return false
}

// TrackWrites switches recording of stores to package-level state on or off.
func TrackWrites(on bool) {}

// GlobalWrites returns the number of stores to package-level state recorded so far.
func GlobalWrites() int { return 0 }
