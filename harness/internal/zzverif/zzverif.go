//go:build verif

// Package zzverif is the harness-side API of the /verif symbolic executor.
// Under gosym every function here is intercepted by name; the bodies below are
// the native replay implementation: they read the solver's model from the JSON
// file named by $VERIF_REPLAY so that the very same harness function re-runs
// against the natively compiled code.
package zzverif

import (
	"bytes"
	"context"
	"encoding/json"
	"fmt"
	"os"
	"os/exec"
	"path/filepath"
	"runtime/debug"
	"strings"

	"github.com/open-policy-agent/opa/rego"
)

type replay struct {
	Harness string                 `json:"harness"`
	Inputs  map[string]interface{} `json:"inputs"`
}

var (
	loaded  bool
	rp      replay
	counts  = map[string]int{}
	Failed  []string
	Reached []string
)

func load() {
	if loaded {
		return
	}
	loaded = true
	p := os.Getenv("VERIF_REPLAY")
	if p == "" {
		return
	}
	b, err := os.ReadFile(p)
	if err != nil {
		panic(err)
	}
	if err := json.Unmarshal(b, &rp); err != nil {
		panic(err)
	}
}

func uniq(name string) string {
	n := counts[name]
	counts[name] = n + 1
	if n == 0 {
		return name
	}
	return fmt.Sprintf("%s#%d", name, n)
}

func get(name string) (interface{}, bool) {
	load()
	v, ok := rp.Inputs[uniq(name)]
	return v, ok
}

// Symbolic reports whether the harness runs under the symbolic executor.
func Symbolic() bool { return false }

// Int returns an arbitrary int in [lo, hi].
func Int(name string, lo, hi int) int {
	if v, ok := get(name); ok {
		return int(v.(float64))
	}
	return lo
}

// Bool returns an arbitrary bool.
func Bool(name string) bool {
	if v, ok := get(name); ok {
		return v.(bool)
	}
	return false
}

// Deep reports whether the check runs in its thorough tier: harnesses widen their bounds then.
// A replay reads the tier of the run that found the counterexample.
func Deep() bool {
	load()
	if v, ok := rp.Inputs["deep"]; ok {
		if f, isNum := v.(float64); isNum {
			return f == 1
		}
	}
	return false
}

// Choice returns an arbitrary value in [0, n); every value is a separate path.
func Choice(name string, n int) int {
	if v, ok := get(name); ok {
		return int(v.(float64))
	}
	return 0
}

// Bytes returns a string of n arbitrary bytes.
func Bytes(name string, n int) string {
	b := make([]byte, n)
	if v, ok := get(name); ok {
		for i, x := range v.([]interface{}) {
			if i < n {
				b[i] = byte(x.(float64))
			}
		}
	}
	return string(b)
}

// AssumeFalse is the panic value used when a replayed input violates an assumption.
type AssumeFalse struct{}

// Assume restricts the inputs; it must precede the code it constrains.
func Assume(c bool) {
	if !c {
		fmt.Println("VERIF_ASSUME_FALSE")
		panic(AssumeFalse{})
	}
}

// Assert states a property; label identifies it in reports and known findings.
func Assert(label string, c bool) {
	if !c {
		Failed = append(Failed, label)
		fmt.Printf("VERIF_ASSERT_FAILED label=%s\n", label)
	}
}

// Reach marks a program point that must be reachable (vacuity witness).
func Reach(label string) {
	Reached = append(Reached, label)
}

// MapOrder switches exploration of all map iteration orders on or off.
func MapOrder(on bool) {}

// Note attaches a key/value to the current path (shown in samples and violations).
func Note(key, val string) {}

// Flag reads a fault flag set by an environment stub during symbolic execution.
// Natively there are no stubs: the flag is whatever the model recorded.
func Flag(name string) bool {
	load()
	if v, ok := rp.Inputs["flag:"+name]; ok {
		return v.(bool)
	}
	return false
}

// TrackWrites switches recording of stores to package-level state on or off.
func TrackWrites(on bool) {}

// GlobalWrites returns the number of stores to package-level state recorded so far.
func GlobalWrites() int { return 0 }

// ---- environment model API (meaningful only under the symbolic executor) ----

func StubOn(name string)                                   {}
func SetLibResult(name string, text string, fail bool)     {}
func SetArgs(args []string)                                {}
func FSPut(path string, content string, readonly bool)     {}
func FSGet(path string) (string, bool)                     { return "", false }
func Stdout() string                                       { return "" }
func Stderr() string                                       { return "" }
func ExitCode() int                                        { return -1 }
func Log() []string                                        { return nil }
func LastEncoded() interface{}                             { return nil }
func SetFlattenResult(v interface{})                       {}
func SetEvalResult(v interface{})                          {}
func RegoNewCount() int                                    { return 0 }
func RegoNewOption(i int, key string) interface{}          { return nil }

// RegoCompiles reports whether the linked OPA accepts the module text.
func RegoCompiles(code string) bool {
	_, err := rego.New(rego.Query("data"), rego.Module("m.rego", code)).PrepareForEval(context.Background())
	return err == nil
}

// ReplayInput returns a raw replay input (native twins of stubbed harnesses).
func ReplayInput(name string) (interface{}, bool) {
	load()
	v, ok := rp.Inputs[name]
	return v, ok
}

// ReplayBytes returns a byte-string input recorded by the solver.
func ReplayBytes(name string) []byte {
	v, ok := ReplayInput(name)
	if !ok {
		return nil
	}
	var b []byte
	for _, x := range v.([]interface{}) {
		b = append(b, byte(x.(float64)))
	}
	return b
}

// ReplayInt returns an int/choice input (0 when absent).
func ReplayInt(name string) int {
	if v, ok := ReplayInput(name); ok {
		return int(v.(float64))
	}
	return 0
}

// ReplayBool returns a bool input (false when absent).
func ReplayBool(name string) bool {
	if v, ok := ReplayInput(name); ok {
		return v.(bool)
	}
	return false
}

// RepoRoot locates the repository root from the test's working directory.
func RepoRoot() string {
	d, _ := os.Getwd()
	for i := 0; i < 8; i++ {
		if _, err := os.Stat(filepath.Join(d, "go.mod")); err == nil {
			return d
		}
		d = filepath.Dir(d)
	}
	return "/repo"
}

// BuildACV builds the real CLI from the working tree into dir and returns its path.
func BuildACV(dir string) string {
	bin := filepath.Join(dir, "acv")
	cmd := exec.Command("go", "build", "-o", bin, "./cmd")
	cmd.Dir = RepoRoot()
	out, err := cmd.CombinedOutput()
	if err != nil {
		panic(fmt.Sprintf("building acv failed: %v\n%s", err, out))
	}
	return bin
}

// RunCmd runs a command and returns stdout, stderr and the exit status.
func RunCmd(dir string, name string, args ...string) (string, string, int) {
	cmd := exec.Command(name, args...)
	cmd.Dir = dir
	var so, se bytes.Buffer
	cmd.Stdout, cmd.Stderr = &so, &se
	err := cmd.Run()
	code := 0
	if err != nil {
		if ee, ok := err.(*exec.ExitError); ok {
			code = ee.ExitCode()
		} else {
			code = -1
		}
	}
	return so.String(), se.String(), code
}

// Scope prefixes the names of the fault flags created by stubs from now on.
func Scope(name string) {}

// ScopeShared is Scope for a scope that stands for one input (one document, one profile text):
// stubs consulted again under the same scope repeat the outcome they chose before, so "the same
// document meets the same stage outcomes" holds by construction rather than by an assumption
// over flags that a shortcut in the code under test may never create.
func ScopeShared(name string) {}

// GlobalResets lists atomic stores / compare-and-swaps on package-level state recorded so far
// (race-free, yet visible to every other call in flight).
func GlobalResets() []string { return nil }

// WriteLog lists the recorded stores to package-level state.
func WriteLog() []string { return nil }

// Faults switches the fault flags of the environment stubs on or off (default on).
func Faults(on bool) {}

// PanicSite names the function in which the panic being recovered was raised; call it
// from the deferred function right after recover().
func PanicSite() string {
	lines := strings.Split(string(debug.Stack()), "\n")
	for i, l := range lines {
		if !strings.HasPrefix(l, "panic(") {
			continue
		}
		// the innermost frame of the repository's own code (a panic raised inside a dependency is
		// attributed to the repository function that called into it, as the symbolic executor does)
		first := ""
		for j := i + 2; j < len(lines); j += 2 {
			fn := strings.TrimSpace(lines[j])
			if k := strings.LastIndex(fn, "("); k > 0 {
				fn = fn[:k]
			}
			if strings.HasPrefix(fn, "runtime.") || strings.HasPrefix(fn, "panic") {
				continue
			}
			if first == "" {
				first = fn
			}
			if strings.Contains(fn, "amf-custom-validator/") && !strings.Contains(fn, "/zzverif.") {
				return normSite(fn)
			}
		}
		if first != "" {
			return normSite(first)
		}
	}
	return "unknown"
}

func normSite(s string) string {
	s = strings.NewReplacer("(*", "", "(", "", ")", "", "*", "").Replace(s)
	if i := strings.LastIndex(s, "/"); i >= 0 {
		s = s[i+1:]
	}
	if i := strings.Index(s, "$"); i >= 0 {
		s = s[:i]
	}
	for strings.HasSuffix(s, ".func1") || strings.HasSuffix(s, ".1") {
		s = s[:strings.LastIndex(s, ".")]
	}
	return s
}

// MapOrderGlobal explores only whole-program map order policies (all maps reversed / rotated).
func MapOrderGlobal(on bool) {}
