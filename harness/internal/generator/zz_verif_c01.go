//go:build verif

package generator

import (
	"fmt"
	"strconv"
	"strings"

	"github.com/aml-org/amf-custom-validator/internal/parser/profile"
	v "github.com/aml-org/amf-custom-validator/internal/zzverif"
)

// mirror tree for the classical reference semantics (truth values are 0/1 ints so that
// the connectives are bit operations on solver terms and never fork)
type verifF struct {
	kind int // 0 atom 1 not 2 and 3 or 4 if-then 5 if-then-else
	kids []*verifF
	atom int
}

func (f *verifF) eval(a []int) int {
	switch f.kind {
	case 0:
		return a[f.atom]
	case 1:
		return 1 ^ f.kids[0].eval(a)
	case 2:
		r := 1
		for _, k := range f.kids {
			r &= k.eval(a)
		}
		return r
	case 3:
		r := 0
		for _, k := range f.kids {
			r |= k.eval(a)
		}
		return r
	case 4:
		return (1 ^ f.kids[0].eval(a)) | f.kids[1].eval(a)
	default:
		c := f.kids[0].eval(a)
		return ((1 ^ c) | f.kids[1].eval(a)) & (c | f.kids[2].eval(a))
	}
}

func (f *verifF) String() string {
	switch f.kind {
	case 0:
		return fmt.Sprintf("a%d", f.atom)
	case 1:
		return "not(" + f.kids[0].String() + ")"
	}
	names := []string{"", "", "and", "or", "if", "ite"}
	var parts []string
	for _, k := range f.kids {
		parts = append(parts, k.String())
	}
	return names[f.kind] + "(" + strings.Join(parts, ",") + ")"
}

type verifBuilder struct {
	x      profile.Variable
	atoms  int
	width  int
	spine  bool
}

// build chooses a formula shape nondeterministically and constructs it through the
// real constructors, with exactly the calls the parser makes.
func (b *verifBuilder) build(depth int) (profile.Rule, *verifF) {
	kind := 0
	if depth > 0 {
		kind = v.Choice("kind", 6)
	}
	kid := func(i int) (profile.Rule, *verifF) {
		if b.spine && i > 0 {
			return b.build(0) // only the first operand is deep
		}
		return b.build(depth - 1)
	}
	switch kind {
	case 0:
		i := b.atoms
		b.atoms++
		return profile.VerifMinCount(b.x, mustPath(fmt.Sprintf("ex.p%d", i)), 1), &verifF{kind: 0, atom: i}
	case 1:
		r, f := kid(0)
		return r.Negate(), &verifF{kind: 1, kids: []*verifF{f}} // parseNot
	case 2, 3:
		w := 2
		if b.width > 2 {
			w = 2 + v.Choice("width", b.width-1)
		}
		var rs []profile.Rule
		var fs []*verifF
		for i := 0; i < w; i++ {
			r, f := kid(i)
			rs = append(rs, r)
			fs = append(fs, f)
		}
		if kind == 2 {
			return profile.NewAnd(false, rs), &verifF{kind: 2, kids: fs}
		}
		return profile.NewOr(false, rs), &verifF{kind: 3, kids: fs}
	case 4:
		r0, f0 := kid(0)
		r1, f1 := kid(1)
		return profile.NewConditional(false, r0, r1), &verifF{kind: 4, kids: []*verifF{f0, f1}}
	default:
		r0, f0 := kid(0)
		r1, f1 := kid(1)
		r2, f2 := kid(2)
		return profile.NewIfThenElseConditional(false, r0, r1, r2), &verifF{kind: 5, kids: []*verifF{f0, f1, f2}}
	}
}

// leafFails reads one generated leaf: which atom it is about and whether the leaf's
// check fails when the atom holds (negated leaf) or when it does not.
func leafFails(r SimpleRegoResult, a []int) int {
	const pfx = "http://example.org/p"
	atom, err := strconv.Atoi(strings.TrimPrefix(r.Path, pfx))
	v.Assert("C01.leaf-identifiable", strings.HasPrefix(r.Path, pfx) && err == nil && atom < len(a))
	last := r.Rego[len(r.Rego)-1]
	if strings.HasPrefix(last, "not ") {
		return 1 ^ a[atom] // "not count(..) >= 1": fails when the atom is false
	}
	return a[atom] // negated atom: fails when the atom is true
}

func verifC01(depth, width int, spine bool) {
	b := &verifBuilder{x: profile.Variable{Name: "x"}, width: width, spine: spine}
	rule, mirror := b.build(depth)
	v.Note("formula", mirror.String())
	v.Reach("tree-built")
	a := make([]int, b.atoms)
	for i := range a {
		a[i] = v.Int(fmt.Sprintf("a%d", i), 0, 1)
	}
	exp := IriExpanderFrom(verifProfileOf(nil))
	// what generateTopLevel does
	results := Dispatch(rule, exp)
	v.Reach("dispatched")
	reported := 0
	for _, res := range results {
		branchFails := 1
		switch r := res.(type) {
		case SimpleRegoResult:
			branchFails = leafFails(r, a)
		case BranchRegoResult:
			for _, leaf := range r.Branch {
				branchFails &= leafFails(leaf, a)
			}
		}
		reported |= branchFails
	}
	v.Assert("C01.dnf-eq-negformula", reported == 1^mirror.eval(a))
}

func VerifC01Skeleton1()      { verifC01(1, 2, false) }
func VerifC01Skeleton2()      { verifC01(2, 2, false) }
func VerifC01Skeleton2W3()    { verifC01(2, 3, false) }
func VerifC01Skeleton2W4()    { verifC01(2, 4, false) }
func VerifC01SkeletonSpine3() { verifC01(3, 2, true) }
func VerifC01SkeletonSpine4() { verifC01(4, 2, true) }
