//go:build verif

package generator

import (
	"strings"

	"github.com/aml-org/amf-custom-validator/internal/parser/path"
	"github.com/aml-org/amf-custom-validator/internal/parser/profile"
	v "github.com/aml-org/amf-custom-validator/internal/zzverif"
)

func verifTop(value profile.Rule) profile.TopLevelExpression {
	x := profile.Variable{Name: "x"}
	return profile.TopLevelExpression{
		Expression:     profile.Expression{BaseStatement: profile.BaseStatement{Name: "v1"}, Variable: &x, Value: value},
		Message:        profile.Message{Expression: "m"},
		Level:          "violation",
		ClassGenerator: "ex.C",
	}
}

func verifProfileOf(rule profile.Rule) profile.Profile {
	p := profile.NewProfile()
	p.Name = "t"
	p.Prefixes = profile.ProfileContext{"ex": "http://example.org/"}
	p.Violation = []profile.Rule{verifTop(rule)}
	return p
}

func mustPath(s string) path.PropertyPath {
	p, err := path.ParsePath(s)
	if err != nil {
		panic(err)
	}
	return p
}

// VerifC07VarNames: the k-th quantified variable (k symbolic) and every name the
// translator derives from it yield a module the engine accepts.
func VerifC07VarNames() {
	c := v.Int("counter", 0, 40)
	g := profile.VerifVarGeneratorAt(c)
	quant := v.Choice("quantifier", 2)
	parent := profile.Variable{Name: "x"}
	p := mustPath("ex.p")
	nested := profile.VerifNewNested(false, parent, p, &g, func(child profile.Variable) profile.Rule {
		return profile.NewAnd(false, []profile.Rule{profile.VerifMinCount(child, mustPath("ex.q"), 1)})
	})
	if quant == 1 {
		nested.Child.Quantification = profile.Exists
		nested.Child.Cardinality = &profile.VariableCardinality{Operator: profile.GTEQ, Value: 1}
	}
	v.Note("child", nested.Child.Name)
	unit := Generate(verifProfileOf(profile.NewAnd(false, []profile.Rule{nested})))
	v.Reach("generated")
	v.Assert("C07.module-compiles.quantified-variable", v.RegoCompiles(unit.Code))
}

// VerifC07GenvarNames: identifiers built from the process-wide counter (arbitrary
// state) give a module the engine accepts, for every constraint kind using them.
func VerifC07GenvarNames() {
	profile.VerifSetGenvarCounter(profile.VerifCounterState())
	x := profile.Variable{Name: "x"}
	unit := Generate(verifProfileOf(profile.NewAnd(false, []profile.Rule{profile.VerifMinCount(x, mustPath("ex.p / ex.q"), 1)})))
	v.Reach("generated")
	// the counter only appears as a decimal suffix: any value gives the same module modulo digits
	v.Assert("C07.module-compiles.genvar", v.RegoCompiles(unit.Code))
}

var verifPathShapes = []string{
	"ex.a", "ex.a^", "ex.a / ex.b", "ex.a | ex.b", "ex.a / ex.b / ex.c", "ex.a | ex.b | ex.c",
	"ex.a / (ex.b | ex.c)", "(ex.a | ex.b) / ex.c", "ex.a^ / ex.b", "ex.a / ex.b^", "ex.a / (ex.b^ | ex.c^)",
	"(ex.a / ex.b) | (ex.c / ex.a)", "ex.a / @type", "(ex.a | ex.b) / (ex.c | ex.a)", "ex.a^ | ex.b^",
	"ex.a / (ex.b / ex.c | ex.a) / ex.b", "((ex.a))", "ex.a / ((ex.b | ex.c) / ex.a | ex.b)",
	"ex.a | (ex.b | ex.c)", "(ex.a | ex.b) | ex.c", "(ex.a / ex.b | ex.c) | ex.b", "ex.a / (ex.b / ex.c)", "(ex.a / ex.b) / ex.c", "ex.c | (ex.a / (ex.b | ex.c^))",
	"ex.a / ex.b / (ex.c | ex.a) / ex.b", "ex.a / ex.b / ex.c / (ex.a^ | ex.b | ex.c^) / ex.a", "ex.a / (ex.b | ex.c) / (ex.a | ex.b) / ex.c",
	// long paths: many steps before an alternative (the generated clause grows past the sizes at which
	// slices get spare capacity), wide alternatives, an alternative at every other step
	"ex.a / ex.b / ex.c / ex.a / ex.b / ex.c / ex.a / ex.b / (ex.c^ | ex.a^)",
	"ex.a / ex.b / ex.c / ex.a / ex.b / ex.c / ex.a / ex.b / ex.c / ex.a / ex.b / (ex.c | ex.a^ | ex.b^) / ex.c",
	"ex.a^ / ex.b^ / ex.c^ / ex.a^ / ex.b^ / ex.c^ / ex.a^ / ex.b^ / ex.c^ / ex.a^ / ex.b^ / ex.c^ / ex.a^ / ex.b^ / ex.c^ / ex.a^ / (ex.b^ | ex.c^)",
	"ex.a | ex.b | ex.c | ex.a^ | ex.b^ | ex.c^ | (ex.a / ex.b) | (ex.b / ex.c) | (ex.c / ex.a)",
	"(ex.a | ex.b^) / ex.c / (ex.a^ | ex.b) / ex.c / (ex.a | ex.c^) / ex.b",
}

func lhsIdent(line string) (string, bool) {
	l := strings.TrimSpace(line)
	i := strings.Index(l, " = ")
	if i <= 0 {
		return "", false
	}
	id := l[:i]
	for k := 0; k < len(id); k++ {
		ch := id[k]
		if !(ch == '_' || (ch >= 'a' && ch <= 'z') || (ch >= 'A' && ch <= 'Z') || (ch >= '0' && ch <= '9')) {
			return "", false
		}
	}
	return id, true
}

// VerifC07PathBindings: identifiers bound inside one clause of a path rule are pairwise
// distinct, the clause count is the number of alternatives, and every mode compiles.
func VerifC07PathBindings() {
	shape := verifPathShapes[v.Choice("shape", len(verifPathShapes))]
	mode := v.Choice("mode", 3)
	exp := IriExpanderFrom(verifProfileOf(nil))
	p := mustPath(shape)
	v.Note("shape", shape)
	clauses := traversePath(p, "x", mode == 1, exp)
	v.Reach("traversed")
	for _, cl := range clauses {
		seen := map[string]bool{}
		for _, line := range cl.rego {
			if id, ok := lhsIdent(line); ok && id != "nodes" {
				v.Assert("C07.bindings-distinct", !seen[id])
				seen[id] = true
			}
		}
	}
	v.Assert("C02.clause-count", len(clauses) == verifAlternatives(p))
	for i := range clauses {
		for j := i + 1; j < len(clauses); j++ {
			v.Assert("C02.clauses-distinct", strings.Join(clauses[i].rego, "\n") != strings.Join(clauses[j].rego, "\n"))
		}
	}
	x := profile.Variable{Name: "x"}
	var rule profile.Rule
	switch mode {
	case 0:
		rule = profile.VerifMinCount(x, p, 1)
	case 1:
		g := profile.VerifVarGeneratorAt(1)
		rule = profile.VerifNewNested(false, x, p, &g, func(child profile.Variable) profile.Rule {
			return profile.NewAnd(false, []profile.Rule{profile.VerifMinCount(child, mustPath("ex.q"), 1)})
		})
	default:
		rule = profile.UniqueValuesRule{AtomicStatement: profile.AtomicStatement{BaseStatement: profile.BaseStatement{Name: "uniqueValues"}, Variable: x, Path: p}, Argument: true}
	}
	unit := Generate(verifProfileOf(profile.NewAnd(false, []profile.Rule{rule})))
	if mode == 2 {
		v.Assert("C07.module-compiles.uniqueValues-path", v.RegoCompiles(unit.Code))
	} else {
		v.Assert("C07.module-compiles.path", v.RegoCompiles(unit.Code))
	}
}

// verifAlternatives counts the alternatives of the path's disjunctive normal form.
func verifAlternatives(p path.PropertyPath) int {
	switch x := p.(type) {
	case path.AndPath:
		n := 1
		for _, e := range x.And {
			n *= verifAlternatives(e)
		}
		return n
	case path.OrPath:
		n := 0
		for _, e := range x.Or {
			n += verifAlternatives(e)
		}
		return n
	}
	return 1
}
