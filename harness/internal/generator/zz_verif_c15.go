//go:build verif

package generator

import (
	"strings"

	"github.com/aml-org/amf-custom-validator/internal/parser/path"
	"github.com/aml-org/amf-custom-validator/internal/parser/profile"
	v "github.com/aml-org/amf-custom-validator/internal/zzverif"
)

// VerifC15CustomByNamespace: whether a path step is compiled as a custom-domain-property lookup is
// decided by the namespace its prefix is bound to, not by the name of the prefix: the built-in name
// apiExt, a name of the profile's own for the same namespace, and the built-in name bound to another
// namespace by the profile.
func VerifC15CustomByNamespace() {
	const apiExt = "http://a.ml/vocabularies/api-extension#"
	names := []string{"apiExt", "ext", "e-x_1", "core", "apiExtension", "apiext"}
	nss := []string{apiExt, "http://example.org/", "http://a.ml/vocabularies/core#", "http://a.ml/vocabularies/api-extension/"}
	pn := names[v.Choice("prefix", len(names))]
	prof := profile.NewProfile()
	prof.Prefixes = profile.ProfileContext{}
	declared := v.Bool("declared")
	ns := ""
	if declared {
		ns = nss[v.Choice("namespace", len(nss))]
		prof.Prefixes[pn] = ns
	}
	expander := IriExpanderFrom(prof)
	local := []string{"wadus", "a.b", "x-1"}[v.Choice("local", 3)]
	inverse := v.Bool("inverse")
	text := pn + "." + local
	if inverse {
		text += "^"
	}
	p, err := path.ParsePath(text)
	v.Assume(err == nil)
	prop, isProp := p.(path.Property)
	v.Assume(isProp)
	expanded, eerr := prop.Expanded(expander)
	v.Reach("parsed")
	want := eerr == nil && strings.HasPrefix(expanded, apiExt)
	v.Assert("C15.custom-by-namespace", prop.IsCustom(expander) == want)
	if eerr != nil {
		return
	}
	// ... and so is the code generated for the step, in every generator mode
	profile.GenReset()
	for _, r := range []RegoPathResult{GeneratePropertySet(p, "x", expander), GenerateNodeSet(p, "x", expander), GeneratePropertyArray(p, "x", expander)} {
		code := strings.Join(r.rego, "\n")
		usesExtension := strings.Contains(code, "gen_path_extension") || strings.Contains(code, "search_custom_property_subjects")
		v.Assert("C15.custom-by-namespace.code", usesExtension == want)
	}
	v.Reach("generated")
}
