//go:build verif

package generator

import (
	"strings"

	"github.com/aml-org/amf-custom-validator/internal/misc"

	"github.com/aml-org/amf-custom-validator/internal/parser/path"
	"github.com/aml-org/amf-custom-validator/internal/parser/profile"
	v "github.com/aml-org/amf-custom-validator/internal/zzverif"
)

// ---- reference scanner for Rego string literals (JSON string syntax and raw `…` strings) ----

// refRegoString scans a "…" literal starting at s[pos]. It returns the decoded
// text, the index just after the closing quote and whether the literal is legal.
func refRegoString(s string, pos int) (string, int, bool) {
	if pos >= len(s) || s[pos] != '"' {
		return "", pos, false
	}
	var out []byte
	i := pos + 1
	for i < len(s) {
		c := s[i]
		switch {
		case c == '"':
			return string(out), i + 1, true
		case c < 0x20:
			return "", i, false // raw control characters are illegal inside a Rego string
		case c == '\\':
			if i+1 >= len(s) {
				return "", i, false
			}
			e := s[i+1]
			switch e {
			case '"', '\\', '/':
				out = append(out, e)
			case 'b':
				out = append(out, '\b')
			case 'f':
				out = append(out, '\f')
			case 'n':
				out = append(out, '\n')
			case 'r':
				out = append(out, '\r')
			case 't':
				out = append(out, '\t')
			case 'u':
				// \uXXXX: a code point of the basic plane, written out as UTF-8 (a surrogate pair
				// denotes one character beyond the basic plane; a lone half is refused)
				if i+5 >= len(s) {
					return "", i, false
				}
				r := 0
				for k := 2; k <= 5; k++ {
					h, ok := hexVal(s[i+k])
					if !ok {
						return "", i, false
					}
					r = r*16 + int(h)
				}
				switch {
				case r < 0x80:
					out = append(out, byte(r))
				case r < 0x800:
					out = append(out, byte(0xC0|r>>6), byte(0x80|r&0x3F))
				case r >= 0xD800 && r < 0xDC00:
					// a high surrogate must be followed by an escaped low surrogate: one character beyond the basic plane
					if i+11 >= len(s) || s[i+6] != '\\' || s[i+7] != 'u' {
						return "", i, false
					}
					lo := 0
					for k := 8; k <= 11; k++ {
						h, ok := hexVal(s[i+k])
						if !ok {
							return "", i, false
						}
						lo = lo*16 + int(h)
					}
					if lo < 0xDC00 || lo >= 0xE000 {
						return "", i, false
					}
					cp := 0x10000 + (r-0xD800)<<10 + (lo - 0xDC00)
					out = append(out, byte(0xF0|cp>>18), byte(0x80|(cp>>12)&0x3F), byte(0x80|(cp>>6)&0x3F), byte(0x80|cp&0x3F))
					i += 6
				case r >= 0xDC00 && r < 0xE000:
					return "", i, false
				default:
					out = append(out, byte(0xE0|r>>12), byte(0x80|(r>>6)&0x3F), byte(0x80|r&0x3F))
				}
				i += 4
			default:
				return "", i, false
			}
			i += 2
		default:
			out = append(out, c)
			i++
		}
	}
	return "", i, false
}

func hexVal(c byte) (byte, bool) {
	switch {
	case c >= '0' && c <= '9':
		return c - '0', true
	case c >= 'a' && c <= 'f':
		return c - 'a' + 10, true
	case c >= 'A' && c <= 'F':
		return c - 'A' + 10, true
	}
	return 0, false
}

// refRegoRawString scans a `…` literal.
func refRegoRawString(s string, pos int) (string, int, bool) {
	if pos >= len(s) || s[pos] != '`' {
		return "", pos, false
	}
	for i := pos + 1; i < len(s); i++ {
		if s[i] == '`' {
			return s[pos+1 : i], i + 1, true
		}
	}
	return "", len(s), false
}

// refAnyString accepts either literal form.
func refAnyString(s string, pos int) (string, int, bool) {
	if pos < len(s) && s[pos] == '`' {
		return refRegoRawString(s, pos)
	}
	return refRegoString(s, pos)
}

// verifText returns a symbolic ASCII text (control characters and DEL included) of length 0..maxLen.
func verifText(name string, maxLen int) string {
	n := v.Choice(name+".len", maxLen+1)
	s := v.Bytes(name, n)
	for i := 0; i < n; i++ {
		v.Assume(s[i] < 0x80)
	}
	return s
}

// verifSprintfLiteral finds the line that formats the message and returns it with the offset of
// its format literal (the text right after "sprintf("), whatever the line assigns the result to.
func verifSprintfLiteral(lines []string) (string, int, bool) {
	for _, l := range lines {
		if i := strings.Index(l, "sprintf("); i >= 0 {
			return l, i + len("sprintf("), true
		}
	}
	return "", 0, false
}

func verifFindLine(lines []string, prefix string) (string, bool) {
	for _, l := range lines {
		if strings.HasPrefix(l, prefix) {
			return l, true
		}
	}
	return "", false
}

func verifC13ProfileName(maxLen int) {
	s := verifText("name", maxLen)
	line := profileName(profile.Profile{Name: s})
	const prefix = `report["profile"] = `
	v.Assert("C13.profileName.shape", strings.HasPrefix(line, prefix))
	lit, end, ok := refAnyString(line, len(prefix))
	v.Reach("lexed")
	v.Assert("C13.profileName.literal-closed", ok && end == len(line))
	if ok && end == len(line) {
		v.Assert("C13.profileName.roundtrip", lit == s)
	}
}

func VerifC13ProfileName2() { verifC13ProfileName(2) }
func VerifC13ProfileName3() { verifC13ProfileName(3) }
func VerifC13ProfileName4() { verifC13ProfileName(4) }

func verifBranch() BranchRegoResult {
	return BranchRegoResult{Constraint: "minCount", Branch: []SimpleRegoResult{{Constraint: "minCount", Rego: []string{"true"}, Path: "p", Variable: "x", TraceValue: "{}", TraceNode: "x"}}}
}

func verifC13ValidationName(maxLen int) {
	s := verifText("vname", maxLen)
	lines := wrapBranch(s, profile.Message{Expression: "m"}, verifBranch(), "matches", "x", nil)
	const prefix = `  matches := error(`
	line, found := verifFindLine(lines, prefix)
	v.Assert("C13.validationName.shape", found)
	lit, end, ok := refAnyString(line, len(prefix))
	v.Reach("lexed")
	v.Assert("C13.validationName.literal-closed", ok && strings.HasPrefix(line[end:], ",x, message ,["))
	if ok {
		v.Assert("C13.validationName.roundtrip", lit == s)
	}
}

func VerifC13ValidationName2() { verifC13ValidationName(2) }
func VerifC13ValidationName3() { verifC13ValidationName(3) }

// refShown is how the statement says a message is shown: double quotes as single quotes.
func refShown(s string) string {
	b := []byte(s)
	for i := range b {
		if b[i] == '"' {
			b[i] = '\''
		}
	}
	return string(b)
}

func verifC13Message(maxLen int) {
	s := verifText("msg", maxLen)
	lines := wrapBranch("n", profile.Message{Expression: s}, verifBranch(), "matches", "x", nil)
	const prefix = `  message := `
	line, found := verifFindLine(lines, prefix)
	v.Assert("C13.message.shape", found)
	lit, end, ok := refAnyString(line, len(prefix))
	v.Reach("lexed")
	v.Assert("C13.message.literal-closed", ok && end == len(line))
	if ok && end == len(line) {
		v.Assert("C13.message.roundtrip", lit == refShown(s))
	}
}

func VerifC13Message2() { verifC13Message(2) }
func VerifC13Message3() { verifC13Message(3) }
func VerifC13Message4() { verifC13Message(4) }

// refSprintf1 is fmt.Sprintf(f, arg) for the verbs a message may legally contain.
func refSprintf1(f string, arg string) (string, bool) {
	out := ""
	used := false
	for i := 0; i < len(f); i++ {
		if f[i] != '%' {
			out += f[i : i+1]
			continue
		}
		if i+1 >= len(f) {
			return "", false
		}
		switch f[i+1] {
		case '%':
			out += "%"
		case 'v':
			if used {
				return "", false
			}
			used = true
			out += arg
		default:
			return "", false
		}
		i++
	}
	return out, used
}

const verifAlphabet = "a\"\\%'{} \nv\t`"

func verifAlphaText(name string, maxLen int) string {
	n := v.Choice(name+".len", maxLen+1)
	b := make([]byte, n)
	for i := range b {
		b[i] = verifAlphabet[v.Choice(name, len(verifAlphabet))]
	}
	return string(b)
}

// VerifC13MessageVars: a message with one placeholder between arbitrary text, through the
// real ParseMessageExpression (regexp runs natively, hence a representative alphabet).
func verifC13MessageVars(maxLen int) {
	pre := verifAlphaText("pre", maxLen)
	post := verifAlphaText("post", maxLen)
	v.Assume(!strings.Contains(pre+"|"+post, "{{") && !strings.Contains(pre+"|"+post, "}}"))
	msg := profile.ParseMessageExpression(pre + "{{core.name}}" + post)
	v.Assert("C13.messageVars.variables", len(msg.Variables) == 1 && msg.Variables[0] == "core.name")
	expander := IriExpanderFrom(profile.Profile{})
	lines := wrapBranch("n", msg, verifBranch(), "matches", "x", expander)
	line, at, found := verifSprintfLiteral(lines)
	v.Assert("C13.messageVars.shape", found)
	lit, end, ok := refAnyString(line, at)
	v.Reach("lexed")
	v.Assert("C13.messageVars.literal-closed", ok && strings.HasPrefix(line[end:], ","))
	if ok {
		shown, fok := refSprintf1(lit, "VALUE")
		v.Assert("C13.messageVars.verbs-exact", fok)
		if fok {
			v.Assert("C13.messageVars.roundtrip", shown == refShown(pre)+"VALUE"+refShown(post))
		}
	}
	// the placeholder's property is looked up by its expanded IRI (which value it yields is the
	// business of the evaluation-level check)
	hasIri := false
	for _, l := range lines {
		if strings.Contains(l, `"http://a.ml/vocabularies/core#name"`) {
			hasIri = true
		}
	}
	v.Assert("C13.messageVars.lookup", hasIri)
}

func VerifC13MessageVars1() { verifC13MessageVars(1) }
func VerifC13MessageVars2() { verifC13MessageVars(2) }

func verifAtomic(name string) profile.AtomicStatement {
	p, err := path.ParsePath("ex.p")
	if err != nil {
		panic(err)
	}
	return profile.AtomicStatement{BaseStatement: profile.BaseStatement{Name: name}, Variable: profile.Variable{Name: "x"}, Path: p}
}

func verifExpander() *profile.Profile {
	return &profile.Profile{Prefixes: profile.ProfileContext{"ex": "http://example.org/"}}
}

// VerifC13SetValues: values of in / containsAll / containsSome lists.
func verifC13SetValues(maxLen int) {
	kind := v.Choice("kind", 3)
	s := verifText("value", maxLen)
	exp := IriExpanderFrom(*verifExpander())
	names := []string{"in", "containsAll", "containsSome"}
	rule := profile.ScalarSetRule{AtomicStatement: verifAtomic(names[kind]), Argument: []string{s, "b"}, SetCriteria: []profile.SetCriteria{profile.SuperSet, profile.SubSet, profile.InsersectSet}[kind]}
	res := Dispatch(rule, exp)
	lines := res[0].(SimpleRegoResult).Rego
	var line string
	found := false
	for _, l := range lines {
		if i := strings.Index(l, " = { \""); i >= 0 {
			line, found = l[i+5:], true
		}
	}
	v.Assert("C13.setValue.shape", found)
	lit, end, ok := refAnyString(line, 0)
	v.Reach("lexed")
	v.Assert("C13.setValue.literal-closed", ok && line[end:] == `,"b"}`)
	if ok {
		v.Assert("C13.setValue.roundtrip", lit == s)
	}
}

func VerifC13SetValues2() { verifC13SetValues(2) }
func VerifC13SetValues3() { verifC13SetValues(3) }

// VerifC13Pattern: the regular expression reaches regex.match verbatim.
func verifC13Pattern(maxLen int) {
	s := verifText("pattern", maxLen)
	exp := IriExpanderFrom(*verifExpander())
	rule := profile.PatternRule{AtomicStatement: verifAtomic("pattern"), Argument: s}
	res := Dispatch(rule, exp)
	lines := res[0].(SimpleRegoResult).Rego
	const prefix = "not regex.match("
	line, found := verifFindLine(lines, prefix)
	v.Assert("C13.pattern.shape", found)
	lit, end, ok := refAnyString(line, len(prefix))
	v.Reach("lexed")
	v.Assert("C13.pattern.literal-closed", ok && strings.HasPrefix(line[end:], ",gen_") && strings.HasSuffix(line, ")"))
	if ok {
		v.Assert("C13.pattern.roundtrip", lit == s)
	}
}

func VerifC13Pattern2() { verifC13Pattern(2) }
func VerifC13Pattern3() { verifC13Pattern(3) }

// VerifC13ParseMessage: placeholders (with optional inner whitespace) are recognised once each.
func VerifC13ParseMessage() {
	pre, post := verifAlphaText("pre", 2), verifAlphaText("post", 2)
	v.Assume(!strings.Contains(pre+"|"+post, "{{") && !strings.Contains(pre+"|"+post, "}}"))
	ws := []string{"", " "}[v.Choice("ws", 2)]
	m := profile.ParseMessageExpression(pre + "{{" + ws + "core.name" + ws + "}}" + post + "{{apiContract.path}}")
	v.Reach("parsed")
	v.Assert("C13.parseMessage.variables", len(m.Variables) == 2 && m.Variables[0] == "core.name" && m.Variables[1] == "apiContract.path")
	none := profile.ParseMessageExpression(pre + post)
	v.Assert("C13.parseMessage.no-placeholder", len(none.Variables) == 0 && none.Expression == pre+post)
}

// VerifC13MessageBraces: text that contains braces but no well-formed placeholder is plain
// text: no variables, and the message reaches the literal as written (through the real
// ParseMessageExpression; representative alphabet, which has no '.' and hence no placeholder).
func verifC13MessageBraces(maxLen int) {
	text := verifAlphaText("msg", maxLen)
	m := profile.ParseMessageExpression(text)
	v.Assert("C13.messageBraces.no-variables", len(m.Variables) == 0)
	lines := wrapBranch("n", m, verifBranch(), "matches", "x", IriExpanderFrom(profile.Profile{}))
	const prefix = `  message := `
	line, found := verifFindLine(lines, prefix)
	v.Assert("C13.messageBraces.shape", found)
	lit, end, ok := refAnyString(line, len(prefix))
	v.Reach("lexed")
	v.Assert("C13.messageBraces.literal-closed", ok && end == len(line))
	if ok && end == len(line) {
		v.Assert("C13.messageBraces.roundtrip", lit == refShown(text))
	}
}

func VerifC13MessageBraces3() { verifC13MessageBraces(3) }
func VerifC13MessageBraces4() { verifC13MessageBraces(4) }

// VerifC13TemplateTokens: the template variables of embedded Rego ($message, $result, $node,
// $traceNode) are ordinary text everywhere else: a declarative profile that merely contains
// them in a pattern, a list value, a message or a name still compiles and keeps them.
func VerifC13TemplateTokens() {
	token := []string{"$message", "$result", "$node", "$traceNode"}[v.Choice("token", 4)]
	pos := v.Choice("position", 4)
	exp := IriExpanderFrom(*verifExpander())
	x := profile.Variable{Name: "x"}
	name, msg := "v1", "m"
	var rule profile.Rule
	switch pos {
	case 0:
		rule = profile.PatternRule{AtomicStatement: verifAtomic("pattern"), Argument: "^" + token + "$"}
	case 1:
		rule = profile.ScalarSetRule{AtomicStatement: verifAtomic("in"), Argument: []string{token, "b"}, SetCriteria: profile.SuperSet}
	case 2:
		rule = profile.VerifMinCount(x, mustPath("ex.p"), 1)
		msg = "text " + token + " text"
	default:
		rule = profile.VerifMinCount(x, mustPath("ex.p"), 1)
		name = "v" + token
	}
	prof := profile.NewProfile()
	prof.Name = "t"
	prof.Prefixes = profile.ProfileContext{"ex": "http://example.org/"}
	prof.Violation = []profile.Rule{profile.TopLevelExpression{
		Expression:     profile.Expression{BaseStatement: profile.BaseStatement{Name: name}, Variable: &x, Value: profile.NewAnd(false, []profile.Rule{rule})},
		Message:        profile.ParseMessageExpression(msg),
		Level:          "violation",
		ClassGenerator: "ex.C",
	}}
	_ = exp
	unit := Generate(prof)
	v.Reach("generated")
	v.Assert("C13.templateTokens.kept", strings.Contains(unit.Code, token))
	v.Assert("C13.templateTokens.compiles", v.RegoCompiles(unit.Code))
}

// refSprintfN is fmt.Sprintf(f, args...) for %% and %v only.
func refSprintfN(f string, args []string) (string, bool) {
	out := ""
	k := 0
	for i := 0; i < len(f); i++ {
		if f[i] != '%' {
			out += f[i : i+1]
			continue
		}
		if i+1 >= len(f) {
			return "", false
		}
		switch f[i+1] {
		case '%':
			out += "%"
		case 'v':
			if k >= len(args) {
				return "", false
			}
			out += args[k]
			k++
		default:
			return "", false
		}
		i++
	}
	return out, k == len(args)
}

// VerifC13MessageTwoVars: two placeholders (the same property twice, or two properties): one %v
// and one looked-up value per placeholder occurrence, in order.
func VerifC13MessageTwoVars() {
	second := v.Choice("second", 2)
	pre, mid, post := verifAlphaText("pre", 1), verifAlphaText("mid", 1), verifAlphaText("post", 1)
	v.Assume(!strings.Contains(pre+"|"+mid+"|"+post, "{{") && !strings.Contains(pre+"|"+mid+"|"+post, "}}"))
	names := []string{"core.name", "apiContract.path"}
	iris := map[string]string{"core.name": "http://a.ml/vocabularies/core#name", "apiContract.path": "http://a.ml/vocabularies/apiContract#path"}
	want := []string{"core.name", names[second]}
	m := profile.ParseMessageExpression(pre + "{{core.name}}" + mid + "{{ " + names[second] + " }}" + post)
	v.Assert("C13.messageTwoVars.variables", len(m.Variables) == 2 && m.Variables[0] == want[0] && m.Variables[1] == want[1])
	lines := wrapBranch("n", m, verifBranch(), "matches", "x", IriExpanderFrom(profile.Profile{}))
	line, at, found := verifSprintfLiteral(lines)
	v.Assert("C13.messageTwoVars.shape", found)
	lit, end, ok := refAnyString(line, at)
	v.Reach("lexed")
	v.Assert("C13.messageTwoVars.literal-closed", ok && strings.HasPrefix(line[end:], ","))
	if ok {
		shown, fok := refSprintfN(lit, []string{"<A>", "<B>"})
		v.Assert("C13.messageTwoVars.verbs-exact", fok)
		if fok {
			v.Assert("C13.messageTwoVars.roundtrip", shown == refShown(pre)+"<A>"+refShown(mid)+"<B>"+refShown(post))
		}
	}
	_ = iris // which values the operands denote is decided by the evaluation-level check (regosym)
}

// verifC13EscapeBytes: the escaper behind every pasted text, on EVERY valid UTF-8 text of up to
// maxLen bytes (control characters, DEL, two- and three-byte characters included): the output
// between double quotes is one legal Rego string literal that denotes the text.
func verifC13EscapeBytes(maxLen int) {
	n := 1 + v.Choice("len", maxLen)
	s := v.Bytes("s", n)
	v.Assume(verifValidUTF8(s))
	lit := "\"" + misc.RegoStringContent(s) + "\""
	got, end, ok := refRegoString(lit, 0)
	v.Reach("lexed")
	v.Assert("C13.escape.literal-closed", ok && end == len(lit))
	if ok && end == len(lit) {
		v.Assert("C13.escape.roundtrip", got == s)
	}
}

func VerifC13EscapeBytes2() { verifC13EscapeBytes(2) }
func VerifC13EscapeBytes3() { verifC13EscapeBytes(3) }
func VerifC13EscapeBytes4() { verifC13EscapeBytes(4) }
func VerifC13EscapeBytes6() { verifC13EscapeBytes(6) }

// verifValidUTF8: well-formed UTF-8 (Unicode table 3-7),
// written with comparisons only so that the solver sees it.
func verifValidUTF8(s string) bool {
	cont := func(c byte) bool { return c >= 0x80 && c <= 0xBF }
	for i := 0; i < len(s); {
		c := s[i]
		switch {
		case c < 0x80:
			i++
		case c >= 0xC2 && c <= 0xDF:
			if i+1 >= len(s) || !cont(s[i+1]) {
				return false
			}
			i += 2
		case c >= 0xE0 && c <= 0xEF:
			if i+2 >= len(s) || !cont(s[i+1]) || !cont(s[i+2]) {
				return false
			}
			if c == 0xE0 && s[i+1] < 0xA0 {
				return false
			}
			if c == 0xED && s[i+1] > 0x9F {
				return false
			}
			i += 3
		case c >= 0xF0 && c <= 0xF4:
			if i+3 >= len(s) || !cont(s[i+1]) || !cont(s[i+2]) || !cont(s[i+3]) {
				return false
			}
			if c == 0xF0 && s[i+1] < 0x90 {
				return false
			}
			if c == 0xF4 && s[i+1] > 0x8F {
				return false
			}
			i += 4
		default:
			return false
		}
	}
	return true
}
