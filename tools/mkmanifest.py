#!/usr/bin/env python3
"""Regenerates /verif/MANIFEST.json from the table below (kept in one place so the manifest stays valid)."""
import json, os
V = "/verif"
props = [json.loads(l) for l in open(f"{V}/properties.jsonl")]
ENV = "cd /verif && GOFLAGS=-mod=mod GOPROXY=off GOSUMDB=off GOTOOLCHAIN=local"
checks = json.load(open(f"{V}/tools/checks.json"))
na = json.load(open(f"{V}/tools/not_applicable.json"))
claimed = {c["property_id"] for c in checks}
out_checks = []
for c in checks:
    pid = c["property_id"]
    out_checks.append({
        "property_id": pid,
        "quick_cmd": f"cd /verif && bin/verif check {pid} --tier quick",
        "thorough_cmd": f"cd /verif && bin/verif check {pid} --tier thorough",
        "evidence_file": f"/verif/evidence/{pid}.json",
        "replay_cmd_template": "/verif/bin/verif replay {path}",
        "engine": c.get("engine", "gosym"),
        "level_claimed": {"category": c["level"], "text": c["text"], "design_ref": c.get("design_ref", "DESIGN.md §4 " + pid)},
        "level_note": c["note"],
        "technique": c["technique"],
    })
m = {
    "version": 1,
    "setup_cmd": f"{ENV} go build -o bin/verif ./cmd/verif && bin/verif selftest --fast",
    "hooks": {
        "guard": "verif",
        "enable": "harnesses live under /verif/harness/<import path>/zz_verif_*.go with //go:build verif and are injected by overlay (packages.Config.Overlay for gosym, go test -tags verif -overlay for native replay); /repo carries no hook commits",
        "baseline_off_cmd": "cd /repo && go test -vet=off -count=1 ./...",
        "source_commits": [],
        "add_only": True,
    },
    "engines": [
        {"name": "gosym", "path": "/verif/gosym", "serves_properties": sorted(c["property_id"] for c in checks if "gosym" in c.get("engine", "gosym")),
         "kind_free_text": "path-at-a-time symbolic executor over go/ssa (x/tools v0.29.0) of /repo's working tree; symbolic ints/bools/bytes as z3 bit-vector terms, forks by re-execution, environment stubs, native replay of every counterexample"},
        {"name": "regosym", "path": "/verif/regosym", "serves_properties": sorted(c["property_id"] for c in checks if "regosym" in c.get("engine", "")),
         "kind_free_text": "finite-scope symbolic evaluator of the Rego module the real generator emits, over a symbolic input graph; z3 decides disagreement with a reference semantics"},
    ],
    "checks": out_checks,
    "not_applicable": [{"property_id": p["id"], "reason": na.get(p["id"], "check not built yet (work in progress)")} for p in props if p["id"] not in claimed],
    "notes": "exit codes: 0 held within the stated bounds (KNOWN-FINDING lines possible), 1 VIOLATION (replayed natively, not listed in known_findings.json), 2 INCONCLUSIVE (unsupported construct, solver unknown, bound exceeded, vacuous harness, or a counterexample that does not reproduce natively)",
}
json.dump(m, open(f"{V}/MANIFEST.json", "w"), indent=1)
print("checks:", sorted(claimed))
