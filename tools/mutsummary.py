#!/usr/bin/env python3
"""Summary of a mutation sweep (tools/mutsweep.py): phase 1 (which mutants the repository's own tests
kill) and phase 2 (which of the survivors the quick checks object to). usage: mutsummary.py <workdir>"""
import json, sys, collections, os
work = sys.argv[1]
p1 = [json.loads(l) for l in open(os.path.join(work, "phase1.jsonl"))]
p2 = [json.loads(l) for l in open(os.path.join(work, "phase2.jsonl"))] if os.path.exists(os.path.join(work, "phase2.jsonl")) else []
c1 = collections.Counter(m["status"] for m in p1)
print("phase 1:", len(p1), "mutants;", dict(c1))
st = collections.Counter()
bycheck = collections.Counter()
kinds = collections.Counter()
for r in p2:
    det = r.get("detected") or {}
    hit = [k for k, v in det.items() if v.get("rc") == 1]
    inc = [k for k, v in det.items() if v.get("rc") == 2]
    s = "objected" if hit else ("inconclusive-only" if inc else "no-objection")
    st[s] += 1
    for k in hit:
        bycheck[k] += 1
    if s != "objected":
        o, rp = r["orig"], r["repl"]
        line_kind = r["kind"]
        if line_kind == "call-deleted" and o.startswith("panic("):
            kinds["deleted panic(err) on a path where err is nil for every well-formed input"] += 1
        elif line_kind == "string" and o in ("not ", "s\"", "%t", "_"):
            kinds["text of an error message / a format verb with the same output"] += 1
        elif line_kind == "call-deleted" and o.startswith("os.Exit(0)"):
            kinds["os.Exit(0) deleted at the end of a command (returning is exit 0)"] += 1
        elif "uniqueValues" in r["file"] or "moreThan" in o or "exactly" in o:
            kinds["constraint kinds outside the documented language (uniqueValues, moreThan*, exactly)"] += 1
        elif r["file"].startswith("cmd/"):
            kinds["command-line argument handling and the debug switch"] += 1
        else:
            kinds["other (rendering used for sorting only, dead branches, defensive checks)"] += 1
print("phase 2:", len(p2), "survivors run;", dict(st))
print("objections by check:", dict(bycheck))
for k, n in kinds.most_common():
    print("  not objected:", n, k)
