#!/usr/bin/env python3
"""Mechanical mutation sweep (development aid, not a registered check).

phase 1: for every mutant listed by bin/mutgen, build + run the repository's own test suite in a
         scratch worktree; a mutant that passes is a *survivor* (the tests cannot see it).
phase 2: for every survivor, run every quick check of /verif against the scratch worktree
         (VERIF_REPO) from a snapshot of /verif (VERIF_DIR) and record which checks object.
Results: <work>/phase1.jsonl, <work>/phase2.jsonl. Nothing here touches /repo.
usage: mutsweep.py <work-dir> phase1|phase2 [workers]
"""
import json, os, subprocess, sys, threading, queue, shutil, time

ENV = dict(os.environ, GOFLAGS="-mod=mod", GOPROXY="off", GOSUMDB="off", GOTOOLCHAIN="local")
# the commit the sweep mutates: fixed for the whole sweep, whatever happens to /repo meanwhile
BASE = os.environ.get("MUT_BASE") or subprocess.run(["git", "-C", "/repo", "rev-parse", "HEAD"], stdout=subprocess.PIPE).stdout.decode().strip()
EXCL = ("path/peg.go", "test_utils", "/js/", "performance")

def sh(cmd, cwd, timeout=900, env=ENV):
    try:
        p = subprocess.run(cmd, shell=True, cwd=cwd, env=env, stdout=subprocess.PIPE, stderr=subprocess.STDOUT, timeout=timeout)
        return p.returncode, p.stdout.decode(errors="replace")
    except subprocess.TimeoutExpired:
        return 124, "timeout"

def worktree(work, k):
    d = os.path.join(work, f"wt{k}")
    if not os.path.isdir(d):
        sh(f"git -C /repo worktree add --detach {d} {BASE}", "/")
    return d

def mutants(work):
    f = os.path.join(work, "mutants.jsonl")
    if not os.path.exists(f):
        base = worktree(work, "base")
        rc, files = sh("git ls-files 'internal/**/*.go' 'pkg/**/*.go' 'cmd/**/*.go'", base)
        fs = [x for x in files.split() if not x.endswith("_test.go") and not any(e in x for e in EXCL)]
        rc, out = sh("/verif/bin/mutgen " + " ".join(fs), base)
        open(f, "w").write(out)
    ms = [json.loads(l) for l in open(f) if l.startswith("{")]
    for i, m in enumerate(ms):
        m["id"] = i
    return ms

def pristine(m):
    # committed content: /repo's working tree may carry a seeded patch while a sweep runs
    return subprocess.run(["git", "-C", "/repo", "show", BASE + ":" + m["file"]], stdout=subprocess.PIPE).stdout

def apply(wt, m):
    p = os.path.join(wt, m["file"])
    src = pristine(m)
    open(p, "wb").write(src[:m["start"]] + m["repl"].encode() + src[m["end"]:])

def revert(wt, m):
    open(os.path.join(wt, m["file"]), "wb").write(pristine(m))

def phase1(work, nworkers):
    ms = mutants(work)
    done = set()
    out = os.path.join(work, "phase1.jsonl")
    if os.path.exists(out):
        done = {json.loads(l)["id"] for l in open(out)}
    q = queue.Queue()
    for m in ms:
        if m["id"] not in done:
            q.put(m)
    lock = threading.Lock()
    def run(k):
        wt = worktree(work, k)
        while True:
            try:
                m = q.get_nowait()
            except queue.Empty:
                return
            apply(wt, m)
            status = "survived"
            rc, o = sh("go build ./... ", wt, 300)
            if rc != 0:
                status = "no-build"
            else:
                rc, o = sh("go vet ./... >/dev/null 2>&1; go test -vet=off -count=1 ./internal/generator/... ./internal/parser/... ./internal/misc/... ./performance/...", wt, 600)
                if rc != 0:
                    status = "killed-fast"
                else:
                    rc, o = sh("go test -vet=off -count=1 ./internal/validator/... ./cmd/... ./pkg/...", wt, 900)
                    if rc != 0:
                        status = "killed-validator"
            revert(wt, m)
            m2 = dict(m, status=status)
            with lock:
                open(out, "a").write(json.dumps(m2) + "\n")
    ts = [threading.Thread(target=run, args=(k,)) for k in range(nworkers)]
    [t.start() for t in ts]; [t.join() for t in ts]

PRIORITY = [
    ("cmd/", ["C18"]),
    ("internal/parser/path", ["C16", "C02", "C07"]),
    ("internal/parser/yaml", ["C17", "C15", "C06", "C01"]),
    ("internal/parser/profile/message", ["C13"]),
    ("internal/parser/profile", ["C01", "C07", "C15", "C17", "C06", "C03", "C13"]),
    ("internal/generator/path", ["C02", "C07", "C01"]),
    ("internal/generator", ["C01", "C07", "C13", "C12", "C14", "C03", "C02", "C08", "C15", "C06"]),
    ("internal/misc", ["C13", "C07", "C01"]),
    ("internal/validator/normalizer", ["C14", "C17", "C04", "C09"]),
    ("internal/validator/report", ["C12", "C03", "C06", "C14"]),
    ("internal/validator/contexts", ["C03", "C12", "C06"]),
    ("internal/validator", ["C04", "C11", "C08", "C09", "C17", "C10", "C03"]),
    ("pkg/", ["C11", "C09", "C10", "C04"]),
]

def ordered(checks, file):
    first = []
    for prefix, ids in PRIORITY:
        if file.startswith(prefix):
            first = ids
            break
    return [c for c in first if c in checks] + [c for c in checks if c not in first]

def phase2(work, nworkers):
    snap = os.path.join(work, "verifsnap")
    if not os.path.isdir(snap):
        sh(f"mkdir -p {snap} && rsync -a --exclude .git --exclude replays --exclude .work --exclude seeded /verif/ {snap}/", "/")
    checks = [c["property_id"] for c in json.load(open("/verif/MANIFEST.json"))["checks"]]
    surv = [json.loads(l) for l in open(os.path.join(work, "phase1.jsonl"))]
    # files no property speaks about (the compile / help sub-commands, the debug switches)
    skip = ("cmd/commands/compile.go", "cmd/commands/fallback.go", "cmd/commands/help.go", "internal/config/config.go")
    surv = [m for m in surv if m["status"] == "survived" and m["file"] not in skip]
    out = os.path.join(work, "phase2.jsonl")
    done = set()
    if os.path.exists(out):
        done = {json.loads(l)["id"] for l in open(out)}
    q = queue.Queue()
    for m in surv:
        if m["id"] not in done:
            q.put(m)
    lock = threading.Lock()
    def run(k):
        wt = worktree(work, k)
        env = dict(ENV, VERIF_REPO=wt, VERIF_DIR=snap, VERIF_OUT=os.path.join(work, f"out{k}"))
        while True:
            try:
                m = q.get_nowait()
            except queue.Empty:
                return
            apply(wt, m)
            res = {}
            for c in ordered(checks, m["file"]):
                rc, o = sh(f"{snap}/bin/verif check {c} --tier quick", snap, 1200, env)
                if rc != 0:
                    lines = [l[:200] for l in o.splitlines() if l.startswith(("VIOLATION", "INCONCLUSIVE"))][:2]
                    res[c] = {"rc": rc, "lines": lines}
                if rc == 1:
                    break  # one objection is enough; the remaining checks are not run
            revert(wt, m)
            shutil.rmtree(os.path.join(work, f"out{k}", "replays"), ignore_errors=True)
            with lock:
                open(out, "a").write(json.dumps(dict(m, detected=res)) + "\n")
    ts = [threading.Thread(target=run, args=(k,)) for k in range(nworkers)]
    [t.start() for t in ts]; [t.join() for t in ts]

if __name__ == "__main__":
    work, ph = sys.argv[1], sys.argv[2]
    n = int(sys.argv[3]) if len(sys.argv) > 3 else 4
    os.makedirs(work, exist_ok=True)
    (phase1 if ph == "phase1" else phase2)(work, n)
