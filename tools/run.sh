#!/bin/sh
# usage: tools/run.sh <pkg> <Harness> [flags]   -- summarised low-level run
cd /verif && bin/verif run "$@" 2>&1 | python3 -c "
import json,sys
t=sys.stdin.read(); i=t.index('{'); r=json.loads(t[i:]); print(t[:i].strip()); print('paths',r['Paths'],r['ByStatus'],'reach',r['Reach'],'viol',r['ViolCount'],'wall %.1fs'%(r['Wall']/1e9), 'steps',r['Steps'])
for u in (r['Unsupported'] or [])[:5]: print('  UNSUPPORTED',u[:600])
for u in (r['Bound'] or [])[:3]: print('  BOUND',u)
seen=set()
for v in (r['Violations'] or []):
    if v['Label'] in seen: continue
    seen.add(v['Label']); print('  VIOL',v['Label'],v['Inputs'],v['Msg'][:200],v['Pos'][-80:])"
