#!/bin/bash
# usage: tools/seedcheck9.sh <property> <seed-name> [checks...]
# Round-9 layout: worktree /tmp/seed9/<property> (patch applied, demo test file in place, untracked),
# deliverables in /tmp/seed9/<property>.out. Confirms the change (suite passes with it apart from the
# demo, demo fails with it and passes without), stores it under /verif/seeded/<seed-name>/ and runs
# the given checks against /repo with the patch applied.
export GOFLAGS=-mod=mod GOPROXY=off GOSUMDB=off GOTOOLCHAIN=local SEEDROUND=${SEEDROUND:-seed9}
P=$1; NAME=$2; shift 2
R=${SEEDROUND:-seed9}; WT=/tmp/$R/$P; D=/tmp/$R/$P.out
OUT=/verif/seeded/$NAME; mkdir -p $OUT
cp $D/patch.diff $OUT/patch.diff; cp $D/demo_test.go.txt $OUT/demo_test.go.txt; cp $D/notes.md $OUT/notes.md 2>/dev/null
cd $WT
DEMOFILES=$(git status --short | grep '^??' | awk '{print $2}' | grep '_test.go$')
[ -z "$DEMOFILES" ] && { echo "no demo test file in worktree"; exit 1; }
PKG=$(dirname $(echo "$DEMOFILES" | head -1))
TESTS=$(grep -ho '^func Test[A-Za-z0-9_]*' $DEMOFILES | sed 's/func //' | paste -sd'|')
git apply -R --check $D/patch.diff 2>/dev/null || { echo "patch not applied in worktree; applying"; git apply $D/patch.diff || exit 1; }
SUITE=$(go test -vet=off -count=1 -skip "^($TESTS)\$" ./... 2>&1 | grep -v "no test files" | grep -cv "^ok")
DEMO_WITH=$(go test -vet=off -count=1 -run "^($TESTS)\$" ./$PKG 2>&1 | tail -1)
git apply -R $D/patch.diff
DEMO_WITHOUT=$(go test -vet=off -count=1 -run "^($TESTS)\$" ./$PKG 2>&1 | tail -1)
git apply $D/patch.diff
echo "demo=$DEMOFILES tests=$TESTS"
echo "suite_nonok_lines=$SUITE | demo with patch: $DEMO_WITH | demo without: $DEMO_WITHOUT"
cd /repo && git apply $OUT/patch.diff || { echo "PATCH DOES NOT APPLY TO /repo"; exit 1; }
RES=""
for c in "$@"; do
  T=quick; ID=$c
  case $c in *:thorough) T=thorough; ID=${c%%:*};; esac
  O=$(cd /verif && VERIF_OUT=/tmp/seedcheck_out timeout 3000 bin/verif check $ID --tier $T 2>&1 | grep -v KNOWN-FINDING | head -4 | cut -c1-260)
  echo "--- check $ID ($T): $O"
  RES="$RES $ID/$T:$(echo "$O" | grep -c VIOLATION)"
done
cd /repo && git checkout -q -- . && git status --short | head -3
rm -rf /tmp/seedcheck_out
python3 - "$P" "$NAME" "$SUITE" "$DEMO_WITH" "$DEMO_WITHOUT" "$RES" <<'PY'
import json,sys
p,name,suite,dw,dwo,res=sys.argv[1:7]
meta={"property":p,"seed":name,"existing_suite_non_ok_lines_with_patch":int(suite),"demo_with_patch":dw,"demo_without_patch":dwo,"checks_run_with_patch_applied_to_repo(violation lines)":res.strip(),
 "how_confirmed":"tools/seedcheck9.sh: full suite with patch (excluding the demo), demo with and without patch in the agent's scratch worktree, then /verif checks with the patch applied to /repo and reverted",
 "origin":"round "+__import__("os").environ.get("SEEDROUND","seed9")[4:]+" sub-agent, given only the property text and a scratch worktree /tmp/"+__import__("os").environ.get("SEEDROUND","seed9")+"/"+p}
try:
    old=json.load(open(f"/verif/seeded/{name}/meta.json")); old.update(meta); meta=old
except Exception: pass
json.dump(meta,open(f"/verif/seeded/{name}/meta.json","w"),indent=1)
PY
