#!/usr/bin/env python3
"""usage: muttest.py <phase1.jsonl> <mutant id> <check> [<check> ...]
Applies one mutant of a sweep to a scratch worktree of /repo (at the commit it was generated for is the
caller's business: the file must be unchanged since) and runs the given quick checks against it."""
import json, os, subprocess, sys
src, mid, checks = sys.argv[1], int(sys.argv[2]), sys.argv[3:]
m = [json.loads(l) for l in open(src) if json.loads(l)["id"] == mid][0]
wt = "/tmp/mt_%d" % os.getpid()
subprocess.run(["git", "-C", "/repo", "worktree", "add", "--detach", wt, "HEAD"], stdout=subprocess.DEVNULL, stderr=subprocess.DEVNULL)
try:
    p = os.path.join(wt, m["file"])
    s = open(p, "rb").read()
    assert s[m["start"]:m["end"]].decode() == m["orig"], "file changed since the sweep"
    open(p, "wb").write(s[:m["start"]] + m["repl"].encode() + s[m["end"]:])
    print("mutant", mid, m["file"], m["line"], m["kind"], repr(m["orig"][:50]), "->", repr(m["repl"][:30]))
    env = dict(os.environ, VERIF_REPO=wt, VERIF_OUT="/tmp/mtout_%d" % os.getpid())
    for c in checks:
        o = subprocess.run(["/verif/bin/verif", "check", c, "--tier", "quick"], cwd="/verif", env=env, stdout=subprocess.PIPE, stderr=subprocess.STDOUT).stdout.decode()
        lines = [l[:230] for l in o.splitlines() if l.startswith(("OK", "VIOLATION", "INCONCLUSIVE"))]
        print("  ", c, "|", " || ".join(lines[:2]))
finally:
    subprocess.run(["git", "-C", "/repo", "worktree", "remove", "--force", wt], stdout=subprocess.DEVNULL)
    subprocess.run(["rm", "-rf", "/tmp/mtout_%d" % os.getpid()])
