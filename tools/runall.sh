#!/bin/sh
# runs every registered check (quick tier by default) on /repo's current tree and prints a summary
TIER=${1:-quick}
cd /verif
for id in $(python3 -c "import json;print(' '.join(c['property_id'] for c in json.load(open('MANIFEST.json'))['checks']))"); do
  /usr/bin/time -f "%es" bin/verif check $id --tier $TIER 2>&1 | tail -3
done
