#!/bin/bash
# usage: tools/benigncheck.sh <worktree> [checks...]
# Runs the quick checks against a scratch tree that holds a behaviour-preserving change: every check is
# expected to exit 0 (an exit 1 is a false alarm, an exit 2 a gap of the executor).
export GOFLAGS=-mod=mod GOPROXY=off GOSUMDB=off GOTOOLCHAIN=local
WT=$1; shift
CHECKS=${@:-C18 C04 C09 C11 C03 C16 C13 C07 C06 C01 C10 C08 C17 C02 C12 C14 C15}
(cd $WT && go build ./... 2>&1 | head -3; go test -vet=off -count=1 ./... 2>&1 | grep -v "no test files" | grep -v "^ok" | head -3)
for c in $CHECKS; do
  O=$(cd /verif && VERIF_REPO=$WT VERIF_OUT=/tmp/benign/out_$(basename $WT) bin/verif check $c --tier quick 2>&1 | grep -E "^(OK|VIOLATION|INCONCLUSIVE|NOTE)" | head -2 | cut -c1-260)
  case "$O" in OK*) echo -n "$c:ok ";; *) echo; echo "[$(basename $WT)] $c: $O";; esac
done
echo
rm -rf /tmp/benign/out_$(basename $WT)
