#!/bin/bash
# usage: tools/seedcheck.sh <property> <worktree> <seed-name> <demo-pkg-dir> [checks...]
# Confirms a seeded change (suite passes with it, demo fails with it and passes without), stores it
# under /verif/seeded/<seed-name>/ and runs the given checks against /repo with the patch applied.
export GOFLAGS=-mod=mod GOPROXY=off GOSUMDB=off GOTOOLCHAIN=local
P=$1; WT=$2; NAME=$3; PKG=$4; shift 4
OUT=/verif/seeded/$NAME; mkdir -p $OUT
cp $WT/SEED/patch.diff $OUT/patch.diff; cp $WT/SEED/demo_test.go $OUT/demo_test.go.txt; cp $WT/SEED/notes.md $OUT/notes.md 2>/dev/null
cd $WT
git apply -R --check SEED/patch.diff 2>/dev/null || { git checkout -q -- . ; git apply SEED/patch.diff; }
SUITE=$(go test -vet=off -count=1 -skip 'TestSeedDemo' $(go list ./... | grep -v /SEED) 2>&1 | grep -v "no test files" | grep -cv "^ok")
DEMO_WITH=$(go test -vet=off -count=1 -run 'TestSeedDemo' ./$PKG 2>&1 | tail -1)
git apply -R SEED/patch.diff
DEMO_WITHOUT=$(go test -vet=off -count=1 -run 'TestSeedDemo' ./$PKG 2>&1 | tail -1)
git apply SEED/patch.diff
echo "suite_nonok_lines=$SUITE | demo with patch: $DEMO_WITH | demo without: $DEMO_WITHOUT"
cd /repo && git apply $OUT/patch.diff || { echo "PATCH DOES NOT APPLY TO /repo"; exit 1; }
RES=""
for c in "$@"; do
  T=quick; ID=$c
  case $c in *:thorough) T=thorough; ID=${c%%:*};; esac
  O=$(cd /verif && VERIF_OUT=/tmp/seedcheck_out timeout 3000 bin/verif check $ID --tier $T 2>&1 | grep -v KNOWN-FINDING | head -4 | cut -c1-220)
  echo "--- check $ID ($T): $O"
  RES="$RES $ID/$T:$(echo "$O" | grep -c VIOLATION)"
done
cd /repo && git checkout -q -- . && git status --short | head -3
rm -rf /tmp/seedcheck_out
python3 - "$P" "$NAME" "$SUITE" "$DEMO_WITH" "$DEMO_WITHOUT" "$RES" <<'PY'
import json,sys
p,name,suite,dw,dwo,res=sys.argv[1:7]
meta={"property":p,"seed":name,"existing_suite_non_ok_lines_with_patch":int(suite),"demo_with_patch":dw,"demo_without_patch":dwo,"checks_run_with_patch_applied_to_repo(violation lines)":res.strip(),
 "how_confirmed":"tools/seedcheck.sh: full suite with patch (excluding the demo), demo with and without patch in the agent's scratch worktree, then /verif checks with the patch applied to /repo and reverted"}
try:
    old=json.load(open(f"/verif/seeded/{name}/meta.json")); old.update(meta); meta=old
except Exception: pass
json.dump(meta,open(f"/verif/seeded/{name}/meta.json","w"),indent=1)
PY
