// mutgen lists mechanical mutants of Go source files as JSON lines
// {file,start,end,repl,kind,line,orig}. It is a development aid for measuring which
// test-surviving changes the checks in this directory notice (tools/mutsweep.py); it is
// not part of any registered check.
package main

import (
	"encoding/json"
	"fmt"
	"go/ast"
	"go/parser"
	"go/token"
	"os"
	"strconv"
	"strings"
)

type mutant struct {
	File  string `json:"file"`
	Start int    `json:"start"`
	End   int    `json:"end"`
	Repl  string `json:"repl"`
	Kind  string `json:"kind"`
	Line  int    `json:"line"`
	Orig  string `json:"orig"`
}

var swaps = map[token.Token]string{
	token.EQL: "!=", token.NEQ: "==", token.LSS: "<=", token.LEQ: "<", token.GTR: ">=", token.GEQ: ">",
	token.LAND: "||", token.LOR: "&&",
}

var strSwaps = [][2]string{
	{"<=", "<"}, {">=", ">"}, {"==", "!="}, {"!=", "=="}, {"not ", ""}, {" < ", " <= "}, {" > ", " >= "},
	{"count(", "count_("}, {"true", "false"}, {"false", "true"}, {" | ", " & "}, {" - ", " | "}, {"[_]", "[0]"},
	{"negated", "negatd"}, {"%t", "%v"}, {"Violation", "Warning"}, {"_", "-"}, {"s\"", "\""},
}

func main() {
	enc := json.NewEncoder(os.Stdout)
	for _, file := range os.Args[1:] {
		src, err := os.ReadFile(file)
		if err != nil {
			fmt.Fprintln(os.Stderr, err)
			continue
		}
		fset := token.NewFileSet()
		f, err := parser.ParseFile(fset, file, src, 0)
		if err != nil {
			fmt.Fprintln(os.Stderr, err)
			continue
		}
		off := func(p token.Pos) int { return fset.Position(p).Offset }
		emit := func(s, e int, repl, kind string) {
			enc.Encode(mutant{File: file, Start: s, End: e, Repl: repl, Kind: kind, Line: fset.Position(f.Pos()).Line + strings.Count(string(src[:s]), "\n"), Orig: string(src[s:e])})
		}
		ast.Inspect(f, func(n ast.Node) bool {
			switch x := n.(type) {
			case *ast.GenDecl:
				if x.Tok == token.IMPORT {
					return false
				}
			case *ast.BinaryExpr:
				if r, ok := swaps[x.Op]; ok {
					s := off(x.OpPos)
					emit(s, s+len(x.Op.String()), r, "binop")
				}
			case *ast.UnaryExpr:
				if x.Op == token.NOT {
					s := off(x.OpPos)
					emit(s, s+1, "", "not-removed")
				}
			case *ast.Ident:
				if x.Name == "true" {
					emit(off(x.Pos()), off(x.End()), "false", "bool")
				} else if x.Name == "false" {
					emit(off(x.Pos()), off(x.End()), "true", "bool")
				}
			case *ast.BasicLit:
				switch x.Kind {
				case token.INT:
					if v, err := strconv.Atoi(x.Value); err == nil {
						r := strconv.Itoa(v + 1)
						if v == 1 {
							r = "0"
						}
						emit(off(x.Pos()), off(x.End()), r, "int")
					}
				case token.STRING:
					for _, sw := range strSwaps {
						if i := strings.Index(x.Value, sw[0]); i > 0 {
							s := off(x.Pos()) + i
							emit(s, s+len(sw[0]), sw[1], "string")
						}
					}
				}
			case *ast.ExprStmt:
				if _, isCall := x.X.(*ast.CallExpr); isCall {
					emit(off(x.Pos()), off(x.End()), "", "call-deleted")
				}
			case *ast.DeferStmt:
				emit(off(x.Pos()), off(x.End()), "", "defer-deleted")
			case *ast.IncDecStmt:
				emit(off(x.Pos()), off(x.End()), "", "incdec-deleted")
			case *ast.AssignStmt:
				if x.Tok == token.ASSIGN && len(x.Lhs) == 1 {
					switch x.Lhs[0].(type) {
					case *ast.IndexExpr, *ast.SelectorExpr, *ast.StarExpr:
						emit(off(x.Pos()), off(x.End()), "", "store-deleted")
					}
				}
			case *ast.BranchStmt:
				if x.Tok == token.CONTINUE {
					emit(off(x.Pos()), off(x.End()), "break", "continue-break")
				} else if x.Tok == token.BREAK && x.Label == nil {
					// may be in a switch: skip
				}
			case *ast.IfStmt:
				if x.Else == nil && x.Init == nil {
					// drop the guard: body always runs
					emit(off(x.Cond.Pos()), off(x.Cond.End()), "true", "if-true")
				}
			}
			return true
		})
	}
}
