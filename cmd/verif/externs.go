package main

import (
	"fmt"
	"os"
	"sort"
	"strings"

	"golang.org/x/tools/go/ssa"
	"golang.org/x/tools/go/ssa/ssautil"
)

// cmdExterns lists every function outside the module that repository code calls.
func cmdExterns() {
	e, err := loadEngine()
	if err != nil {
		fmt.Fprintln(os.Stderr, err)
		os.Exit(2)
	}
	seen := map[string][]string{}
	for fn := range ssautil.AllFunctions(e.Prog) {
		if fn.Pkg == nil || !strings.HasPrefix(fn.Pkg.Pkg.Path(), modPath) || strings.Contains(fn.Pkg.Pkg.Path(), "zzverif") {
			continue
		}
		for _, b := range fn.Blocks {
			for _, in := range b.Instrs {
				var cc *ssa.CallCommon
				switch in := in.(type) {
				case *ssa.Call:
					cc = &in.Call
				case *ssa.Defer:
					cc = &in.Call
				case *ssa.Go:
					cc = &in.Call
				}
				if cc == nil {
					continue
				}
				var name string
				if cc.Method != nil {
					name = "iface:" + cc.Method.FullName()
				} else if f, ok := cc.Value.(*ssa.Function); ok {
					if f.Pkg != nil && strings.HasPrefix(f.Pkg.Pkg.Path(), modPath) {
						continue
					}
					name = f.String()
				} else {
					continue
				}
				seen[name] = append(seen[name], fn.Pkg.Pkg.Name()+"."+fn.Name())
			}
		}
	}
	var names []string
	for n := range seen {
		names = append(names, n)
	}
	sort.Strings(names)
	for _, n := range names {
		callers := seen[n]
		if len(callers) > 3 {
			callers = callers[:3]
		}
		fmt.Printf("%-70s %v\n", n, callers)
	}
	// globals
	gl := map[string]bool{}
	for fn := range ssautil.AllFunctions(e.Prog) {
		if fn.Pkg == nil || !strings.HasPrefix(fn.Pkg.Pkg.Path(), modPath) {
			continue
		}
		for _, b := range fn.Blocks {
			for _, in := range b.Instrs {
				for _, op := range in.Operands(nil) {
					if g, ok := (*op).(*ssa.Global); ok && g.Pkg != nil && !strings.HasPrefix(g.Pkg.Pkg.Path(), modPath) {
						gl[g.Pkg.Pkg.Path()+"."+g.Name()] = true
					}
				}
			}
		}
	}
	for g := range gl {
		fmt.Println("GLOBAL", g)
	}
}
