package main

import (
	"encoding/json"
	"fmt"
	"os"
	"path/filepath"
	"sort"
	"strings"

	"github.com/open-policy-agent/opa/ast"

	"verif/gosym"
	"verif/regosym"
	"verif/smt"
)

// cmdSelftest validates the translators against the implementation (Serval's lesson):
//  1. the solver back end answers and models parse;
//  2. gosym in concrete mode produces byte-identical Rego to the natively compiled generator
//     for the repository's own fixture profiles;
//  3. regosym in concrete mode (a plain Rego interpreter) yields the same result triples as the
//     real OPA for the repository's (profile, data) fixture pairs.
func cmdSelftest(args []string) int {
	fast := len(args) > 0 && args[0] == "--fast"
	fails := 0
	// 1. solver
	s, err := smt.NewSolver("z3")
	if err != nil {
		fmt.Println("SELFTEST FAIL: cannot start z3:", err)
		return 2
	}
	x := smt.Var("st_x", 8)
	s.Push()
	s.Assert(smt.Eq(smt.BvBin(smt.OpBvAdd, x, smt.BV(1, 8)), smt.BV(0, 8)))
	if s.Check() != smt.Sat {
		fmt.Println("SELFTEST FAIL: solver: x+1=0 should be sat")
		fails++
	} else if m, _ := s.Model([]*smt.Term{x}); m["st_x"] != 255 {
		fmt.Println("SELFTEST FAIL: solver: model", m)
		fails++
	}
	s.Assert(smt.BvCmp(smt.OpBvUlt, x, smt.BV(10, 8)))
	if s.Check() != smt.Unsat {
		fmt.Println("SELFTEST FAIL: solver: should be unsat")
		fails++
	}
	s.Pop()
	s.Close()

	work := filepath.Join(verifDir(), ".work", fmt.Sprintf("selftest-%d", os.Getpid()))
	os.MkdirAll(work, 0o755)
	defer os.RemoveAll(work)
	drv, err := regosym.BuildDriver(repoDir, verifDir(), work)
	if err != nil {
		fmt.Println("SELFTEST FAIL:", err)
		return 2
	}

	// 2. gosym concrete vs native generator
	profiles, _ := filepath.Glob(filepath.Join(repoDir, "test/data/basic/*.yaml"))
	more, _ := filepath.Glob(filepath.Join(repoDir, "test/data/integration/*/profile.yaml"))
	profiles = append(profiles, more...)
	sort.Strings(profiles)
	if fast && len(profiles) > 6 {
		profiles = profiles[:6]
	}
	var texts []string
	for _, p := range profiles {
		b, _ := os.ReadFile(p)
		texts = append(texts, string(b))
	}
	var src strings.Builder
	src.WriteString("//go:build verif\n\npackage validator\n\nimport (\n\t\"github.com/aml-org/amf-custom-validator/internal/parser/profile\"\n\tv \"github.com/aml-org/amf-custom-validator/internal/zzverif\"\n)\n\nvar verifSelftestProfiles = []string{\n")
	for _, t := range texts {
		fmt.Fprintf(&src, "\t%q,\n", t)
	}
	src.WriteString("}\n\nfunc VerifSelftestGenerate() {\n\ti := v.Choice(\"i\", len(verifSelftestProfiles))\n\tprofile.GenReset()\n\tu, err := GenerateRego(verifSelftestProfiles[i], false, nil)\n\tif err != nil {\n\t\tv.Note(\"error\", err.Error())\n\t\treturn\n\t}\n\tv.Note(\"code\", u.Code)\n}\n")
	eng, err := gosym.Load(gosym.LoadOptions{RepoDir: repoDir, HarnessDir: verifDir() + "/harness",
		ExtraFiles: map[string][]byte{filepath.Join(repoDir, "internal/validator/zz_verif_selftest_gen.go"): []byte(src.String())}})
	if err != nil {
		fmt.Println("SELFTEST FAIL: load:", err)
		return 2
	}
	eng.Cfg.KeepAllSamples = true
	res, err := eng.Run(modPath+"/internal/validator", "VerifSelftestGenerate")
	if err != nil {
		fmt.Println("SELFTEST FAIL:", err)
		return 2
	}
	native, err := drv.Generate(texts)
	if err != nil {
		fmt.Println("SELFTEST FAIL:", err)
		return 2
	}
	got := map[int]string{}
	for _, smp := range res.Samples {
		i, _ := smp.Inputs["i"].(int64)
		if smp.Decisions == nil {
			i = 0
		}
		if len(smp.Decisions) > 0 {
			i = int64(smp.Decisions[0])
		}
		got[int(i)] = smp.Notes["code"]
	}
	agree := 0
	for i := range texts {
		if native[i].Error != "" {
			continue
		}
		if got[i] == native[i].Code {
			agree++
		} else {
			fails++
			fmt.Printf("SELFTEST FAIL: gosym and the native generator disagree on %s (gosym %d bytes, native %d bytes)\n", profiles[i], len(got[i]), len(native[i].Code))
		}
	}
	for _, u := range res.Unsupported {
		fails++
		fmt.Println("SELFTEST FAIL: gosym:", u)
	}
	fmt.Printf("selftest: gosym concrete mode == native generator on %d/%d fixture profiles\n", agree, len(texts))

	// 2b. library models: probes of standard-library calls a change to the repository may introduce
	probes := []string{"SyncOnce", "Sort", "Strings", "Strconv", "Errors", "Fmt", "Regexp", "JSON", "IO", "OSPath", "TimeContext", "GenericsClosures"}
	okProbes := 0
	for _, pr := range probes {
		r, err := eng.Run(modPath+"/internal/misc", "VerifLib"+pr)
		if err != nil {
			fails++
			fmt.Println("SELFTEST FAIL: library probe", pr, err)
			continue
		}
		if len(r.Unsupported) > 0 || len(r.Violations) > 0 || r.Reach["done"] == 0 {
			fails++
			fmt.Printf("SELFTEST FAIL: library probe %s: unsupported=%v violations=%d\n", pr, r.Unsupported, len(r.Violations))
			continue
		}
		okProbes++
	}
	fmt.Printf("selftest: executor follows %d/%d standard-library probe harnesses (sync, sort, strings, strconv, errors, fmt, regexp, encoding/json, io, os/path, time/context, generics)\n", okProbes, len(probes))

	// 2c. the symbolic regular-expression matcher against Go's regexp
	if n, bad := gosym.SelfTestSymRegex(); bad != "" {
		fails++
		fmt.Println("SELFTEST FAIL:", bad)
	} else {
		fmt.Printf("selftest: symbolic regexp matcher == regexp.MatchString on %d (expression, text) pairs\n", n)
	}

	// 2d. the symbolic UTF-8 decoder of range-over-string against the runtime's
	if n, bad := gosym.SelfTestRuneIter(); bad != "" {
		fails++
		fmt.Println("SELFTEST FAIL:", bad)
	} else {
		fmt.Printf("selftest: symbolic rune iteration == the runtime's on %d byte strings\n", n)
	}

	if n, bad := gosym.SelfTestUTF8Valid(); bad != "" {
		fails++
		fmt.Println("SELFTEST FAIL:", bad)
	} else {
		fmt.Printf("selftest: UTF-8 validity formula == utf8.Valid on %d byte strings\n", n)
	}

	if n, bad := gosym.SelfTestSelectByte(); bad != "" {
		fails++
		fmt.Println("SELFTEST FAIL:", bad)
	} else {
		fmt.Printf("selftest: symbolic index into a constant table == the table on %d (table, width, index) triples\n", n)
	}

	// 3. regosym concrete mode vs real OPA on fixture pairs
	dirs, _ := filepath.Glob(filepath.Join(repoDir, "test/data/integration/*"))
	tck, _ := filepath.Glob(filepath.Join(repoDir, "test/data/tck/*/*"))
	dirs = append(dirs, tck...)
	sort.Strings(dirs)
	var pairs []regosym.ValIn
	var names []string
	for _, d := range dirs {
		pb, err := os.ReadFile(filepath.Join(d, "profile.yaml"))
		if err != nil {
			continue
		}
		for _, kind := range []string{"negative", "positive"} {
			db, err := os.ReadFile(filepath.Join(d, kind+".data.jsonld"))
			if err != nil {
				continue
			}
			pairs = append(pairs, regosym.ValIn{Profile: string(pb), Data: string(db)})
			names = append(names, strings.TrimPrefix(d, repoDir+"/")+"/"+kind)
		}
	}
	if !fast {
		// every other directory that holds a profile.yaml next to *.jsonld documents (shacl, semex, production)
		filepath.Walk(filepath.Join(repoDir, "test/data"), func(p string, info os.FileInfo, err error) error {
			if err != nil || !info.IsDir() || strings.Contains(p, "/integration") || strings.Contains(p, "/tck") || strings.Contains(p, "/security") {
				return nil
			}
			pb, err := os.ReadFile(filepath.Join(p, "profile.yaml"))
			if err != nil {
				return nil
			}
			docs, _ := filepath.Glob(filepath.Join(p, "*.jsonld"))
			sort.Strings(docs)
			n := 0
			for _, d := range docs {
				if strings.Contains(d, "report") || n >= 6 {
					continue
				}
				db, _ := os.ReadFile(d)
				pairs = append(pairs, regosym.ValIn{Profile: string(pb), Data: string(db)})
				names = append(names, strings.TrimPrefix(d, repoDir+"/"))
				n++
			}
			return nil
		})
	}
	if fast && len(pairs) > 12 {
		pairs, names = pairs[:12], names[:12]
	}
	real, err := drv.Validate(pairs)
	if err != nil {
		fmt.Println("SELFTEST FAIL:", err)
		return 2
	}
	var ptexts, dtexts []string
	for _, p := range pairs {
		ptexts = append(ptexts, p.Profile)
		dtexts = append(dtexts, p.Data)
	}
	gens, _ := drv.Generate(ptexts)
	norms, _ := drv.Normalize(dtexts)
	same, skipped := 0, 0
	for i := range pairs {
		if real[i].Error != "" || gens[i].Error != "" || norms[i].Error != "" {
			skipped++
			continue
		}
		mine, err := regosym.EvalConcrete(gens[i].Code, norms[i].Report)
		if err != nil {
			if strings.HasPrefix(err.Error(), "unsupported") {
				skipped++
				continue
			}
			fails++
			fmt.Printf("SELFTEST FAIL: regosym on %s: %v\n", names[i], err)
			continue
		}
		want, _, err := regosym.RealTriples(real[i].Report)
		if err != nil {
			fails++
			fmt.Printf("SELFTEST FAIL: report of %s: %v\n", names[i], err)
			continue
		}
		if strings.Join(mine, "\n") == strings.Join(want, "\n") {
			same++
		} else {
			fails++
			fmt.Printf("SELFTEST FAIL: regosym and the real OPA disagree on %s:\n  regosym: %v\n  real:    %v\n", names[i], mine, want)
		}
	}
	fmt.Printf("selftest: regosym concrete mode == real OPA on %d/%d fixture pairs (%d skipped: embedded Rego outside the evaluator's subset or failing fixtures)\n", same, len(pairs), skipped)
	_ = json.Marshal
	_ = ast.Null{}
	if fails > 0 {
		fmt.Printf("SELFTEST FAILED (%d)\n", fails)
		return 2
	}
	fmt.Println("SELFTEST OK")
	return 0
}
