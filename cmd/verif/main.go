package main

import (
	"encoding/json"
	"flag"
	"fmt"
	"os"
	"time"

	"verif/gosym"
	"verif/regosym"
	"verif/smt"
)

func usage() {
	fmt.Fprintln(os.Stderr, "usage: verif run <pkg-suffix> <Func> | verif check <ID> [--tier quick|thorough] | verif selftest | verif replay <path>")
	os.Exit(2)
}

func main() {
	if len(os.Args) < 2 {
		usage()
	}
	switch os.Args[1] {
	case "run":
		cmdRun(os.Args[2:])
	case "check":
		os.Exit(cmdCheck(os.Args[2:]))
	case "selftest":
		os.Exit(cmdSelftest(os.Args[2:]))
	case "replay":
		os.Exit(cmdReplay(os.Args[2:]))
	case "externs":
		cmdExterns()
	case "regocheck":
		cmdRegoCheck(os.Args[2:])
	case "regopaths":
		cmdRegoPaths(os.Args[2:])
	case "showrewrite":
		cmdShowRewrite()
	case "regodump":
		cmdRegoDump(os.Args[2:])
	default:
		usage()
	}
}

// repoDir is the tree under verification. The registered commands always use /repo;
// VERIF_REPO / VERIF_OUT exist so that the machinery itself can be tested against scratch
// copies (mutation sweeps) without touching /repo or the committed evidence.
var repoDir = func() string {
	if d := os.Getenv("VERIF_REPO"); d != "" {
		return d
	}
	return "/repo"
}()

func outDir() string {
	if d := os.Getenv("VERIF_OUT"); d != "" {
		return d
	}
	return verifDir()
}

const modPath = "github.com/aml-org/amf-custom-validator"

func verifDir() string {
	if d := os.Getenv("VERIF_DIR"); d != "" {
		return d
	}
	return "/verif"
}

func loadEngine() (*gosym.Engine, error) {
	return gosym.Load(gosym.LoadOptions{RepoDir: repoDir, HarnessDir: verifDir() + "/harness"})
}

func cmdRun(args []string) {
	fs := flag.NewFlagSet("run", flag.ExitOnError)
	workers := fs.Int("j", 16, "workers")
	trace := fs.Bool("trace", false, "trace")
	solver := fs.String("solver", "z3", "solver")
	maxPaths := fs.Int("max-paths", 0, "path bound")
	fs.Parse(args)
	if fs.NArg() < 2 {
		usage()
	}
	t0 := time.Now()
	e, err := loadEngine()
	if err != nil {
		fmt.Fprintln(os.Stderr, err)
		os.Exit(2)
	}
	fmt.Fprintf(os.Stderr, "loaded in %v\n", time.Since(t0))
	e.Cfg.Workers = *workers
	e.Cfg.Trace = *trace
	e.Cfg.Solver = *solver
	if *maxPaths > 0 {
		e.Cfg.MaxPaths = *maxPaths
	}
	res, err := e.Run(modPath+"/"+fs.Arg(0), fs.Arg(1))
	if err != nil {
		fmt.Fprintln(os.Stderr, err)
		os.Exit(2)
	}
	fmt.Fprintf(os.Stderr, "solver: sat=%d unsat=%d unknown=%d time=%.2fs\n", smt.StatSat, smt.StatUnsat, smt.StatUnknown, float64(smt.StatNanos)/1e9)
	res.Functions = nil
	b, _ := json.MarshalIndent(res, "", " ")
	fmt.Println(string(b))
}

func cmdRegoDump(args []string) {
	work := verifDir() + "/.work/dump"
	os.MkdirAll(work, 0o755)
	defer os.RemoveAll(work)
	d, err := regosym.BuildDriver(repoDir, verifDir(), work)
	if err != nil {
		fmt.Fprintln(os.Stderr, err)
		os.Exit(2)
	}
	b, _ := os.ReadFile(args[0])
	outs, err := d.Generate([]string{string(b)})
	if err != nil || outs[0].Error != "" {
		fmt.Fprintln(os.Stderr, err, outs)
		os.Exit(2)
	}
	if len(args) > 1 {
		fmt.Println(outs[0].Code)
		return
	}
	if err := regosym.Dump(outs[0].Code); err != nil {
		fmt.Fprintln(os.Stderr, err)
	}
}
