package main

import (
	"fmt"
	"os"
	"path/filepath"
	"sync"
	"time"

	"verif/regosym"
	"verif/smt"
)

// runPrograms generates the modules with the real generator (one native batch) and checks
// every program on its own scope, in parallel.
func runPrograms(work string, progs []regosym.Program, scope func(regosym.Program) regosym.Scope,
	known map[string]bool, workers int) ([]regosym.Outcome, error) {
	drv, err := regosym.BuildDriver(repoDir, verifDir(), work)
	if err != nil {
		return nil, err
	}
	texts := make([]string, len(progs))
	for i, p := range progs {
		texts[i] = p.ProfileYAML()
	}
	gens, err := drv.Generate(texts)
	if err != nil {
		return nil, err
	}
	outs := make([]regosym.Outcome, len(progs))
	var wg sync.WaitGroup
	jobs := make(chan int, len(progs))
	for i := range progs {
		jobs <- i
	}
	close(jobs)
	for w := 0; w < workers; w++ {
		wg.Add(1)
		go func() {
			defer wg.Done()
			s, err := smt.NewSolver("z3")
			if err != nil {
				return
			}
			defer s.Close()
			c := &regosym.Checker{Drv: drv, Solver: s}
			for i := range jobs {
				if gens[i].Error != "" {
					outs[i] = regosym.Outcome{Program: regosym.DescribeProgram(progs[i]), Profile: texts[i], Status: "generate-error", Label: "C07.module-compiles", Detail: gens[i].Error}
					continue
				}
				outs[i] = c.CheckVerdicts(progs[i], scope(progs[i]), gens[i].Code, known)
			}
		}()
	}
	wg.Wait()
	return outs, nil
}

func cmdRegoCheck(args []string) {
	work := filepath.Join(verifDir(), ".work", fmt.Sprintf("rego-%d", os.Getpid()))
	os.MkdirAll(work, 0o755)
	defer os.RemoveAll(work)
	var progs []regosym.Program
	fam := "atoms"
	if len(args) > 0 {
		fam = args[0]
	}
	switch fam {
	case "atoms":
		progs = regosym.FamilyAtoms(false)
	case "quant":
		progs = regosym.FamilyQuantified(false)
	case "skel1":
		progs = regosym.FamilySkeletons(1)
	case "skel2":
		progs = regosym.FamilySkeletons(2)
	case "nestedatoms":
		progs = regosym.FamilyNestedAtoms(true)
	case "atompaths":
		progs = regosym.FamilyAtomPaths(true)
	case "dbg1":
		a := regosym.Atom{Path: regosym.P(1), Kind: "datatype", Type: "boolean"}
		progs = []regosym.Program{{Name: "P", Validations: []regosym.Validation{{Name: "v", Level: "violation", Class: 0, F: regosym.Quant{Path: regosym.P(0), Least: false, N: 1, F: regosym.Not{F: regosym.And{Fs: []regosym.Formula{a}}}}}}}}
	case "varidx":
		progs = regosym.FamilyVariableIndex([]int{1, 2, 12, 22, 23, 24, 25, 26})
	}
	if len(args) > 1 {
		var n int
		fmt.Sscan(args[1], &n)
		if n < len(progs) {
			progs = progs[:n]
		}
	}
	if os.Getenv("VERIF_MISMATCH") != "" {
		drv, _ := regosym.BuildDriver(repoDir, verifDir(), work)
		sv, _ := smt.NewSolver("z3")
		ck := &regosym.Checker{Drv: drv, Solver: sv}
		for _, p := range progs {
			gens, _ := drv.Generate([]string{p.ProfileYAML()})
			fmt.Println(regosym.DescribeProgram(p))
			fmt.Println(ck.FindModelMismatch(p, regosym.ScopeFor(p, 3, 2, 4), gens[0].Code, 600))
		}
		return
	}
	t0 := time.Now()
	nn := 2
	if os.Getenv("VERIF_N") == "3" {
		nn = 3
	}
	kn := map[string]bool{}
	if os.Getenv("VERIF_KNOWN") != "" {
		for _, f := range loadFindings() {
			if f.Status == "known" && f.Signature != "" {
				kn[f.Signature] = true
			}
		}
	}
	outs, err := runPrograms(work, progs, func(p regosym.Program) regosym.Scope { return regosym.ScopeFor(p, nn, 2, 4) }, kn, 16)
	if err != nil {
		fmt.Fprintln(os.Stderr, err)
		os.Exit(2)
	}
	by := map[string]int{}
	for _, o := range outs {
		by[o.Status]++
		if o.Status != "held" {
			fmt.Printf("%-14s %s\n    %s\n", o.Status, o.Program, o.Detail)
			if o.Status == "violation" || o.Status == "model-mismatch" {
				fmt.Printf("    expected=%v predicted=%v actual=%v\n    model=%v\n", o.Expected, o.Predicted, o.Actual, o.Model)
				if o.Status == "model-mismatch" {
					fmt.Println(o.Data)
				}
			}
		}
	}
	fmt.Println(by, time.Since(t0))
}

// runPaths checks every path expression in every generator mode.
func runPaths(work string, paths []regosym.Path, modes []string, nFor func(regosym.Path) int, slots, workers int, known map[string]bool) ([]regosym.Outcome, error) {
	drv, err := regosym.BuildDriver(repoDir, verifDir(), work)
	if err != nil {
		return nil, err
	}
	type job struct {
		path regosym.Path
		mode string
		prog regosym.Program
	}
	var jobsl []job
	for _, p := range paths {
		for _, m := range modes {
			var f regosym.Formula
			switch m {
			case "set":
				f = regosym.Atom{Path: p, Kind: "minCount", N: 1}
			case "nodes":
				f = regosym.Nested{Path: p, F: regosym.Atom{Path: regosym.P(0), Kind: "minCount", N: 1}}
			default:
				f = regosym.Atom{Path: p, Kind: "uniqueValues"}
			}
			if m == "nodes" {
				if fw, _ := regosym.LastKinds(p); !fw && false {
					continue
				}
			}
			jobsl = append(jobsl, job{p, m, regosym.Program{Name: "P", Validations: []regosym.Validation{{Name: "v", Level: "violation", Class: 0, F: f}}}})
		}
	}
	texts := make([]string, len(jobsl))
	for i, j := range jobsl {
		texts[i] = j.prog.ProfileYAML()
	}
	gens, err := drv.Generate(texts)
	if err != nil {
		return nil, err
	}
	outs := make([]regosym.Outcome, len(jobsl))
	var wg sync.WaitGroup
	ch := make(chan int, len(jobsl))
	for i := range jobsl {
		ch <- i
	}
	close(ch)
	for w := 0; w < workers; w++ {
		wg.Add(1)
		go func() {
			defer wg.Done()
			s, err := smt.NewSolver("z3")
			if err != nil {
				return
			}
			defer s.Close()
			c := &regosym.Checker{Drv: drv, Solver: s, KnownPath: known[regosym.KnownPathClass]}
			for i := range ch {
				j := jobsl[i]
				if gens[i].Error != "" {
					outs[i] = regosym.Outcome{Program: j.mode + ":" + regosym.PathString(j.path), Profile: texts[i], Status: "generate-error", Label: "C07.module-compiles", Detail: gens[i].Error}
					continue
				}
				sc := regosym.ScopeFor(j.prog, nFor(j.path), slots, 1)
				outs[i] = c.CheckPath(j.path, j.mode, sc, gens[i].Code, texts[i])
			}
		}()
	}
	wg.Wait()
	return outs, nil
}

func cmdRegoPaths(args []string) {
	work := filepath.Join(verifDir(), ".work", fmt.Sprintf("regop-%d", os.Getpid()))
	os.MkdirAll(work, 0o755)
	defer os.RemoveAll(work)
	occ, n := 2, 2
	if len(args) > 0 {
		fmt.Sscan(args[0], &occ)
	}
	if len(args) > 1 {
		fmt.Sscan(args[1], &n)
	}
	var paths []regosym.Path
	for _, p := range regosym.PathShapes(occ, 2, true) {
		if regosym.Homogeneous(p) {
			paths = append(paths, p)
		}
	}
	t0 := time.Now()
	outs, err := runPaths(work, paths, []string{"set", "nodes", "array"}, func(regosym.Path) int { return n }, 2, 16, map[string]bool{regosym.KnownPathClass: true})
	if err != nil {
		fmt.Fprintln(os.Stderr, err)
		os.Exit(2)
	}
	by := map[string]int{}
	for _, o := range outs {
		by[o.Status]++
		if o.Status != "held" {
			fmt.Printf("%-14s %s\n    %s\n", o.Status, o.Program, o.Detail)
		}
	}
	fmt.Println(len(paths), "paths", by, time.Since(t0))
}

// runShapes checks the result-shape / location / message obligations for every program.
func runShapes(work string, progs []regosym.Program, scope func(regosym.Program) regosym.Scope, opts regosym.ShapeOptions, workers int) ([]regosym.Outcome, error) {
	drv, err := regosym.BuildDriver(repoDir, verifDir(), work)
	if err != nil {
		return nil, err
	}
	texts := make([]string, len(progs))
	for i, p := range progs {
		texts[i] = p.ProfileYAML()
	}
	gens, err := drv.Generate(texts)
	if err != nil {
		return nil, err
	}
	outs := make([]regosym.Outcome, len(progs))
	var wg sync.WaitGroup
	jobs := make(chan int, len(progs))
	for i := range progs {
		jobs <- i
	}
	close(jobs)
	for w := 0; w < workers; w++ {
		wg.Add(1)
		go func() {
			defer wg.Done()
			s, err := smt.NewSolver("z3")
			if err != nil {
				return
			}
			defer s.Close()
			c := &regosym.Checker{Drv: drv, Solver: s}
			for i := range jobs {
				if gens[i].Error != "" {
					outs[i] = regosym.Outcome{Program: regosym.DescribeProgram(progs[i]), Profile: texts[i], Status: "generate-error", Label: "C07.module-compiles", Detail: gens[i].Error}
					continue
				}
				outs[i] = c.CheckShapes(progs[i], scope(progs[i]), gens[i].Code, opts)
			}
		}()
	}
	wg.Wait()
	return outs, nil
}

// runRewrites checks base profile x rewrite pairs for equal results on all graphs of the scope.
func runRewrites(work string, bases []regosym.Program, rewrites []regosym.RewriteOpts, n int, workers int) ([]regosym.Outcome, error) {
	drv, err := regosym.BuildDriver(repoDir, verifDir(), work)
	if err != nil {
		return nil, err
	}
	type job struct {
		desc         string
		base         regosym.Program
		textA, textB string
	}
	var jobsl []job
	var texts []string
	for _, b := range bases {
		ta := regosym.RewriteOpts{}.Render(b)
		for _, rw := range rewrites {
			tb := rw.Render(b)
			jobsl = append(jobsl, job{b.Name + " / " + rw.Description, b, ta, tb})
			texts = append(texts, ta, tb)
		}
	}
	gens, err := drv.Generate(texts)
	if err != nil {
		return nil, err
	}
	outs := make([]regosym.Outcome, len(jobsl))
	var wg sync.WaitGroup
	ch := make(chan int, len(jobsl))
	for i := range jobsl {
		ch <- i
	}
	close(ch)
	for w := 0; w < workers; w++ {
		wg.Add(1)
		go func() {
			defer wg.Done()
			s, err := smt.NewSolver("z3")
			if err != nil {
				return
			}
			defer s.Close()
			c := &regosym.Checker{Drv: drv, Solver: s}
			for i := range ch {
				j := jobsl[i]
				ga, gb := gens[2*i], gens[2*i+1]
				if ga.Error != "" || gb.Error != "" {
					outs[i] = regosym.Outcome{Program: j.desc, Profile: j.textB, Status: "generate-error", Label: "C15.results-eq-under-rewrite", Detail: "original: " + ga.Error + " rewritten: " + gb.Error}
					if (ga.Error == "") != (gb.Error == "") {
						outs[i].Status = "violation"
						outs[i].Data = "{}"
					}
					continue
				}
				outs[i] = c.CheckEquivalent(j.desc, j.textA, j.textB, ga.Code, gb.Code, regosym.ScopeFor(j.base, n, 2, 3))
			}
		}()
	}
	wg.Wait()
	return outs, nil
}
