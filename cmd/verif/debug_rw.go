package main

import (
	"fmt"

	"verif/regosym"
)

func cmdShowRewrite() {
	b := regosym.BaseProfilesC15()[1]
	fmt.Println(regosym.RewriteOpts{}.Render(b))
	fmt.Println("-----")
	fmt.Println(regosym.Rewrites()[4].Render(b))
}
