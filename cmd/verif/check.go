package main

func cmdCheck(args []string) int    { return 2 }
func cmdSelftest(args []string) int { return 2 }
func cmdReplay(args []string) int   { return 2 }
func cmdExterns()                   {}
