package main

import (
	"crypto/sha1"
	"encoding/json"
	"flag"
	"fmt"
	"os"
	"os/exec"
	"path/filepath"
	"sort"
	"strconv"
	"strings"
	"time"

	"verif/gosym"
	"verif/regosym"
	"verif/smt"
)

// HarnessSpec names one gosym harness and the bounds it runs under.
// droppedHarnessFiles: virtual path -> empty replacement, for harness files the loader left out
var droppedHarnessFiles = map[string][]byte{}

type HarnessSpec struct {
	Pkg        string   // import path suffix below the module
	Fn         string   // harness function
	Reach      []string // labels that must be reached on some feasible path (vacuity witnesses)
	MaxPaths   int
	MaxSteps   int
	Native     string // native replay function ("" = the harness itself)
	NoReplay   bool   // violations of this harness are confirmed by Native only
	Race       bool   // replay under the race detector; a reported data race reproduces the violation
	NativeOnly bool   // not a gosym harness: run natively (confirmation of a stated assumption)
	CrossCheck bool   // thorough tier: every query is also sent to z3 5.1 and cvc5; a disagreement is inconclusive
	Bounds     map[string]any
}

// PropertySpec describes how one property is decided.
type PropertySpec struct {
	ID          string
	Level       string
	Harnesses   func(tier string) []HarnessSpec
	Extra       func(ctx *checkCtx) // additional (non-gosym) obligations, e.g. regosym
	Assumptions []string
	Rule        string
	Explanation string
	TrustedBase []string
}

type finding struct {
	Property  string `json:"property"`
	Label     string `json:"label"`
	Harness   string `json:"harness,omitempty"`
	Status    string `json:"status"` // known | fixed
	Commit    string `json:"commit,omitempty"`
	Signature string `json:"signature,omitempty"`
	What      string `json:"what"`
}

type checkCtx struct {
	spec          *PropertySpec
	tier          string
	seed          int
	eng           *gosym.Engine
	t0            time.Time
	work          string
	findings      []finding
	inconcl       []string
	violations    []string // printed VIOLATION lines
	known         []string
	evidence      map[string]any
	samples       []any
	states        int
	transitions   int
	replayed      int
	programs      int
	disagreements int
	functions     map[string]bool
	intrinsics    map[string]bool
	harnessRes    []map[string]any
	nviol         int
	distinct      map[string]bool
}

func loadFindings() []finding {
	b, err := os.ReadFile(filepath.Join(verifDir(), "known_findings.json"))
	if err != nil {
		return nil
	}
	var f struct {
		Findings []finding `json:"findings"`
	}
	if err := json.Unmarshal(b, &f); err != nil {
		fmt.Fprintln(os.Stderr, "known_findings.json:", err)
		os.Exit(2)
	}
	return f.Findings
}

func (c *checkCtx) isKnown(label, harness string) (finding, bool) {
	for _, f := range c.findings {
		if f.Status != "known" || f.Property != c.spec.ID || f.Label != label {
			continue
		}
		if f.Harness != "" && f.Harness != harness {
			continue
		}
		return f, true
	}
	return finding{}, false
}

func (c *checkCtx) inconclusive(reason string) {
	c.inconcl = append(c.inconcl, reason)
}

func cmdCheck(args []string) int {
	fs := flag.NewFlagSet("check", flag.ExitOnError)
	tier := fs.String("tier", os.Getenv("VERIF_TIER"), "quick|thorough")
	workers := fs.Int("j", 16, "workers")
	var id string
	if len(args) > 0 && !strings.HasPrefix(args[0], "-") {
		id = args[0]
		args = args[1:]
	}
	fs.Parse(args)
	if id == "" && fs.NArg() > 0 {
		id = fs.Arg(0)
	}
	if *tier == "" {
		*tier = "quick"
	}
	spec := properties[id]
	if spec == nil {
		fmt.Fprintf(os.Stderr, "unknown property %q\n", id)
		return 2
	}
	seed, _ := strconv.Atoi(os.Getenv("VERIF_SEED"))
	c := &checkCtx{spec: spec, tier: *tier, seed: seed, t0: time.Now(), findings: loadFindings(),
		functions: map[string]bool{}, intrinsics: map[string]bool{}, distinct: map[string]bool{}, evidence: map[string]any{}}
	c.work = filepath.Join(verifDir(), ".work", fmt.Sprintf("%s-%d", id, os.Getpid()))
	os.MkdirAll(c.work, 0o755)
	defer os.RemoveAll(c.work)

	var hs []HarnessSpec
	if spec.Harnesses != nil {
		hs = spec.Harnesses(*tier)
	}
	if len(hs) > 0 {
		e, err := loadEngine()
		if err != nil {
			fmt.Printf("INCONCLUSIVE property=%s reason=load: %v\n", id, err)
			c.inconclusive("load: " + err.Error())
			c.writeEvidence()
			return 2
		}
		c.eng = e
		for file := range e.Dropped {
			rel, _ := filepath.Rel(repoDir, file)
			droppedHarnessFiles[file] = gosym.EmptyHarnessFile(filepath.Join(verifDir(), "harness", rel))
			fmt.Printf("NOTE property=%s harness file %s does not type-check on this tree and was left out: %s\n", id, rel, e.Dropped[file][0])
		}
		for _, h := range hs {
			c.runHarness(h, *workers)
		}
	}
	if spec.Extra != nil {
		spec.Extra(c)
	}
	c.writeEvidence()
	for _, k := range c.known {
		fmt.Println(k)
	}
	if len(c.violations) > 0 {
		for _, v := range c.violations {
			fmt.Println(v)
		}
		return 1
	}
	if len(c.inconcl) > 0 {
		for _, r := range c.inconcl {
			fmt.Printf("INCONCLUSIVE property=%s reason=%s\n", id, r)
		}
		return 2
	}
	fmt.Printf("OK property=%s tier=%s states=%d queries=%d wall=%.1fs\n", id, *tier, c.states, smt.StatSat+smt.StatUnsat+smt.StatUnknown, time.Since(c.t0).Seconds())
	return 0
}

// runNativeOnly runs a harness function as an ordinary test against /repo.
func (c *checkCtx) runNativeOnly(h HarnessSpec) {
	dir := filepath.Join(c.work, "native-"+h.Fn)
	os.MkdirAll(dir, 0o755)
	in := map[string]any{"harness": h.Fn, "package": h.Pkg, "label": "", "inputs": map[string]any{}}
	b, _ := json.Marshal(in)
	os.WriteFile(filepath.Join(dir, "inputs.json"), b, 0o644)
	t0 := time.Now()
	_, out := nativeReplay(dir, c.work)
	failed := map[string]bool{}
	for _, l := range strings.Split(out, "\n") {
		if strings.HasPrefix(l, "VERIF_ASSERT_FAILED label=") {
			failed[strings.TrimPrefix(l, "VERIF_ASSERT_FAILED label=")] = true
		}
	}
	ran := strings.Contains(out, "ok  \t") || strings.Contains(out, "--- FAIL")
	c.harnessRes = append(c.harnessRes, map[string]any{"harness": h.Fn, "package": h.Pkg, "native_only": true, "failed_labels": len(failed), "wall_s": time.Since(t0).Seconds(), "bounds": h.Bounds})
	c.replayed++
	if !ran || strings.Contains(out, "VERIF_PANIC") {
		c.inconclusive(fmt.Sprintf("%s: native run did not complete: %s", h.Fn, lastLines(out, 5)))
		return
	}
	var labels []string
	for l := range failed {
		labels = append(labels, l)
	}
	sort.Strings(labels)
	for _, lab := range labels {
		if f, ok := c.isKnown(lab, h.Fn); ok {
			c.known = append(c.known, fmt.Sprintf("KNOWN-FINDING: property=%s %s [%s in %s]", c.spec.ID, f.What, lab, h.Fn))
			continue
		}
		keep := filepath.Join(outDir(), "replays", c.spec.ID, "native-"+h.Fn)
		os.MkdirAll(keep, 0o755)
		os.WriteFile(filepath.Join(keep, "inputs.json"), b, 0o644)
		os.WriteFile(filepath.Join(keep, "native_output.txt"), []byte(out), 0o644)
		c.violations = append(c.violations, fmt.Sprintf("VIOLATION property=%s replay=%s label=%s harness=%s", c.spec.ID, keep, lab, h.Fn))
	}
}

func lastLines(s string, n int) string {
	ls := strings.Split(strings.TrimSpace(s), "\n")
	if len(ls) > n {
		ls = ls[len(ls)-n:]
	}
	return strings.Join(ls, " | ")
}

func (c *checkCtx) runHarness(h HarnessSpec, workers int) {
	if h.NativeOnly {
		c.runNativeOnly(h)
		return
	}
	e := c.eng
	e.Cfg = gosym.DefaultConfig()
	e.Cfg.Workers = workers
	// a harness never runs away: past its time budget the exploration stops and the check is
	// inconclusive (unless a violation was already confirmed)
	e.Cfg.Timeout = 5 * time.Minute
	if c.tier == "thorough" {
		e.Cfg.Timeout = 45 * time.Minute
		e.Cfg.Deep = true
	}
	if h.MaxPaths > 0 {
		e.Cfg.MaxPaths = h.MaxPaths
	}
	if h.MaxSteps > 0 {
		e.Cfg.MaxSteps = h.MaxSteps
	}
	e.Cfg.PerLabelCap = 3
	if h.CrossCheck && c.tier == "thorough" {
		e.Cfg.CrossCheck = []string{"z3-new", "cvc5"}
	}
	res, err := e.Run(modPath+"/"+h.Pkg, h.Fn)
	if err != nil {
		c.inconclusive(fmt.Sprintf("%s: %v", h.Fn, err))
		return
	}
	c.states += res.Paths
	c.transitions += int(res.Decisions)
	for f := range res.Functions {
		c.functions[f] = true
	}
	for f := range res.Intrinsics {
		c.intrinsics[f] = true
	}
	hr := map[string]any{"harness": h.Fn, "package": h.Pkg, "paths": res.Paths, "by_status": res.ByStatus, "reach": res.Reach,
		"decisions": res.Decisions, "ssa_instructions": res.Steps, "wall_s": res.Wall.Seconds(), "bounds": h.Bounds,
		"violation_counts": res.ViolCount, "max_path_instructions": res.MaxPathSteps}
	c.harnessRes = append(c.harnessRes, hr)
	if res.Truncated {
		c.inconclusive(fmt.Sprintf("%s: path bound %d or time budget %s exceeded (bound-exceeded, not a pass)", h.Fn, e.Cfg.MaxPaths, e.Cfg.Timeout))
	}
	for _, u := range res.Unsupported {
		c.inconclusive(fmt.Sprintf("%s: %s", h.Fn, u))
	}
	for _, b := range res.Bound {
		c.inconclusive(fmt.Sprintf("%s: bound-exceeded: %s", h.Fn, b))
	}
	for _, r := range h.Reach {
		if res.Reach[r] == 0 {
			c.inconclusive(fmt.Sprintf("%s: vacuous: label %q never reached", h.Fn, r))
		}
	}
	for i, s := range res.Samples {
		if i >= 3 {
			break
		}
		c.samples = append(c.samples, map[string]any{"harness": h.Fn, "decisions": s.Decisions, "inputs": s.Inputs, "reach": s.Reach, "notes": s.Notes, "instructions": s.Steps})
	}
	for _, s := range res.Samples {
		c.distinct[fmt.Sprint(h.Fn, s.Decisions)] = true
	}
	// group violations by label
	byLabel := map[string][]gosym.Violation{}
	var labels []string
	for _, v := range res.Violations {
		if _, ok := byLabel[v.Label]; !ok {
			labels = append(labels, v.Label)
		}
		byLabel[v.Label] = append(byLabel[v.Label], v)
	}
	sort.Strings(labels)
	for _, lab := range labels {
		vs := byLabel[lab]
		c.nviol += res.ViolCount[lab]
		if f, ok := c.isKnown(lab, h.Fn); ok {
			line := fmt.Sprintf("KNOWN-FINDING: property=%s %s [%s in %s; %d path(s)]", c.spec.ID, f.What, lab, h.Fn, res.ViolCount[lab])
			c.known = append(c.known, line)
			if c.tier == "thorough" {
				// confirm the finding still reproduces natively
				if ok, _, _ := c.replay(h, vs[0]); ok {
					c.replayed++
				}
			}
			continue
		}
		confirmed := false
		var dir string
		for _, v := range vs {
			ok, d, out := c.replay(h, v)
			c.replayed++
			if ok {
				confirmed, dir = true, d
				break
			}
			_ = out
		}
		if confirmed {
			c.violations = append(c.violations, fmt.Sprintf("VIOLATION property=%s replay=%s label=%s harness=%s", c.spec.ID, dir, lab, h.Fn))
		} else {
			c.inconclusive(fmt.Sprintf("%s: counterexample for %s does not reproduce natively (encoding or stub wrong); inputs=%v", h.Fn, lab, vs[0].Inputs))
		}
	}
}

// replay re-runs the harness (or its native twin) as an ordinary Go test against /repo.
func (c *checkCtx) replay(h HarnessSpec, v gosym.Violation) (bool, string, string) {
	sum := sha1.Sum([]byte(fmt.Sprint(v.Label, v.Inputs, h.Fn)))
	dir := filepath.Join(outDir(), "replays", c.spec.ID, fmt.Sprintf("%x", sum[:6]))
	os.MkdirAll(dir, 0o755)
	fn := h.Fn
	if h.Native != "" {
		fn = h.Native
	}
	in := map[string]any{"race": h.Race, "harness": fn, "package": h.Pkg, "label": v.Label, "inputs": v.Inputs, "message": v.Msg, "position": v.Pos, "notes": v.Notes}
	b, _ := json.MarshalIndent(in, "", " ")
	os.WriteFile(filepath.Join(dir, "inputs.json"), b, 0o644)
	cmd := fmt.Sprintf("#!/bin/sh\n# re-runs the counterexample natively against /repo's working tree\nexec %s/bin/verif replay %s\n", verifDir(), dir)
	os.WriteFile(filepath.Join(dir, "cmd.sh"), []byte(cmd), 0o755)
	ok, out := nativeReplay(dir, c.work)
	os.WriteFile(filepath.Join(dir, "native_output.txt"), []byte(out), 0o644)
	return ok, dir, out
}

// nativeReplay builds and runs the replay test. It returns true when the
// recorded label fails again natively.
func nativeReplay(dir, work string) (bool, string) {
	b, err := os.ReadFile(filepath.Join(dir, "inputs.json"))
	if err != nil {
		return false, err.Error()
	}
	var in struct {
		Harness string `json:"harness"`
		Package string `json:"package"`
		Label   string `json:"label"`
		Race    bool   `json:"race"`
	}
	json.Unmarshal(b, &in)
	if work == "" {
		work = filepath.Join(verifDir(), ".work", fmt.Sprintf("replay-%d", os.Getpid()))
		os.MkdirAll(work, 0o755)
		defer os.RemoveAll(work)
	}
	ov, _, err := gosym.BuildOverlay(repoDir, verifDir()+"/harness")
	if err != nil {
		return false, err.Error()
	}
	replace := map[string]string{}
	for virt := range ov {
		rel, _ := filepath.Rel(repoDir, virt)
		replace[virt] = filepath.Join(verifDir(), "harness", rel)
	}
	// harness files that were left out of the symbolic run (they no longer type-check on this tree)
	// are left out of the replay as well
	for virt, content := range droppedHarnessFiles {
		f := filepath.Join(work, "dropped-"+strings.ReplaceAll(strings.TrimPrefix(virt, repoDir), "/", "_"))
		if os.WriteFile(f, content, 0o644) == nil {
			replace[virt] = f
		}
	}
	pkgName := packageNameOf(filepath.Join(repoDir, in.Package))
	test := fmt.Sprintf(`//go:build verif

package %s

import (
	"fmt"
	"testing"

	zzv "%s/internal/zzverif"
)

func TestVerifReplay(t *testing.T) {
	defer func() {
		if r := recover(); r != nil {
			if _, ok := r.(zzv.AssumeFalse); ok {
				return
			}
			fmt.Printf("VERIF_PANIC %%v\n", r)
			t.Fatalf("panic: %%v", r)
		}
	}()
	%s()
	if len(zzv.Failed) > 0 {
		t.Fatalf("assertions failed: %%v", zzv.Failed)
	}
}
`, pkgName, modPath, in.Harness)
	testPath := filepath.Join(work, "zz_verif_replay_test.go")
	os.WriteFile(testPath, []byte(test), 0o644)
	replace[filepath.Join(repoDir, in.Package, "zz_verif_replay_test.go")] = testPath
	ovb, _ := json.Marshal(map[string]any{"Replace": replace})
	ovPath := filepath.Join(work, "overlay.json")
	os.WriteFile(ovPath, ovb, 0o644)
	args := []string{"600", "go", "test", "-tags", "verif", "-overlay", ovPath, "-vet=off", "-count=1", "-run", "^TestVerifReplay$"}
	if in.Race {
		args = append(args, "-race")
	}
	args = append(args, "./"+in.Package)
	cmd := exec.Command("timeout", args...)
	cmd.Dir = repoDir
	cmd.Env = append(os.Environ(), "GOFLAGS=-mod=mod", "GOPROXY=off", "GOSUMDB=off", "GOTOOLCHAIN=local", "VERIF_REPLAY="+filepath.Join(dir, "inputs.json"))
	outb, _ := cmd.CombinedOutput()
	out := string(outb)
	if in.Race && strings.Contains(out, "WARNING: DATA RACE") {
		return true, out
	}
	if strings.HasPrefix(in.Label, "PANIC:fatal error: stack overflow") {
		return strings.Contains(out, "fatal error: stack overflow") || strings.Contains(out, "goroutine stack exceeds"), out
	}
	if strings.HasPrefix(in.Label, "PANIC:") {
		return strings.Contains(out, "VERIF_PANIC"), out
	}
	if strings.HasPrefix(in.Label, "BLOCK:") {
		return strings.Contains(out, "VERIF_ASSERT_FAILED label="+in.Label) || strings.Contains(out, "deadlock") || strings.Contains(out, "timed out"), out
	}
	return strings.Contains(out, "VERIF_ASSERT_FAILED label="+in.Label+"\n"), out
}

func packageNameOf(dir string) string {
	ents, _ := os.ReadDir(dir)
	for _, e := range ents {
		if strings.HasSuffix(e.Name(), ".go") && !strings.HasSuffix(e.Name(), "_test.go") {
			b, _ := os.ReadFile(filepath.Join(dir, e.Name()))
			for _, l := range strings.Split(string(b), "\n") {
				if strings.HasPrefix(l, "package ") {
					return strings.TrimSpace(strings.TrimPrefix(l, "package "))
				}
			}
		}
	}
	// virtual package (only exists in the overlay)
	return filepath.Base(dir)
}

func cmdReplay(args []string) int {
	if len(args) < 1 {
		usage()
	}
	if b, err := os.ReadFile(filepath.Join(args[0], "inputs.json")); err == nil && strings.Contains(string(b), "\"kind\": \"rego-") {
		return replayRego(args[0])
	}
	ok, out := nativeReplay(args[0], "")
	fmt.Print(out)
	if ok {
		fmt.Println("REPRODUCED")
		return 1
	}
	fmt.Println("NOT REPRODUCED")
	return 0
}

func (c *checkCtx) writeEvidence() {
	spec := c.spec
	cov := map[string]any{}
	for k, v := range c.evidence {
		cov[k] = v
	}
	var fns, intr []string
	for f := range c.functions {
		if strings.Contains(f, modPath) && !strings.Contains(f, "zzverif") {
			fns = append(fns, strings.ReplaceAll(f, modPath+"/", ""))
		}
	}
	for f := range c.intrinsics {
		intr = append(intr, f)
	}
	sort.Strings(fns)
	sort.Strings(intr)
	cov["functions_encoded"] = fns
	cov["intrinsics_and_stubs_used"] = intr
	cov["harnesses"] = c.harnessRes
	cov["queries"] = map[string]any{"sat": smt.StatSat, "unsat": smt.StatUnsat, "unknown": smt.StatUnknown, "errors": smt.StatErrors}
	cov["solver_s"] = float64(smt.StatNanos) / 1e9
	cov["cross_solver"] = map[string]any{"queries_cross_checked_on_z3-5.1_and_cvc5": smt.StatCrossChecked, "disagreements": smt.StatCrossMismatch}
	if smt.StatCrossMismatch > 0 {
		c.inconclusive(fmt.Sprintf("%d queries on which the solver back ends disagree", smt.StatCrossMismatch))
	}
	cov["solver"] = "z3 4.8.12 (z3 -in, one process per worker)"
	cov["inconclusive"] = c.inconcl
	cov["known_findings_matched"] = c.known
	cov["rule"] = spec.Rule
	if len(c.samples) == 0 {
		c.samples = append(c.samples, map[string]any{"note": "no completed path sample recorded"})
	}
	cov["samples"] = c.samples
	cov["evaluations"] = c.states + c.programs
	cov["distinct_nontrivial"] = c.states + c.programs
	cov["traces_validated_against_impl"] = c.replayed
	switch spec.Level {
	case "model_checking":
		cov["states"] = c.states
		cov["transitions"] = c.transitions
	case "translation_validation":
		cov["programs"] = c.programs
		cov["disagreements_checked"] = c.disagreements
		cov["states"] = c.states
		cov["transitions"] = c.transitions
	default:
		cov["explanation"] = spec.Explanation
	}
	cov["trusted_base"] = spec.TrustedBase
	ev := map[string]any{
		"property_id": spec.ID, "tier": c.tier, "seed": c.seed, "level": spec.Level, "coverage": cov,
		"assumptions": spec.Assumptions, "wall_s": time.Since(c.t0).Seconds(), "violations": len(c.violations),
	}
	b, _ := json.MarshalIndent(ev, "", " ")
	os.MkdirAll(filepath.Join(outDir(), "evidence"), 0o755)
	os.WriteFile(filepath.Join(outDir(), "evidence", spec.ID+".json"), b, 0o644)
}

// replayRego re-runs a regosym counterexample (profile.yaml + data.jsonld) through the real
// entry point built from /repo's working tree and compares with the recorded reference verdict.
func replayRego(dir string) int {
	var in struct {
		Kind     string   `json:"kind"`
		Label    string   `json:"label"`
		Expected []string `json:"expected"`
		Program  string   `json:"program"`
		Detail   string   `json:"detail"`
		Replay   struct {
			ExpectedLocations map[string]any    `json:"expected_locations"`
			TracePaths        map[string]string `json:"trace_paths"`
			ProfileName       string            `json:"profile_name"`
		} `json:"replay_data"`
	}
	b, _ := os.ReadFile(filepath.Join(dir, "inputs.json"))
	dec := json.NewDecoder(strings.NewReader(string(b)))
	dec.UseNumber()
	dec.Decode(&in)
	prof, _ := os.ReadFile(filepath.Join(dir, "profile.yaml"))
	data, _ := os.ReadFile(filepath.Join(dir, "data.jsonld"))
	work := filepath.Join(verifDir(), ".work", fmt.Sprintf("replay-%d", os.Getpid()))
	os.MkdirAll(work, 0o755)
	defer os.RemoveAll(work)
	drv, err := regosym.BuildDriver(repoDir, verifDir(), work)
	if err != nil {
		fmt.Println(err)
		return 2
	}
	if in.Kind == "rego-compile" {
		gens, gerr := drv.Generate([]string{string(prof)})
		if gerr != nil {
			fmt.Println(gerr)
			return 2
		}
		msg := gens[0].Error
		if msg == "" {
			msg = gosym.RegoCompileError(gens[0].Code)
		}
		fmt.Printf("program:  %s\nrecorded: %s\nnow:      %s\n", in.Program, in.Detail, msg)
		if msg != "" {
			fmt.Println("REPRODUCED")
			return 1
		}
		fmt.Println("NOT REPRODUCED")
		return 0
	}
	outs, err := drv.Validate([]regosym.ValIn{{Profile: string(prof), Data: string(data)}})
	if err != nil || outs[0].Error != "" {
		fmt.Println("validation failed:", err, outs[0].Error)
		return 2
	}
	if in.Kind == "rego-shape" {
		var names []string
		for _, part := range strings.Split(in.Program, "; ") {
			if i := strings.Index(part, "["); i > 0 {
				names = append(names, part[:i])
			}
		}
		problems := regosym.ReplayShapeProblems(outs[0].Report, names, in.Replay.ExpectedLocations, strings.HasPrefix(in.Label, "C12."), in.Replay.TracePaths)
		if in.Replay.ProfileName != "" && !strings.Contains(outs[0].Report, "\"profileName\": "+strconv.Quote(in.Replay.ProfileName)) && strings.HasPrefix(in.Label, "C03.") {
			problems = append(problems, "C03.profile-name")
		}
		fmt.Printf("program:  %s\nrecorded: %s\nproblems in the real report now: %v\n", in.Program, in.Detail, problems)
		for _, pr := range problems {
			if strings.HasPrefix(pr, strings.SplitN(in.Label, ".", 2)[0]) {
				fmt.Println("REPRODUCED")
				return 1
			}
		}
		fmt.Println("NOT REPRODUCED")
		return 0
	}
	if in.Kind == "rego-path" {
		fmt.Printf("program:  %s\nrecorded: %s\n(re-run `verif check C02` to re-evaluate the generated path rule with the real OPA)\n", in.Program, in.Detail)
		return 1
	}
	actual, conforms, err := regosym.RealResults(outs[0].Report)
	if err != nil {
		fmt.Println(err)
		return 2
	}
	sort.Strings(in.Expected)
	fmt.Printf("program:   %s\nreference: %v\nreal:      %v (conforms=%v)\n", in.Program, in.Expected, actual, conforms)
	if strings.Join(actual, ",") != strings.Join(in.Expected, ",") {
		fmt.Println("REPRODUCED")
		return 1
	}
	fmt.Println("NOT REPRODUCED")
	return 0
}
