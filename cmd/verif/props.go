package main

var properties = map[string]*PropertySpec{}

func reg(p *PropertySpec) { properties[p.ID] = p }

const stdTrusted = "gosym (SSA executor derived from x/tools/go/ssa/interp), the SMT term layer, z3 4.8.12; go/ssa construction; intrinsics listed in coverage.intrinsics_and_stubs_used"

func init() {
	reg(&PropertySpec{
		ID: "C18", Level: "model_checking",
		Rule: "one state = one feasible path of the real cmd/commands + helpers code over the stubbed environment (symbolic report bytes, symbolic prior content of the output file, symbolic library-failure flag); every path is distinct (different decision vector)",
		Harnesses: func(tier string) []HarnessSpec {
			return []HarnessSpec{
				{Pkg: "cmd/commands", Fn: "VerifC18Validate", Native: "VerifC18ValidateNative", Reach: []string{"lib-failed", "printed", "readonly", "wrote-file"},
					Bounds: map[string]any{"report_len": "1..3 symbolic bytes", "prior_len": "0..5 symbolic bytes", "prior_state": "absent|present|read-only"}},
				{Pkg: "cmd/commands", Fn: "VerifC18Generate", Reach: []string{"lib-failed", "printed"}, Bounds: map[string]any{"code_len": "1..3 symbolic bytes"}},
				{Pkg: "cmd/commands", Fn: "VerifC18Normalize", Reach: []string{"lib-failed", "printed"}, Bounds: map[string]any{"text_len": "1..3 symbolic bytes"}},
				{Pkg: "cmd/commands", Fn: "VerifC18Args", Reach: []string{"bad-invocation", "good-invocation"}, Bounds: map[string]any{"len(os.Args)": "2..6", "input files": "present|missing"}},
			}
		},
		Assumptions: []string{
			"file system model: OpenFile(O_RDWR) positions at offset 0 and does not truncate unless O_TRUNC; Create truncates; WriteString overwrites from the offset and extends; a read-only file refuses O_RDWR/O_WRONLY; Sync/Close succeed",
			"the library (validator.Validate / GenerateRego / ProcessInput / Encode) is an arbitrary function returning either an error or an arbitrary text (symbolic bytes)",
			"os.Exit(n) ends the process with status n; an escaping panic ends it with status 2 and prints nothing further on stdout",
			"report/text lengths 1..3 and prior contents 0..5 bytes; longer texts are outside the bound (the code has no length-dependent branches beyond offset arithmetic)",
		},
		TrustedBase: []string{stdTrusted, "the environment stubs in gosym/stubs.go (os, io/ioutil, fmt.Println/Fprintf, errors.Is)"},
	})
}
