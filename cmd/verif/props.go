package main

var properties = map[string]*PropertySpec{}

func reg(p *PropertySpec) { properties[p.ID] = p }

const stdTrusted = "gosym (SSA executor derived from x/tools/go/ssa/interp), the SMT term layer, z3 4.8.12; go/ssa construction; intrinsics listed in coverage.intrinsics_and_stubs_used"

func init() {
	reg(&PropertySpec{
		ID: "C18", Level: "model_checking",
		Rule: "one state = one feasible path of the real cmd/commands + helpers code over the stubbed environment (symbolic report bytes, symbolic prior content of the output file, symbolic library-failure flag); every path is distinct (different decision vector)",
		Harnesses: func(tier string) []HarnessSpec {
			return []HarnessSpec{
				{Pkg: "cmd/commands", Fn: "VerifC18LargeFilesNative", NativeOnly: true, Bounds: map[string]any{"files": "data of 1.2 MiB (50 nodes with 25 kB texts), a profile with a 3 MiB comment, data followed by 1 MiB of blanks: native only, no solver (sizes the byte-wise file model does not reach)"}},
				{Pkg: "internal/validator", Fn: "VerifC18LibrarySilent", Native: "VerifC18LibrarySilentNative", Reach: []string{"returned"}, Bounds: map[string]any{"profiles": "the usual one, one with level names that have no definition and a validation nobody lists, one without targetClass, one that is not YAML", "entry_points": "GenerateRego, Validate, ProcessProfile+ValidateCompiled, ProcessInput", "stage_faults": "every assignment"}},
				{Pkg: "cmd/commands", Fn: "VerifC18Validate", CrossCheck: true, Native: "VerifC18ValidateNative", Reach: []string{"lib-failed", "printed", "readonly", "wrote-file"},
					Bounds: map[string]any{"report_len": "1..3 symbolic bytes", "prior_len": "0..5 symbolic bytes", "prior_state": "absent|present|read-only"}},
				{Pkg: "cmd/commands", Fn: "VerifC18Generate", Native: "VerifC18GenerateNative", Reach: []string{"lib-failed", "printed"}, Bounds: map[string]any{"code_len": "1..3 symbolic bytes"}},
				{Pkg: "cmd/commands", Fn: "VerifC18Normalize", Native: "VerifC18NormalizeNative", Reach: []string{"lib-failed", "printed"}, Bounds: map[string]any{"text_len": "1..3 symbolic bytes"}},
				{Pkg: "cmd/commands", Fn: "VerifC18Args", Reach: []string{"bad-invocation", "good-invocation"}, Bounds: map[string]any{"len(os.Args)": "2..6", "input files": "present|missing"}},
			}
		},
		Assumptions: []string{
			"file system model: OpenFile(O_RDWR) positions at offset 0 and does not truncate unless O_TRUNC; Create truncates; WriteString overwrites from the offset and extends; a read-only file refuses O_RDWR/O_WRONLY; Sync/Close succeed",
			"the library (validator.Validate / GenerateRego / ProcessInput / Encode) is an arbitrary function returning either an error or an arbitrary text (symbolic bytes)",
			"os.Exit(n) ends the process with status n; an escaping panic ends it with status 2 and prints nothing further on stdout",
			"report/text lengths 1..3 and prior contents 0..5 bytes; longer texts are outside the bound (the code has no length-dependent branches beyond offset arithmetic)",
		},
		TrustedBase: []string{stdTrusted, "the environment stubs in gosym/stubs.go (os, io/ioutil, fmt.Println/Fprintf, errors.Is)"},
	})

	stubAssume := []string{
		"json.Decoder.Decode, ld.JsonLdProcessor.Flatten, rego.New(...).PrepareForEval and PreparedEvalQuery.Eval are nondeterministic stubs: each call either fails or succeeds (symbolic fault flag per call); Eval returns a fresh result map per call (OPA's contract)",
		"profile parsing and Rego generation run as real code on concrete profile texts (yaml.v3 natively on the concrete text)",
		"time.Now returns arbitrary non-decreasing instants below 2^40 ns",
	}
	reg(&PropertySpec{
		ID: "C04", Level: "model_checking",
		Rule: "one state = one feasible path through the real entry-point glue (validate.go, process_input.go, normalizer.go, report.go) for one entry point and one assignment of the symbolic fault flags; all paths are distinct",
		Harnesses: func(tier string) []HarnessSpec {
			return []HarnessSpec{{Pkg: "internal/validator", Fn: "VerifC04Entry", Native: "VerifC04EntryNative", Reach: []string{"decode-failed", "flatten-failed", "ok-path", "trailing-text"},
				Bounds: map[string]any{"entry_points": 4, "fault_flags": "decode (no value readable | text after the first value), flatten (typed error | plain error | panic | empty graph), compile, eval error, empty result; the failing text submitted twice"}},
				// which texts are unreadable is decided by the real decoding code, run natively on a family of concrete texts
				{Pkg: "internal/validator", Fn: "VerifC04Texts", Native: "VerifC04TextsNative", Reach: []string{"returned"},
					Bounds: map[string]any{"texts": "60 concrete texts that are not a JSON document: JSON with bytes that are not UTF-8 (Latin-1 in a string or key, a lone lead byte, an encoded surrogate), empty, blank, truncated values, YAML/RAML documents and flow collections, comments before the value, UTF-8/UTF-16 byte order marks, XML, Turtle, bare words, and a JSON value followed by more text (YAML that starts with a quoted key / number / date / boolean, a second document, stray brackets, NUL)", "entry_points": 4, "decoders_run_natively": "encoding/json Decoder and Unmarshal, OPA util.Unmarshal / UnmarshalJSON (any other decoder of the data text ends the path as unsupported: inconclusive)"}},
				// the command line is an entry point too: a failed validation must not end with status 0
				{Pkg: "cmd/commands", Fn: "VerifC18Validate", Native: "VerifC18ValidateNative", Reach: []string{"lib-failed"}, Bounds: map[string]any{"library_failure": "any error value | io.ErrUnexpectedEOF (truncated data) | io.EOF (empty data)"}}}
		},
		Assumptions: append([]string{"which byte strings make encoding/json or json-gold fail is their business: in VerifC04Entry the fault is a symbolic flag and native replay uses the witnesses `#%RAML…` (not JSON) and {\"@context\": 42} (rejected by JSON-LD); VerifC04Texts pins the other side of that contract for a family of concrete texts (the decoder the code really calls runs natively on each)"}, stubAssume...),
		TrustedBase: []string{stdTrusted, "stubs in gosym/stubs.go"},
	})
	reg(&PropertySpec{
		ID: "C09", Level: "model_checking",
		Rule: "one state = one feasible path of a history (source vs compiled; three calls through one compiled profile) under one assignment of per-call stub outcomes",
		Harnesses: func(tier string) []HarnessSpec {
			return []HarnessSpec{
				{Pkg: "internal/validator", Fn: "VerifC09Equiv", Native: "VerifC09EquivNative", Reach: []string{"compile-failed", "validated-both"}, Bounds: map[string]any{"runs": 2}},
				{Pkg: "internal/validator", Fn: "VerifC09TwoProfiles", Native: "VerifC09TwoProfilesNative", Reach: []string{"validated"}, Bounds: map[string]any{"profiles": 2, "orders": "B compiled after A | B validated from text after A was compiled | A, B, A compiled"}},
				{Pkg: "internal/validator", Fn: "VerifC09History", CrossCheck: true, Native: "VerifC09HistoryNative", Reach: []string{"validated-3"}, Bounds: map[string]any{"history_length": 3}},
				{Pkg: "internal/validator", Fn: "VerifC09LongHistory", Native: "VerifC09LongHistoryNative", Reach: []string{"validated-140"}, Bounds: map[string]any{"history_length": 140, "documents": "70 distinct documents, each validated twice through one compiled profile (all stages succeed)"}},
				{Pkg: "internal/validator", Fn: "VerifC09IndexHistory", Native: "VerifC09IndexHistoryNative", Reach: []string{"indexed-3"}, Bounds: map[string]any{"history_length": 3, "units": "4 units over the same node ids: same root location with different library contents and ranges, one with another root"}},
				{Pkg: "internal/validator", Fn: "VerifC09IndexFrame", Native: "VerifC09IndexFrameNative", Reach: []string{"indexed"}, Bounds: map[string]any{"graph_shapes": "the catalogue of C17 (type forms x lexical / source-information layouts)"}},
			}
		},
		Assumptions: append([]string{"OPA compile/eval are functions of (module text modulo renumbering of generated identifiers, input); a PreparedEvalQuery is immutable under Eval (dependency contract)", "histories of length 3; call 3 repeats call 1's stub outcomes"}, stubAssume...),
		TrustedBase: []string{stdTrusted, "stubs in gosym/stubs.go", "write tracking of package-level state in gosym/rt.go"},
	})
	reg(&PropertySpec{
		ID: "C11", Level: "model_checking",
		Rule: "one state = one feasible path for one entry point x one profile text (valid / YAML error / structure error / empty document / unknown prefix) x one assignment of the symbolic stage-fault flags; the channel is a buffered Go channel executed natively by the interpreter",
		Harnesses: func(tier string) []HarnessSpec {
			return []HarnessSpec{
				{Pkg: "pkg", Fn: "VerifC11LargeDataNative", NativeOnly: true, Bounds: map[string]any{"data": "17 MiB and 33 MiB texts (a document followed by white space), text and compiled entry point: native only, no solver"}},
				{Pkg: "pkg", Fn: "VerifC11Events", CrossCheck: true, Native: "VerifC11EventsNative", Reach: []string{"returned", "compile-ok", "compile-failed", "ends-in-start", "succeeded"}, Bounds: map[string]any{"entry_points": 5, "profiles": 5}},
				{Pkg: "pkg", Fn: "VerifC11Reuse", Native: "VerifC11ReuseNative", Reach: []string{"two-requests"}, Bounds: map[string]any{"requests": 2, "profiles": 2, "channel_kept_in": "one variable re-made per request | one variable per request", "entry_points": 3, "stage_faults": "per request"}},
				{Pkg: "pkg", Fn: "VerifC11NilChannel", Reach: []string{"returned"}},
			}
		},
		Assumptions: append([]string{"the event channel has capacity for all events (the executor is single-threaded; a send that would block is reported as BLOCK:send)", "weak reading of 'one milestone per completed stage': RegoCompilation has events but no milestone operation"}, stubAssume...),
		TrustedBase: []string{stdTrusted, "stubs in gosym/stubs.go"},
	})
	reg(&PropertySpec{
		ID: "C03", Level: "model_checking", Extra: regoC03,
		Rule: "one state = one feasible path of BuildReport/buildResults/ValidationReportNode/DialectInstance for one (nv,nw,ni) in [0,2]^3, symbolic profile name / shape names / schema IRIs (bytes), symbolic IncludeReportCreationTime, two clock values",
		Harnesses: func(tier string) []HarnessSpec {
			return []HarnessSpec{
				{Pkg: "internal/validator", Fn: "VerifC03Report", CrossCheck: true, Reach: []string{"encoded", "with-date", "without-date"}, Bounds: map[string]any{"results_per_level": "0..2", "string_bytes": "1..2 symbolic"}},
				{Pkg: "internal/validator", Fn: "VerifC03EmptyResultSet", Reach: []string{"returned"}},
				{Pkg: "internal/validator", Fn: "VerifC03ForeignMembers", Reach: []string{"refused"}, Bounds: map[string]any{"foreign_member": "string | number | boolean | array", "layouts": "alone, before or after a genuine result, in any level; optionally a genuine result in another level"}},
			}
		},
		Assumptions: []string{"validator.Encode's json.Encoder is intercepted: the oracle inspects the structure handed to it; encoding/json is trusted to serialise it faithfully", "regosym part: for every layout of 2-3 validations over {violation, warning, info, defined-but-unlisted} (plus a listed-but-undefined name) the emitted module reports each validation only under its level, the three level keys are always defined and report.profile is the name — on graphs of 2 nodes"},
		TrustedBase: []string{stdTrusted},
	})

	reg(&PropertySpec{
		ID: "C16", Level: "model_checking",
		Rule: "one state = one feasible path of the real pigeon runtime + grammar table + ParsePath/build on a string of symbolic ASCII bytes; paths differ in the byte classes the parser (and the reference recogniser) distinguishes, so each path stands for a whole class of strings decided by z3",
		Harnesses: func(tier string) []HarnessSpec {
			if tier == "thorough" {
				return []HarnessSpec{
					{Pkg: "internal/parser/path", Fn: "VerifC16Parse5", Reach: []string{"accepted", "accepted-sentence", "rejected"}, Bounds: map[string]any{"length": "1..5 ASCII bytes", "paren_depth": 3}},
					{Pkg: "internal/parser/path", Fn: "VerifC16Variants5", Reach: []string{"sentence"}, Bounds: map[string]any{"length": "1..5 ASCII bytes"}},
					{Pkg: "internal/parser/path", Fn: "VerifC16Edits", CrossCheck: true, Reach: []string{"accepted", "rejected"}, Bounds: map[string]any{"sentences": 10, "edits": "insert/replace one symbolic byte at any position, delete one byte, append two symbolic bytes", "history": "nothing parsed before | the unedited sentence | that and a sequence written with and without blanks"}},
					{Pkg: "internal/parser/path", Fn: "VerifC16LongGaps", Native: "VerifC16LongGaps", Reach: []string{"parsed"}, Bounds: map[string]any{"strings": "6 sentences x white-space runs of 15..257 bytes x 8 continuations (concrete strings far beyond the symbolic length bound)"}},
					{Pkg: "internal/parser/path", Fn: "VerifC16Compose2", Reach: []string{"accepted", "rejected"}, Bounds: map[string]any{"composition": "2 predicates from {a.b, c.d} (repeats included), one symbolic operator byte from {| / blank ^ ( )} between them, an optional symbolic modifier byte from {^ blank * ) |} after each"}},
					{Pkg: "internal/parser/path", Fn: "VerifC16Compose3", Reach: []string{"accepted", "rejected"}, Bounds: map[string]any{"composition": "3 predicates from {a.b, c.d} (repeats included), one symbolic operator byte from {| / blank ^ ( )} between them, an optional symbolic modifier byte from {^ blank * ) |} after each"}},
				}
			}
			return []HarnessSpec{
				{Pkg: "internal/parser/path", Fn: "VerifC16Variants3", Reach: []string{"sentence"}, Bounds: map[string]any{"length": "1..3 ASCII bytes"}},
				{Pkg: "internal/parser/path", Fn: "VerifC16Edits", CrossCheck: true, Reach: []string{"accepted", "rejected"}, Bounds: map[string]any{"sentences": 10, "edits": "insert/replace one symbolic byte at any position, delete one byte, append two symbolic bytes", "history": "nothing parsed before | the unedited sentence | that and a sequence written with and without blanks"}},
				{Pkg: "internal/parser/path", Fn: "VerifC16LongGaps", Native: "VerifC16LongGaps", Reach: []string{"parsed"}, Bounds: map[string]any{"strings": "6 sentences x white-space runs of 15..257 bytes x 8 continuations (concrete strings far beyond the symbolic length bound)"}},
				{Pkg: "internal/parser/path", Fn: "VerifC16Compose2", Reach: []string{"accepted", "rejected"}, Bounds: map[string]any{"composition": "2 predicates from {a.b, c.d} (repeats included), one symbolic operator byte from {| / blank ^ ( )} between them, an optional symbolic modifier byte from {^ blank * ) |} after each"}},
				{Pkg: "internal/parser/path", Fn: "VerifC16Parse4", Reach: []string{"accepted", "accepted-sentence", "rejected"}, Bounds: map[string]any{"length": "1..4 ASCII bytes", "paren_depth": 3}},
			}
		},
		Assumptions: []string{
			"input bytes are ASCII (<0x80); multi-byte UTF-8 is outside the bound",
			"the reference recogniser in the harness is a hand transcription of third_party/propertyparser.peg with PEG semantics (ordered choice, greedy repetition) anchored at end of input, trailing whitespace allowed",
			"strings longer than the stated length are outside the claim (the first accepted-but-not-consumed inputs of the unfixed parser appear at length 4)",
		},
		TrustedBase: []string{stdTrusted, "stubs for sync.Pool, utf8.DecodeRune, unicode.ToLower"},
	})

	reg(&PropertySpec{
		ID: "C13", Level: "model_checking", Extra: regoC13,
		Rule: "one state = one feasible path of the real text-pasting code (profileName, wrapBranch/sanitizedMessage, ParseMessageExpression, Generate*SetRule, GeneratePattern) plus the reference Rego string scanner, on symbolic text bytes; each path is a class of texts (by position of quotes, backslashes, control characters, percent signs, backticks) decided by z3",
		Harnesses: func(tier string) []HarnessSpec {
			g := "internal/generator"
			b := func(n int) map[string]any {
				return map[string]any{"text_length": "0.." + string(rune('0'+n)) + " symbolic bytes (all 128 ASCII values: control characters and DEL included)"}
			}
			if tier == "thorough" {
				return []HarnessSpec{
					{Pkg: g, Fn: "VerifC13ProfileName4", CrossCheck: true, Reach: []string{"lexed"}, Bounds: b(4)},
					{Pkg: g, Fn: "VerifC13ValidationName3", Reach: []string{"lexed"}, Bounds: b(3)},
					{Pkg: g, Fn: "VerifC13Message4", CrossCheck: true, Reach: []string{"lexed"}, Bounds: b(4)},
					{Pkg: g, Fn: "VerifC13MessageVars2", Reach: []string{"lexed"}, Bounds: map[string]any{"text": "0..2 characters each side of the placeholder, from a 12-character representative alphabet"}},
					{Pkg: g, Fn: "VerifC13SetValues3", Reach: []string{"lexed"}, Bounds: b(3)},
					{Pkg: g, Fn: "VerifC13Pattern3", Reach: []string{"lexed"}, Bounds: b(3)},
					{Pkg: g, Fn: "VerifC13ParseMessage", Reach: []string{"parsed"}},
					{Pkg: g, Fn: "VerifC13MessageBraces4", Reach: []string{"lexed"}, Bounds: map[string]any{"text": "0..4 characters from the representative alphabet (braces included)"}},
					{Pkg: g, Fn: "VerifC13EscapeBytes6", Reach: []string{"lexed"}, Bounds: map[string]any{"text": "every well-formed UTF-8 text of 1..6 bytes (all 256 byte values: control characters, DEL, characters of one to four bytes, next to each other) through the escaper behind every pasted text"}},
					{Pkg: g, Fn: "VerifC13TemplateTokens", Reach: []string{"generated"}, Bounds: map[string]any{"tokens": "$message $result $node $traceNode", "positions": "pattern, in value, message, validation name"}},
					{Pkg: g, Fn: "VerifC13MessageTwoVars", Reach: []string{"lexed"}, Bounds: map[string]any{"placeholders": "two: the same property twice or two properties", "text": "0..1 characters before, between and after"}},
				}
			}
			return []HarnessSpec{
				{Pkg: g, Fn: "VerifC13ProfileName3", Reach: []string{"lexed"}, Bounds: b(3)},
				{Pkg: g, Fn: "VerifC13ValidationName2", Reach: []string{"lexed"}, Bounds: b(2)},
				{Pkg: g, Fn: "VerifC13Message3", Reach: []string{"lexed"}, Bounds: b(3)},
				{Pkg: g, Fn: "VerifC13MessageVars1", Reach: []string{"lexed"}, Bounds: map[string]any{"text": "0..1 characters each side of the placeholder, from a 12-character representative alphabet"}},
				{Pkg: g, Fn: "VerifC13SetValues2", Reach: []string{"lexed"}, Bounds: b(2)},
				{Pkg: g, Fn: "VerifC13Pattern2", Reach: []string{"lexed"}, Bounds: b(2)},
				{Pkg: g, Fn: "VerifC13MessageBraces3", Reach: []string{"lexed"}, Bounds: map[string]any{"text": "0..3 characters from the representative alphabet (braces included)"}},
				{Pkg: g, Fn: "VerifC13EscapeBytes4", Reach: []string{"lexed"}, Bounds: map[string]any{"text": "every well-formed UTF-8 text of 1..4 bytes (all 256 byte values: control characters, DEL, characters of one to four bytes) through the escaper behind every pasted text"}},
				{Pkg: g, Fn: "VerifC13TemplateTokens", Reach: []string{"generated"}, Bounds: map[string]any{"tokens": "$message $result $node $traceNode", "positions": "pattern, in value, message, validation name"}},
				{Pkg: g, Fn: "VerifC13MessageTwoVars", Reach: []string{"lexed"}, Bounds: map[string]any{"placeholders": "two: the same property twice or two properties", "text": "0..1 characters before, between and after"}},
			}
		},
		Assumptions: []string{
			"texts of the position-specific harnesses are ASCII (all 128 values); multi-byte characters are covered for the shared escaper only (VerifC13EscapeBytes: every well-formed UTF-8 text up to the bound), elsewhere bytes >= 0x80 are outside the bound",
			"the reference scanner in the harness implements Rego's string literal syntax (JSON escapes, raw back-quoted strings, raw control characters illegal) and fmt's %% / %v verbs",
			"ParseMessageExpression uses regexp, which runs natively on concrete text: there the bytes range over a 12-character representative alphabet (a \" \\ % ' { } space newline v tab backtick) instead of being solver variables",
			"regosym part: substitution of one placeholder by the focus node's single scalar value (string with quote/percent, integer, boolean, float) or `null` when absent, for 4 message texts; several values or references as placeholder values are undocumented and not compared",
		},
		TrustedBase: []string{stdTrusted, "symbolic models of fmt.Sprintf, strings.ReplaceAll/Join/Contains/HasPrefix, strings.Builder, json.Marshal(string)"},
	})

	reg(&PropertySpec{
		ID: "C07", Level: "model_checking", Extra: regoC07,
		Rule: "one state = one feasible path of the real generator for one symbolic counter value / path shape / mode; the module each path produces is handed to the linked OPA's real parser+compiler (native on concrete text)",
		Harnesses: func(tier string) []HarnessSpec {
			return []HarnessSpec{
				{Pkg: "internal/generator", Fn: "VerifC07VarNames", Reach: []string{"generated"}, Bounds: map[string]any{"variable_counter": "0..40 (symbolic)", "quantifier": "nested | atLeast"}},
				{Pkg: "internal/parser/profile", Fn: "VerifC07Genvar", CrossCheck: true, Reach: []string{"named"}, Bounds: map[string]any{"counter": "7 boundary bases (0, 90, 9990, 999990, 2^31-8, 2^53-8, 2^62-8) + symbolic offset 0..15"}},
				{Pkg: "internal/validator", Fn: "VerifC07EmptyOperands", Reach: []string{"accepted"}, Bounds: map[string]any{"bodies": "or: [] | not: {and: []} | and: [] | not: {or: []}", "levels": 3}},
				{Pkg: "internal/generator", Fn: "VerifC07GenvarNames", Reach: []string{"generated"}, Bounds: map[string]any{"counter": "as VerifC07Genvar"}},
				{Pkg: "internal/generator", Fn: "VerifC07PathBindings", Reach: []string{"traversed"}, Bounds: map[string]any{"path_shapes": 21, "modes": "property set | node set (nested) | array (uniqueValues)"}},
			}
		},
		Assumptions: []string{
			"acceptance is decided by the real parser/compiler of OPA v0.47.0 linked into /verif (the version /repo/go.mod pins) on the concrete module text of each path",
			"counter wrap-around at 2^63 is excluded; quantified variables beyond the 41st follow the X<n> scheme checked for n in 26..40",
			"path shapes are the 21 listed in the harness (depth <= 3, every operator mix); acceptance of modules beyond these shapes and the C01/C02 families is outside",
		},
		TrustedBase: []string{stdTrusted, "OPA v0.47.0 parser/compiler as the oracle for 'the engine accepts'"},
	})

	reg(&PropertySpec{
		ID: "C06", Level: "model_checking",
		Rule: "one state = one feasible path of parse+generate (or BuildReport) executed twice: once with every Go map ranged in insertion order, once under one of the explored iteration-order deviations; a state is one deviation",
		Harnesses: func(tier string) []HarnessSpec {
			return []HarnessSpec{
				{Pkg: "internal/validator", Fn: "VerifC06Generate", Native: "VerifC06GenerateNative", Reach: []string{"generated-twice"}, Bounds: map[string]any{"profiles": 4, "map_orders": "all maps reversed | all rotated | one iteration site arbitrarily permuted (n<=4: all n!)"}},
				{Pkg: "internal/validator", Fn: "VerifC06Report", Reach: []string{"built-twice"}, Bounds: map[string]any{"results": "1..2 violations + 1 warning, nested sub-results and locations"}},
				{Pkg: "internal/validator", Fn: "VerifC06Index", Native: "VerifC06IndexNative", Reach: []string{"indexed-twice"}, Bounds: map[string]any{"graph": "2 domain nodes, an element with lexical entries in one or two source maps, one or two source-information nodes"}},
				{Pkg: "pkg", Fn: "VerifC06NoHiddenState", Native: "VerifC06NoHiddenStateNative", Reach: []string{"returned"}, Bounds: map[string]any{"entry_points": 4, "profiles": "5 small (valid and failing) + 1 using most of the profile language with declared prefixes"}},
			}
		},
		Assumptions: []string{
			"the only sources of nondeterminism in repository code are Go map iteration order and the process-wide identifier counter (reset = fresh process); the clock is an input",
			"hidden state: VerifC06NoHiddenState shows (interpreter-level write tracking) that no entry point stores into package-level state reachable by a later call, the atomic identifier counter apart; with that, repeated calls are a function of their inputs",
			"map-order bound: per path either every map is reversed, every map is rotated, or exactly one iteration site deviates arbitrarily; two independently deviating sites are outside the bound",
			"yaml.v3, encoding/json (sorted keys) and OPA evaluation are deterministic functions of their inputs (dependency contract); goroutine interleavings are the subject of C10",
		},
		TrustedBase: []string{stdTrusted},
	})
	reg(&PropertySpec{
		ID: "C01", Level: "translation_validation", Extra: regoC01,
		Rule: "one state = one formula shape (chosen by nondeterministic recursion through the real constructors) executed through the real Dispatch/GenerateAnd/GenerateOr/GenerateConditional/Negate code; z3 decides the equivalence for all truth assignments of the shape's atoms at once",
		Harnesses: func(tier string) []HarnessSpec {
			if tier == "thorough" {
				return []HarnessSpec{
					{Pkg: "internal/generator", Fn: "VerifC01Skeleton2W4", Reach: []string{"tree-built", "dispatched"}, Bounds: map[string]any{"depth": 2, "width": "2..4"}},
					{Pkg: "internal/generator", Fn: "VerifC01SkeletonSpine4", CrossCheck: true, Reach: []string{"tree-built", "dispatched"}, Bounds: map[string]any{"depth": 4, "shape": "one deep operand, others atoms"}},
				}
			}
			return []HarnessSpec{
				{Pkg: "internal/generator", Fn: "VerifC01Skeleton2W3", Reach: []string{"tree-built", "dispatched"}, Bounds: map[string]any{"depth": 2, "width": "2..3", "shapes": 1737}},
				{Pkg: "internal/generator", Fn: "VerifC01SkeletonSpine3", Reach: []string{"tree-built", "dispatched"}, Bounds: map[string]any{"depth": 3, "shape": "one deep operand, others atoms"}},
			}
		},
		Assumptions: []string{
			"propositional skeleton only: atoms are minCount 1 on distinct properties; a generated leaf whose last line starts with `not ` fails exactly when its atom is false, otherwise exactly when it is true (the reading of a count leaf)",
			"a validation reports a node iff some generated branch has all its leaves failing (how wrapTopLevelRegoResult turns branches into rule bodies)",
			"formula depth <= 2 exhaustively (width 2; width 3 in the thorough tier) plus spines to depth 3/4; deeper or wider formulas are outside the bound",
			"regosym part: every program of the families (atoms / quantified / skeletons as YAML) is translated by the real generator, compiled by the linked OPA and evaluated symbolically on a graph of 3 nodes with <= 2 values per property; the reference semantics is the atom table of DESIGN.md §3.7 and is three-valued (undocumented cases are not compared)",
			"programs outside the families, deeper nesting, larger graphs, embedded Rego and custom-property (apiExt) paths are outside the bound",
		},
		TrustedBase: []string{stdTrusted, "regosym (/verif/regosym), OPA v0.47.0 parser/compiler/built-ins called natively, the native driver built from /repo"},
	})

	reg(&PropertySpec{
		ID: "C10", Level: "model_checking",
		Rule: "one state = one feasible path of an entry point (CompileProfile, Validate, compile+ValidateCompiled, ValidateWithConfiguration) x profile text x stub outcomes, executed with every store checked against the set of locations reachable from package-level variables",
		Harnesses: func(tier string) []HarnessSpec {
			return []HarnessSpec{
				{Pkg: "pkg", Fn: "VerifC10ManyCallsNative", NativeOnly: true, Bounds: map[string]any{"calls": "48 calls from text and 48 through one compiled profile started at once, one minute to return: native only, no solver, one schedule per run"}},
				{Pkg: "pkg", Fn: "VerifC10WriteSet", Native: "VerifC10WriteSetNative", Race: true, Reach: []string{"returned"}, Bounds: map[string]any{"entry_points": 4, "profiles": "5 small (valid and failing) + 1 using most of the profile language with declared prefixes"}},
			}
		},
		Assumptions: []string{
			"write-set argument: repository code starts no goroutines, so a data race between two concurrent calls needs a location both can reach, i.e. one reachable from a package-level variable (or from a shared argument: the compiled profile, covered by C09's frame condition); if no call ever stores to such a location without synchronisation, concurrent calls are race-free and cannot influence each other through repository state",
			"sync/atomic operations and stores made while holding a sync.Mutex count as synchronised",
			"OPA, json-gold, yaml.v3 and encoding/json are assumed safe for concurrent use as documented; interleavings inside them are outside",
			"the generated-identifier counter is shared (atomically) between concurrent compilations: identifiers differ between runs but stay distinct within a module; reports do not contain them",
		},
		TrustedBase: []string{stdTrusted, "reachability snapshot of package-level state in gosym/rt.go"},
	})

	reg(&PropertySpec{
		ID: "C08", Level: "model_checking",
		Rule: "one state = one feasible path: entry point x stub outcomes (gate lemma) or embedding position x symbolic code bytes (splice lemma); plus one native confirmation run of the built-in x position x syntax matrix",
		Harnesses: func(tier string) []HarnessSpec {
			return []HarnessSpec{
				{Pkg: "internal/validator", Fn: "VerifC08Gate", Native: "VerifC08GateNative", Reach: []string{"compiled"}, Bounds: map[string]any{"entry_points": 3}},
				{Pkg: "internal/validator", Fn: "VerifC08Splice", Reach: []string{"spliced"}, Bounds: map[string]any{"code_len": "1..3 symbolic bytes (no $ or newline)", "positions": 8}},
				{Pkg: "pkg", Fn: "VerifC08NativeMatrix", NativeOnly: true, Bounds: map[string]any{"builtins": 5, "positions": 9, "syntaxes": 3}},
			}
		},
		Assumptions: []string{
			"ASSUMPTION (dependency): OPA rejects at compile time every module whose AST calls a built-in named in rego.UnsafeBuiltins, whatever the call syntax; the native matrix (5 built-ins x 9 positions x up to 3 syntaxes through the real CompileProfile) confirms it for the linked version but is not the deciding step",
			"the dangerous built-ins are exactly the five the property lists; each must be registered in the linked OPA (checked natively) so that the deny-list lemma is not vacuous",
			"splice lemma: embedded code of 1..3 bytes free of `$` and newline; template variables ($node, $result, …) are substituted by design and are outside",
		},
		TrustedBase: []string{stdTrusted, "OPA v0.47.0 capability check"},
	})

	reg(&PropertySpec{
		ID: "C17", Level: "model_checking",
		Rule: "one state = one feasible path: (a) one structured mutation (line x replacement, or deletion) of a feature-complete profile, or a degenerate document, through the real parser and generator; (b) one shape of a flattened graph within the JSON-LD processor's contract through Index and the report builder; (c) one result-set shape through BuildReport",
		Harnesses: func(tier string) []HarnessSpec {
			return []HarnessSpec{
				{Pkg: "internal/validator", Fn: "VerifC17Profile", Reach: []string{"returned"}, Bounds: map[string]any{"mutations": "61 lines x 11 operators", "degenerate_documents": 20}},
				{Pkg: "pkg", Fn: "VerifC17WithChannel", Native: "VerifC17WithChannelNative", Reach: []string{"returned"}, Bounds: map[string]any{"entry_points": 5, "profiles": 5, "stage_outcomes": "every stage may fail (solver-chosen fault flags), event channel attached"}},
				{Pkg: "internal/validator", Fn: "VerifC17Data", Native: "VerifC17DataNative", Reach: []string{"returned", "empty-graph"}, Bounds: map[string]any{"graph_shapes": "type forms x lexical/source-information layouts (one part varies per path)"}},
				{Pkg: "internal/validator", Fn: "VerifC17EvalResult", Native: "VerifC17EvalResultNative", Reach: []string{"returned"}, Bounds: map[string]any{"result_shapes": 6}},
			}
		},
		Assumptions: []string{
			"the program dimension is enumerated (one mutation at a time of one base profile; shapes of the flattened graph from a finite catalogue): raw byte strings and multi-point mutations are outside the bound",
			"the byte-level behaviour of yaml.v3 (run natively on the concrete text), encoding/json, json-gold and OPA is theirs; their outputs are taken within their documented contract",
			"no blocking: repository code has no blocking operation when no event channel is supplied; with a channel see C11",
			"a panic is identified by the function that raised it, so a new panic site is a new violation",
		},
		TrustedBase: []string{stdTrusted, "stubs in gosym/stubs.go"},
	})

	regoTrusted := "regosym (bounded symbolic evaluator of the compiled Rego AST, /verif/regosym) and its reference semantics; OPA v0.47.0 parser/compiler and built-in implementations (called natively on concrete operands); z3 4.8.12; the native driver built from /repo's working tree"
	reg(&PropertySpec{
		ID: "C02", Level: "translation_validation", Extra: regoC02,
		Rule: "one program = one path expression in one generator mode; its generated path rule (real generator output, compiled by the linked OPA) is evaluated symbolically from every source node of a symbolic graph and compared, member by member, with the relational denotation of the expression; z3 decides whether any graph in the scope distinguishes them",
		Harnesses: func(tier string) []HarnessSpec {
			return []HarnessSpec{{Pkg: "internal/generator", Fn: "VerifC07PathBindings", Reach: []string{"traversed"}, Bounds: map[string]any{"path_shapes": 21}},
				{Pkg: "pkg", Fn: "VerifC02PrefixTableNotShared", Native: "VerifC02PrefixTableNotSharedNative", Reach: []string{"returned"}, Bounds: map[string]any{"entry_points": 4, "profiles": "5 small (valid and failing) + 1 using most of the profile language with declared prefixes (one overriding a built-in prefix)"}}}
		},
		Assumptions: []string{
			"finite scope: N nodes (2 quick / 3 thorough), at most 2 distinct values per (node, predicate) drawn from references to every node, one dangling reference and one literal; larger graphs are outside the bound",
			"path expressions are enumerated up to the stated number of predicate occurrences over two predicates; deeper expressions are outside the bound",
			"expressions whose last step mixes a forward predicate with an inverse one are skipped (a raw reference and the node it denotes are different representations; the documentation does not say which one a constraint sees)",
			"a counterexample is confirmed by evaluating the generated rule with the real OPA on the document normalised by the real pipeline",
		},
		TrustedBase: []string{stdTrusted, regoTrusted},
	})

	reg(&PropertySpec{
		ID: "C12", Level: "translation_validation", Extra: regoC12,
		Rule: "gosym: one state = one feasible path of BuildReport over a result tree of nondeterministic shape and one map-order policy; regosym: one program = one profile of the families, whose emitted module is evaluated on a symbolic graph and every result object it can produce is checked for shape",
		Harnesses: func(tier string) []HarnessSpec {
			return []HarnessSpec{{Pkg: "internal/validator", Fn: "VerifC12Ids", Reach: []string{"ids-defined"}, Bounds: map[string]any{"depth": "1..3", "traces_per_result": "1..2", "sub_results_per_trace": "0..2", "locations": "none|all", "results": "1..2 violations, 0..1 warnings, 0..1 infos", "map_orders": "canonical | all reversed | all rotated"}},
				{Pkg: "internal/validator", Fn: "VerifC12ManyResults", Native: "VerifC12ManyResults", Reach: []string{"ids-defined"}, Bounds: map[string]any{"results_per_level": "(12, 9, 0) | (9, 0, 17) | (33, 1, 10) with traces and sub-results: two-digit ordinals"}},
				{Pkg: "internal/validator", Fn: "VerifC12EmptyOperands", Reach: []string{"accepted"}, Bounds: map[string]any{"bodies": "or: [] | not: {and: []} | and: [] | not: {or: []}", "levels": 3}},
				{Pkg: "internal/validator", Fn: "VerifC12Messages", Reach: []string{"parsed"}, Bounds: map[string]any{"message_key": "absent | 11 spellings (empty in 5 ways, null in 3, blank, text, number, boolean)", "bodies": 3, "levels": 3}}}
		},
		Assumptions: []string{
			"result trees are built from the three constructors the Rego preamble has (result, trace, location); the same shape parameters are used at every level of a tree (bound)",
			"regosym part: focus node is an existing input node, sourceShapeName is a validation of the profile (or `nested` in sub-results), message and trace non-empty, every trace entry names component and resultPath — for the programs of the families on graphs of 3 nodes",
			"result shapes produced by embedded Rego are outside; validity of the JSON text is encoding/json's business",
		},
		TrustedBase: []string{stdTrusted, regoTrusted},
	})
	reg(&PropertySpec{
		ID: "C14", Level: "translation_validation", Extra: regoC14,
		Rule: "gosym: one state = one flattened graph with a nondeterministic lexical layout through the real Index; regosym: one program evaluated on a symbolic graph whose @lexical entries (range text from a boundary pool, uri) are solver-chosen per node",
		Harnesses: func(tier string) []HarnessSpec {
			return []HarnessSpec{{Pkg: "internal/validator", Fn: "VerifC14Index", Reach: []string{"indexed"}, Bounds: map[string]any{"domain_nodes": 3, "lexical_entries": "0..3, element = any node or a property IRI", "source_information": "absent | present with 0..2 additional locations listing any subset of the nodes"}},
				{Pkg: "internal/validator", Fn: "VerifC14OwnedMaps", Reach: []string{"indexed"}, Bounds: map[string]any{"nodes": "a declaration node whose id is used as a property IRI on another node; each with its own source map (sources as object or array; the declaration with its own entry, an empty map or no map)", "order": "either map first"}},
				{Pkg: "internal/validator", Fn: "VerifC14RangeLayout", Reach: []string{"indexed"}, Bounds: map[string]any{"range_text_layouts": "12 textual layouts of the four numbers (compact, blanks, no brackets, leading zeros, surrounding text, large magnitudes)", "container": "single object | one-element array"}}}
		},
		Assumptions: []string{
			"gosym part: the flattened graph is given in the JSON-LD processor's output form (containers single-or-array)",
			"regosym part: range texts come from a boundary pool of magnitudes (0, 9, 10, 99, 100, 2^31, 2^53+1); arbitrary magnitudes beyond it are outside the bound",
			"a counterexample is confirmed by rendering the graph with real source-map nodes and validating it through the real entry point",
		},
		TrustedBase: []string{stdTrusted, regoTrusted},
	})

	reg(&PropertySpec{
		ID: "C15", Level: "translation_validation", Extra: regoC15,
		Rule: "one program pair = (base profile, rewritten text); both are translated by the real parser+generator, both modules are evaluated on the SAME symbolic graph and z3 decides whether any graph gives different (severity, validation, focus node, message) result sets",
		Harnesses: func(tier string) []HarnessSpec {
			return []HarnessSpec{{Pkg: "internal/validator", Fn: "VerifC06Generate", Native: "VerifC06GenerateNative", Reach: []string{"generated-twice"}, Bounds: map[string]any{"note": "Go map iteration orders: the generated text itself is order-independent (C06), so one module per text suffices"}},
				// custom-domain-property steps are outside the symbolic graph model: what the rewrite family
				// cannot evaluate is pinned at the decision that makes the difference
				{Pkg: "internal/generator", Fn: "VerifC15CustomByNamespace", Reach: []string{"parsed", "generated"}, Bounds: map[string]any{"prefix_names": "apiExt | four other names, declared by the profile or not", "namespaces": "the api-extension namespace | three others", "steps": "forward and inverse, three local names", "generator_modes": 3}}}
		},
		Assumptions: []string{
			"custom-domain-property paths (apiExt.*) are not evaluated on symbolic graphs; for them the check decides only that the kind of lookup generated follows the namespace and not the prefix name",
			"rewrite catalogue: reverse / rotate every mapping, level list and and/or operand list; rename the prefix; a second prefix bound to the same namespace; single/double/plain quoting, flow style, comments, indentation — applied to 3 base profiles in which every mapping and list has 2-4 entries",
			"graphs of 2 (quick) / 3 (thorough) nodes, <= 2 values per property; yaml.v3 runs natively on each concrete text",
			"arbitrary permutations beyond reverse/rotate and rewrites outside the catalogue are outside the bound",
		},
		TrustedBase: []string{stdTrusted, regoTrusted},
	})
}
