package main

import (
	"sync"
	"verif/gosym"

	"verif/smt"

	"crypto/sha1"
	"encoding/json"
	"fmt"
	"os"
	"path/filepath"
	"sort"
	"strings"

	"verif/regosym"
)

func (c *checkCtx) knownSignatures(label string) map[string]bool {
	out := map[string]bool{}
	for _, f := range c.findings {
		if f.Status == "known" && f.Property == c.spec.ID && f.Label == label && f.Signature != "" {
			out[f.Signature] = true
		}
	}
	return out
}

func (c *checkCtx) findingBySignature(label, sig string) (finding, bool) {
	for _, f := range c.findings {
		if f.Status == "known" && f.Property == c.spec.ID && f.Label == label && f.Signature == sig {
			return f, true
		}
	}
	return finding{}, false
}

// writeRegoReplay stores a regosym counterexample so that `verif replay` can re-run it
// through the real entry point built from /repo's working tree.
func (c *checkCtx) writeRegoReplay(o regosym.Outcome) string {
	sum := sha1.Sum([]byte(o.Profile + o.Data + o.Label))
	dir := filepath.Join(outDir(), "replays", c.spec.ID, fmt.Sprintf("%x", sum[:6]))
	os.MkdirAll(dir, 0o755)
	kind := "rego-verdict"
	if strings.HasSuffix(o.Label, ".profile-compiles") {
		kind = "rego-compile"
	}
	if _, isShape := o.Replay["obligations"]; kind == "rego-verdict" && isShape {
		kind = "rego-shape"
	}
	if strings.HasPrefix(o.Label, "C02.") {
		kind = "rego-path"
	}
	in := map[string]any{"kind": kind, "replay_data": o.Replay, "label": o.Label, "program": o.Program, "expected": o.Expected, "predicted": o.Predicted, "actual_at_check_time": o.Actual, "detail": o.Detail, "signature": o.Signature}
	b, _ := json.MarshalIndent(in, "", " ")
	os.WriteFile(filepath.Join(dir, "inputs.json"), b, 0o644)
	os.WriteFile(filepath.Join(dir, "profile.yaml"), []byte(o.Profile), 0o644)
	os.WriteFile(filepath.Join(dir, "data.jsonld"), []byte(o.Data), 0o644)
	os.WriteFile(filepath.Join(dir, "cmd.sh"), []byte(fmt.Sprintf("#!/bin/sh\nexec %s/bin/verif replay %s\n", verifDir(), dir)), 0o755)
	return dir
}

// absorb folds regosym outcomes into the check context.
func (c *checkCtx) absorb(outs []regosym.Outcome, knownLabel string) {
	seenKnown := map[string]int{}
	rules, builtins := map[string]bool{}, map[string]bool{}
	statuses := map[string]int{}
	excluded, compared, queries := 0, 0, 0
	for _, o := range outs {
		c.programs++
		statuses[o.Status]++
		excluded += o.Excluded
		compared += o.Compared
		queries += o.Queries
		for _, r := range o.Rules {
			rules[r] = true
		}
		for _, b := range o.Builtins {
			builtins[b] = true
		}
		for _, k := range o.KnownHits {
			seenKnown[k.Signature]++
			c.disagreements++
			c.replayed++
		}
		switch o.Status {
		case "held":
		case "violation":
			c.disagreements++
			c.replayed++
			if o.Label == "C01.verdict-eq-reference" && c.spec.ID != "C01" && knownLabel != "" {
				o.Label = knownLabel // the same verdict comparison, run for another property's family
			}
			dir := c.writeRegoReplay(o)
			c.violations = append(c.violations, fmt.Sprintf("VIOLATION property=%s replay=%s label=%s program=%q signature=%s", c.spec.ID, dir, o.Label, o.Program, o.Signature))
		case "compile-error", "generate-error":
			if c.spec.ID == "C07" || c.spec.ID == "C13" {
				// the property itself says such a profile compiles: the real generator's output was
				// rejected by the real policy engine (or the real translator failed)
				c.disagreements++
				c.replayed++
				o.Label = c.spec.ID + ".profile-compiles"
				dir := c.writeRegoReplay(o)
				c.violations = append(c.violations, fmt.Sprintf("VIOLATION property=%s replay=%s label=%s program=%q detail=%q", c.spec.ID, dir, o.Label, o.Program, firstLine(o.Detail)))
				break
			}
			c.inconclusive(fmt.Sprintf("program %q: module rejected (%s): %s", o.Program, o.Status, firstLine(o.Detail)))
		default:
			c.inconclusive(fmt.Sprintf("program %q: %s: %s", o.Program, o.Status, firstLine(o.Detail)))
		}
		if len(c.samples) < 8 && (o.Status == "held" || len(o.KnownHits) > 0) && c.programs%7 == 1 {
			c.samples = append(c.samples, map[string]any{"program": o.Program, "status": o.Status, "compared_pairs": o.Compared, "known_hits": len(o.KnownHits), "queries": o.Queries, "wall_ms": o.Wall.Milliseconds()})
		}
	}
	var sigs []string
	for s := range seenKnown {
		sigs = append(sigs, s)
	}
	sort.Strings(sigs)
	for _, s := range sigs {
		if f, ok := c.findingBySignature(knownLabel, s); ok {
			c.known = append(c.known, fmt.Sprintf("KNOWN-FINDING: property=%s %s [%s signature=%s; %d program(s)]", c.spec.ID, f.What, knownLabel, s, seenKnown[s]))
		}
	}
	var rl, bl []string
	for r := range rules {
		rl = append(rl, r)
	}
	for b := range builtins {
		bl = append(bl, b)
	}
	sort.Strings(rl)
	sort.Strings(bl)
	prev, _ := c.evidence["regosym"].([]any)
	c.evidence["regosym"] = append(prev, map[string]any{"programs": len(outs), "by_status": statuses, "pairs_compared": compared, "pairs_excluded_as_unspecified": excluded,
		"verdict_queries": queries, "rego_rules_evaluated": rl, "builtins_evaluated": bl})
}

func firstLine(s string) string {
	if i := strings.Index(s, "\n"); i >= 0 {
		s = s[:i]
	}
	if len(s) > 300 {
		s = s[:300]
	}
	return s
}

func regoWork(c *checkCtx) string {
	w := filepath.Join(c.work, "rego")
	os.MkdirAll(w, 0o755)
	return w
}

// regoC01: reported <=> target and not formula, for every program of the families, over
// all graphs of the scope.
func regoC01(c *checkCtx) {
	thorough := c.tier == "thorough"
	n := 3
	var progs []regosym.Program
	progs = append(progs, regosym.FamilyAtoms(thorough)...)
	progs = append(progs, regosym.FamilyQuantified(thorough)...)
	progs = append(progs, regosym.FamilyGrouped(thorough)...)
	progs = append(progs, regosym.FamilyFloatBounds(thorough)...)
	progs = append(progs, regosym.FamilyFloatSets(thorough)...)
	progs = append(progs, regosym.FamilySpecialValues(thorough)...)
	progs = append(progs, regosym.FamilyEmptySets()...)
	if thorough {
		progs = append(progs, regosym.FamilyBoundaries()...)
	}
	progs = append(progs, regosym.FamilyNestedAtoms(thorough)...)
	progs = append(progs, regosym.FamilyAtomPaths(thorough)...)
	if thorough {
		progs = append(progs, regosym.FamilySkeletons(2)...)
		var ks []int
		for k := 1; k <= 30; k++ {
			ks = append(ks, k)
		}
		progs = append(progs, regosym.FamilyVariableIndex(ks)...)
	} else {
		progs = append(progs, regosym.FamilySkeletons(1)...)
		progs = append(progs, regosym.FamilyVariableIndex([]int{1, 11, 12, 22, 23, 24, 25, 26})...)
	}
	c.evidence["bounds_regosym"] = map[string]any{"nodes": n, "values_per_property": 2, "classes": "classes mentioned + 1", "literal_pool": "<= 4 literals derived from the program's constants + references to each node + one dangling reference",
		"families": "atoms (every documented atomic constraint alone / under not / in or / in if-then), atoms below nested/atLeast/atMost in positive and negative positions, atoms on composite paths (sequence, alternative, inverse, @type), set constraints with an empty list of values, set constraints whose values hold a double quote or a backslash (alone and as the condition of an if-then-else), value ranges with non-integer bounds (data values on the bound and on both sides, nearer than six decimals), quantified (nested, atLeast/atMost 0..2 around small inner formulas, positive and negated), connective skeletons as YAML, variable-index (a nested-in-nested constraint whose outer quantified variable is the k-th of its validation)"}
	outs, err := runPrograms(regoWork(c), progs, func(p regosym.Program) regosym.Scope { return regosym.ScopeFor(p, n, 2, 4) }, c.knownSignatures("C01.verdict-eq-reference"), 16)
	if err != nil {
		c.inconclusive("regosym: " + err.Error())
		return
	}
	c.absorb(outs, "C01.verdict-eq-reference")
	if thorough {
		regoDifferential(c, progs, 9, 40)
	} else {
		regoDifferential(c, progs, 23, 12)
	}
	// what the model of the policy cannot see is how the real pipeline reads numbers from the data text
	// (decoder settings, number formatting on the way into the engine): every program with non-integer or
	// very large bounds goes through the real entry point on graphs spread over its scope
	regoDifferential(c, regosym.FamilyFloatBounds(thorough), 1, 64)
}

// regoDifferential validates the Rego model itself (not the property): for every step-th program,
// pseudo-randomly spread graphs of the scope are validated through the real entry point and the
// real results must equal regosym's prediction. A disagreement makes the check inconclusive.
func regoDifferential(c *checkCtx, progs []regosym.Program, step, graphs int) {
	drv, err := regosym.BuildDriver(repoDir, verifDir(), regoWork(c))
	if err != nil {
		c.inconclusive("regosym: " + err.Error())
		return
	}
	var sel []regosym.Program
	for i, p := range progs {
		if i%step == 0 {
			sel = append(sel, p)
		}
	}
	texts := make([]string, len(sel))
	for i, p := range sel {
		texts[i] = p.ProfileYAML()
	}
	gens, err := drv.Generate(texts)
	if err != nil {
		c.inconclusive("regosym: " + err.Error())
		return
	}
	var mu sync.Mutex
	var wg sync.WaitGroup
	jobs := make(chan int, len(sel))
	for i := range sel {
		jobs <- i
	}
	close(jobs)
	total := 0
	for w := 0; w < 16; w++ {
		wg.Add(1)
		go func() {
			defer wg.Done()
			s, err := smt.NewSolver("z3")
			if err != nil {
				return
			}
			defer s.Close()
			ck := &regosym.Checker{Drv: drv, Solver: s}
			for i := range jobs {
				if gens[i].Error != "" {
					continue
				}
				ck.LastDeviation = nil
				n, msg := ck.Differential(sel[i], regosym.ScopeFor(sel[i], 3, 2, 4), gens[i].Code, graphs, false)
				mu.Lock()
				total += n
				if ck.LastDeviation != nil {
					// the real pipeline (input indexing + policy evaluation + report) departs from the reference
					// where the model of the policy does not: e.g. the input index lost or altered something
					o := *ck.LastDeviation
					if c.spec.ID != "C01" {
						o.Label = c.spec.ID + ".end-to-end-eq-reference"
					}
					c.disagreements++
					dir := c.writeRegoReplay(o)
					c.violations = append(c.violations, fmt.Sprintf("VIOLATION property=%s replay=%s label=%s program=%q detail=%q", c.spec.ID, dir, o.Label, o.Program, firstLine(o.Detail)))
				} else if msg != "" {
					c.inconclusive(fmt.Sprintf("regosym disagrees with the real implementation on program %q: %s", regosym.DescribeProgram(sel[i]), firstLine(msg)))
				}
				mu.Unlock()
			}
		}()
	}
	wg.Wait()
	c.replayed += total
	c.evidence["regosym_differential"] = map[string]any{"programs": len(sel), "graphs_validated_through_the_real_entry_point": total, "rule": "pseudo-randomly spread graphs of the scope; real results must equal regosym's prediction"}
}

// regoC02: the generated path rule denotes composition / union / converse, for every path
// expression of the family in every generator mode, over all graphs of the scope.
func regoC02(c *checkCtx) {
	occ, n := 3, 2
	if c.tier == "thorough" {
		occ, n = 3, 3
	}
	var paths []regosym.Path
	mixed := 0
	for _, p := range regosym.PathShapes(occ, 2, true) {
		// paths whose alternatives end forward AND inverse are in: a node reached both ways is one value
		if !regosym.Homogeneous(p) {
			mixed++
		}
		paths = append(paths, p)
	}
	if c.tier == "thorough" {
		// deeper expressions on a smaller graph
		for _, p := range regosym.PathShapes(4, 1, false) {
			if regosym.Occurrences(p) == 4 {
				paths = append(paths, p)
			}
		}
	}
	c.evidence["bounds_regosym"] = map[string]any{"path_expressions": len(paths), "predicate_occurrences": fmt.Sprintf("<= %d over 2 predicates (plus every shape with 4 occurrences of one predicate, forward or inverse, in the thorough tier)", occ), "nodes": n, "values_per_property": 2,
		"modes": "property set (constraint values), node set (nested), array (uniqueValues)", "paths_ending_forward_and_inverse": mixed,
		"graph_features": "cycles, self loops, diamonds, two routes to one node, literals in mid-path, dangling references, absent nodes"}
	nFor := func(p regosym.Path) int {
		if regosym.Occurrences(p) >= 4 {
			return 2 // deeper expressions on a smaller graph
		}
		return n
	}
	outs, err := runPaths(regoWork(c), paths, []string{"set", "nodes", "array"}, nFor, 2, 16, c.knownSignatures("C02.set-eq-denotation"))
	if err != nil {
		c.inconclusive("regosym: " + err.Error())
		return
	}
	c.absorb(outs, "C02.set-eq-denotation")
	// end to end: count constraints over path shapes through the real pipeline (real input index, real
	// engine) on graphs spread over the scope, against the relational denotation
	regoDifferential(c, regosym.FamilyAtomPaths(c.tier == "thorough"), 3, 10)
}

func shapeFamily(thorough bool) []regosym.Program {
	var progs []regosym.Program
	atoms := regosym.FamilyAtoms(false)
	for i, p := range atoms {
		if thorough || i%4 == 0 || i%4 == 1 {
			progs = append(progs, p)
		}
	}
	progs = append(progs, regosym.FamilyQuantified(thorough)...)
	progs = append(progs, regosym.FamilyGrouped(thorough)...)
	progs = append(progs, regosym.FamilyLevels()...)
	// composite paths: the trace names the path as written (alternatives, inverse steps, @type)
	for _, pt := range []regosym.Path{
		regosym.PAlt{Parts: []regosym.Path{regosym.P(0), regosym.Pinv(1)}},
		regosym.PSeq{Parts: []regosym.Path{regosym.P(0), regosym.PAlt{Parts: []regosym.Path{regosym.P(1), regosym.Pinv(1)}}}},
		regosym.PSeq{Parts: []regosym.Path{regosym.Pinv(0), regosym.PType{}}},
	} {
		progs = append(progs, regosym.Program{Name: "P", Validations: []regosym.Validation{{Name: "v", Level: "violation", Class: 0,
			F: regosym.And{Fs: []regosym.Formula{regosym.Atom{Path: pt, Kind: "maxCount", N: 0}}}}}})
	}
	return progs
}

// regoC12: every result object the module can produce is well-formed.
func regoC12(c *checkCtx) {
	progs := shapeFamily(c.tier == "thorough")
	c.evidence["bounds_regosym"] = map[string]any{"nodes": 3, "values_per_property": 2, "families": "atoms, quantified (nested sub-results to depth 2), level layouts"}
	outs, err := runShapes(regoWork(c), progs, func(p regosym.Program) regosym.Scope { return regosym.ScopeFor(p, 3, 2, 3) }, regosym.ShapeOptions{ResultShape: true}, 16)
	if err != nil {
		c.inconclusive("regosym: " + err.Error())
		return
	}
	c.absorb(outs, "C12.result-shape")
}

var lexPool = []regosym.LexEntry{
	{Range: "[(0,9)-(10,99)]", URI: "root:file"}, {Range: "[(100,2147483648)-(9007199254740993,0)]", URI: "file://other.raml"}, {Range: "[(3,4)-(5,6)]", URI: "file://other.raml"},
}

// regoC14: results carry exactly the lexical entry of their node; verdicts do not depend on it.
func regoC14(c *checkCtx) {
	thorough := c.tier == "thorough"
	progs := regosym.FamilyLocations(thorough)
	scope := func(p regosym.Program) regosym.Scope {
		sc := regosym.ScopeFor(p, 3, 2, 2)
		sc.Lexical = lexPool
		return sc
	}
	c.evidence["bounds_regosym"] = map[string]any{"nodes": 3, "lexical_pool": lexPool, "magnitudes": "0, 9, 10, 99, 100, 2^31, 2^53+1"}
	outs, err := runShapes(regoWork(c), progs, scope, regosym.ShapeOptions{Locations: true}, 16)
	if err != nil {
		c.inconclusive("regosym: " + err.Error())
		return
	}
	c.absorb(outs, "C14.location-eq-lexical")
	// verdicts with source maps in scope equal the reference verdicts (which ignore source maps)
	vprogs := progs
	outs2, err := runPrograms(regoWork(c), vprogs, scope, map[string]bool{}, 16)
	if err != nil {
		c.inconclusive("regosym: " + err.Error())
		return
	}
	for i := range outs2 {
		if outs2[i].Status == "violation" && outs2[i].Signature != "" {
			// the listed C01 deviations are not this property's business
			outs2[i].Status = "held"
		}
	}
	c.absorb(outs2, "C14.verdict-unaffected")
}

// regoC03: the level plumbing inside the emitted module.
func regoC03(c *checkCtx) {
	progs := regosym.FamilyLevels()
	scope := func(p regosym.Program) regosym.Scope { return regosym.ScopeFor(p, 2, 2, 2) }
	c.evidence["bounds_regosym"] = map[string]any{"nodes": 2, "level_layouts": len(progs), "layout": "2-3 validations each under violation | warning | info | defined-but-unlisted, plus a listed-but-undefined name"}
	outs, err := runPrograms(regoWork(c), progs, scope, map[string]bool{}, 16)
	if err != nil {
		c.inconclusive("regosym: " + err.Error())
		return
	}
	c.absorb(outs, "C03.level-of-shape")
	outs2, err := runShapes(regoWork(c), progs, scope, regosym.ShapeOptions{}, 16)
	if err != nil {
		c.inconclusive("regosym: " + err.Error())
		return
	}
	c.absorb(outs2, "C03.levels-defined")
}

// regoC13: placeholder substitution at evaluation time.
func regoC13(c *checkCtx) {
	msgs := []string{"m {{ex.p0}} end", "{{ex.p0}}", "say \"{{ex.p0}}\" 100% sure", "a\\b {{ ex.p0 }} c",
		"{{ex.p0}} and {{ex.p0}}", "{{ ex.p0 }}-{{ex.p0}}", "{{ex.p0}}/{{ ex.p1 }}/{{ex.p0}}",
		// texts that read like keys of the profile language or of YAML
		"targetClass", "propertyConstraints", "message", "it's: a #comment? - no", "{{ex.p1}}"}
	var progs []regosym.Program
	// profile and validation names are data as well: plain ones and ones with quotes, backslashes,
	// percent signs, braces and letters outside ASCII
	pnames := []string{"P", `Team "blue" API rules`, `a\b 100% {x} it's`, "Validación é 漢", "Ünïcödé-1"}
	vnames := []string{"v", `operaciones-mínimas`, `check "q" 100%`, `a\b{c}`, "v"}
	for k, m := range msgs {
		m = regosym.FixPreds(m)
		msgs[k] = m
		p := regosym.Program{Name: pnames[k%len(pnames)], Validations: []regosym.Validation{{Name: vnames[k%len(vnames)], Level: "violation", Class: 0, Message: m,
			F: regosym.And{Fs: []regosym.Formula{regosym.Atom{Path: regosym.P(1), Kind: "minCount", N: 1}}}}}}
		progs = append(progs, p)
	}
	// names and messages written WITHOUT quotes that YAML resolves to a number, a boolean, a date: the
	// text written is still the name / the message
	plain := [][3]string{{"2024", "404", "2024-01-01"}, {"1.5", "true", "404"}, {"0x1F", "1e3", "no"}, {"yes", "2024-01-01", "3.14"}, {"Rules v2", "0", "False"}}
	for _, t := range plain {
		progs = append(progs, regosym.Program{Name: t[0], Plain: true, Validations: []regosym.Validation{{Name: t[1], Level: "violation", Class: 0, Message: t[2],
			F: regosym.And{Fs: []regosym.Formula{regosym.Atom{Path: regosym.P(1), Kind: "minCount", N: 1}}}}}})
	}
	// two properties whose names differ only in a dash for the underscore (an identifier made from the
	// names by replacing punctuation cannot tell them apart), both shown in one message
	for _, m := range []string{"{{ex.p1}} / {{ex.p2}} / {{ex.p1}}", "a {{ ex.p2 }} b {{ex.p1}}"} {
		m = regosym.FixPreds(m)
		msgs = append(msgs, m)
		progs = append(progs, regosym.Program{Name: "P", Validations: []regosym.Validation{{Name: "v", Level: "violation", Class: 0, Message: m,
			F: regosym.And{Fs: []regosym.Formula{regosym.Atom{Path: regosym.P(2), Kind: "maxCount", N: 0}}}}}})
	}
	// the same over values that a truth test takes for "no value": a property that is false, 0 or the
	// empty string is still a property the node has
	for _, m := range []string{"m {{ex.p0}} end", "{{ex.p0}}/{{ ex.p1 }}/{{ex.p0}}"} {
		m = regosym.FixPreds(m)
		progs = append(progs, regosym.Program{Name: "falsy values", Validations: []regosym.Validation{{Name: "v", Level: "violation", Class: 0, Message: m,
			F: regosym.And{Fs: []regosym.Formula{regosym.Atom{Path: regosym.P(1), Kind: "minCount", N: 1}}}}}})
	}
	scope := func(p regosym.Program) regosym.Scope {
		sc := regosym.ScopeFor(p, 2, 2, 2)
		sc.Scalars = regosym.MessagePool()
		if p.Name == "falsy values" {
			sc.Scalars = regosym.MessagePoolFalsy()
		}
		return sc
	}
	c.evidence["bounds_regosym"] = map[string]any{"messages": msgs, "profile_names": pnames, "validation_names": vnames, "plain_scalars (profile name, validation name, message written without quotes)": plain, "value_pool": "a string with a quote and a percent sign, an integer, true, a float; for two of the messages also false, 0, the empty string and a plain string"}
	outs, err := runShapes(regoWork(c), progs, scope, regosym.ShapeOptions{Message: true}, 16)
	if err != nil {
		c.inconclusive("regosym: " + err.Error())
		return
	}
	c.absorb(outs, "C13.message-substitution")
}

// regoC07: every program of the declarative families (the ones the other properties evaluate) is
// translated by the real translator and accepted by the real policy engine.
func regoC07(c *checkCtx) {
	thorough := c.tier == "thorough"
	var progs []regosym.Program
	progs = append(progs, regosym.FamilyAtoms(thorough)...)
	progs = append(progs, regosym.FamilyQuantified(thorough)...)
	progs = append(progs, regosym.FamilyGrouped(thorough)...)
	progs = append(progs, regosym.FamilyNestedAtoms(thorough)...)
	progs = append(progs, regosym.FamilyAtomPaths(thorough)...)
	progs = append(progs, regosym.FamilySkeletons(2)...)
	progs = append(progs, regosym.FamilyVariableIndex([]int{1, 2, 12, 22, 23, 24, 25, 26})...)
	progs = append(progs, regosym.FamilyBoundaries()...)
	progs = append(progs, regosym.FamilyFloatBounds(thorough)...)
	progs = append(progs, regosym.FamilyEmptySets()...)
	for _, b := range regosym.BaseProfilesC15() {
		if b.Name != "B4" { // B4 embeds Rego: outside C07
			progs = append(progs, b)
		}
	}
	for _, m := range []string{"m {{ex.p0}} end", "{{ex.p0}} and {{ex.p0}}", "{{ ex.p0 }}-{{ex.p0}}", "{{ex.p0}}/{{ ex.p1 }}/{{ex.p0}}", "{{ex.p-0}} {{ex.p_0}}"} {
		m = regosym.FixPreds(m)
		progs = append(progs, regosym.Program{Name: "P", Validations: []regosym.Validation{
			{Name: "v", Level: "violation", Class: 0, Message: m, F: regosym.And{Fs: []regosym.Formula{regosym.Atom{Path: regosym.P(1), Kind: "minCount", N: 1}}}},
			{Name: "w", Level: "warning", Class: 0, Message: m, F: regosym.Nested{Path: regosym.P(0), F: regosym.And{Fs: []regosym.Formula{regosym.Atom{Path: regosym.P(1), Kind: "minCount", N: 1}}}}}}})
	}
	// names are data: the translator derives identifiers of the policy from them
	for k, n := range []string{`Team "blue" API rules`, `a\b 100% {x} it's`, "Guía de diseño de APIs", "Prüfregeln", "API 設計ガイド v2", "٣ rules", "x", "0", "-", "package", "default"} {
		vn := []string{"v", "operaciones-mínimas", `check "q" 100%`, "not", "v-1"}[k%5]
		progs = append(progs, regosym.Program{Name: n, Validations: []regosym.Validation{
			{Name: vn, Level: "violation", Class: 0, F: regosym.And{Fs: []regosym.Formula{regosym.Atom{Path: regosym.P(1), Kind: "minCount", N: 1}}}}}})
	}
	c.evidence["bounds_regosym"] = map[string]any{"programs": len(progs), "families": "set constraints with 130 and 400 values in 9 alignments, 40 validations with names and messages of up to 800 bytes; a lone control character or DEL in profile name / validation name / message / set value (8 characters x 4 places); profile and validation names with quotes, backslashes, percent signs, braces, letters and digits outside ASCII, keywords; atoms, quantified, nested atoms, atom paths, skeletons of depth 2, variable indices up to 26, rewrite base profiles, messages with repeated / several placeholders; every program with a path sequence also with the sequence written over several lines"}
	drv, err := regosym.BuildDriver(repoDir, verifDir(), regoWork(c))
	if err != nil {
		c.inconclusive("regosym: " + err.Error())
		return
	}
	var texts []string
	for _, p := range progs {
		texts = append(texts, p.ProfileYAML())
	}
	// the same programs with their path sequences written over several lines (line breaks and tabs
	// are whitespace of the path grammar)
	descs := make([]string, len(progs))
	for i, p := range progs {
		descs[i] = regosym.DescribeProgram(p)
	}
	for i, t := range append([]string{}, texts...) {
		if strings.Contains(t, " / ") {
			texts = append(texts, strings.ReplaceAll(t, " / ", " /\\n\\t"))
			descs = append(descs, descs[i]+" [paths written over several lines]")
		}
	}
	// hand-written profiles for spellings the program generator does not produce
	for _, raw := range [][2]string{
		{"backslash and escaped slash in property names", "#%Validation Profile 1.0\nprofile: Raw1\nprefixes:\n  ex: http://example.org/\nviolation:\n  - v1\nvalidations:\n  v1:\n    message: \"m {{ex.foo\\\\qux}}\"\n    targetClass: ex.C\n    propertyConstraints:\n      ex.foo\\qux:\n        minCount: 1\n      ex.a\\/b / ex.c\\d^:\n        maxCount: 1\n        lessThanProperty: ex.e\\f\n"},
		{"backslash in a class name and in a datatype", "#%Validation Profile 1.0\nprofile: Raw2\nprefixes:\n  ex: http://example.org/\nwarning:\n  - v1\nvalidations:\n  v1:\n    message: m\n    targetClass: ex.C\\D\n    propertyConstraints:\n      ex.p:\n        datatype: ex.t\\u\n        nested:\n          propertyConstraints:\n            ex.q\\r:\n              minCount: 1\n"},
	} {
		texts = append(texts, raw[1])
		descs = append(descs, "hand-written: "+raw[0])
	}
	// a single control character (or DEL) in an otherwise plain text, in each place a profile text is
	// pasted into the policy: no backslash, quote or lower-case letter next to it that could send the
	// text down another path of an escaper
	for _, ctl := range []string{`\x01`, `\b`, `\f`, `\e`, `\x7f`, `\t`, `\n`, `\r`} {
		text := "AB" + ctl + "CD"
		for _, place := range []string{"profile name", "validation name", "message", "set value"} {
			pn, vn, msg, val := "P", "V1", "M", "A"
			switch place {
			case "profile name":
				pn = text
			case "validation name":
				vn = text
			case "message":
				msg = text
			case "set value":
				val = text
			}
			texts = append(texts, fmt.Sprintf("#%%Validation Profile 1.0\nprofile: \"%s\"\nprefixes:\n  ex: http://example.org/\nviolation:\n  - \"%s\"\nvalidations:\n  \"%s\":\n    message: \"%s\"\n    targetClass: ex.C\n    propertyConstraints:\n      ex.p:\n        in: [ \"%s\", \"B\" ]\n", pn, vn, vn, msg, val))
			descs = append(descs, "hand-written: "+place+" AB"+ctl+"CD")
		}
	}
	// long lists: a set constraint with 130 and 400 values that need escaping, the first value 0..8
	// characters longer than the rest (whatever is cut, padded or wrapped at a fixed width meets every
	// alignment of an escape sequence), for in / containsAll / containsSome
	for _, n := range []int{130, 400} {
		for extra := 0; extra < 9; extra++ {
			var vals []string
			for k := 0; k < n; k++ {
				val := fmt.Sprintf("c%03d", k)
				if k == 0 {
					val += strings.Repeat("x", extra)
				}
				vals = append(vals, "\""+val+"\"")
			}
			kind := []string{"in", "containsAll", "containsSome"}[(extra+n)%3]
			texts = append(texts, fmt.Sprintf("#%%Validation Profile 1.0\nprofile: Long\nprefixes:\n  ex: http://example.org/\nviolation:\n  - v1\nvalidations:\n  v1:\n    message: m\n    targetClass: ex.C\n    propertyConstraints:\n      ex.p:\n        %s: [ %s ]\n", kind, strings.Join(vals, ", ")))
			descs = append(descs, fmt.Sprintf("hand-written: %s with %d values, first value %d characters longer", kind, n, extra))
		}
	}
	// many validations and long names: two-digit ordinals, names longer than 64 and 256 bytes
	{
		var names, defs []string
		for k := 0; k < 40; k++ {
			name := fmt.Sprintf("validation-%02d-%s", k, strings.Repeat("n", k*8))
			names = append(names, "  - "+name)
			defs = append(defs, fmt.Sprintf("  %s:\n    message: %s\n    targetClass: ex.C%d\n    propertyConstraints:\n      ex.p%d:\n        minCount: %d\n", name, strings.Repeat("m", 10+k*20), k%3, k, k))
		}
		texts = append(texts, "#%Validation Profile 1.0\nprofile: "+strings.Repeat("Long name ", 40)+"\nprefixes:\n  ex: http://example.org/\nviolation:\n"+strings.Join(names[:20], "\n")+"\nwarning:\n"+strings.Join(names[20:], "\n")+"\nvalidations:\n"+strings.Join(defs, ""))
		descs = append(descs, "hand-written: 40 validations with long names and messages")
	}
	gens, err := drv.Generate(texts)
	if err != nil {
		c.inconclusive("regosym: " + err.Error())
		return
	}
	var outs []regosym.Outcome
	for i, g := range gens {
		o := regosym.Outcome{Program: descs[i], Profile: texts[i], Status: "held"}
		if g.Error != "" {
			o.Status, o.Detail = "generate-error", g.Error
		} else if msg := gosym.RegoCompileError(g.Code); msg != "" {
			o.Status, o.Detail = "compile-error", msg
		}
		outs = append(outs, o)
	}
	c.absorb(outs, "C07.profile-compiles")
}

// regoC15: results are invariant under meaning-preserving rewrites of the profile text.
func regoC15(c *checkCtx) {
	bases := regosym.BaseProfilesC15()
	rws := regosym.Rewrites()
	n := 2
	if c.tier == "thorough" {
		n = 3
	}
	c.evidence["bounds_regosym"] = map[string]any{"base_profiles": len(bases), "rewrites": len(rws), "nodes": n, "compared": "severity, validation, focus node, message of every result"}
	var descs []string
	for _, r := range rws {
		descs = append(descs, r.Description)
	}
	c.evidence["rewrite_catalogue"] = descs
	outs, err := runRewrites(regoWork(c), bases, rws, n, 16)
	if err != nil {
		c.inconclusive("regosym: " + err.Error())
		return
	}
	c.absorb(outs, "C15.results-eq-under-rewrite")
}
