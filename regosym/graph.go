package regosym

import (
	"encoding/json"
	"fmt"
	"sort"
	"strings"

	"github.com/open-policy-agent/opa/ast"

	"verif/smt"
)

// Scope is the finite scope of the symbolic input graph.
type Scope struct {
	N        int         // node ids n1..nN (each exists or not)
	Classes  []string    // class IRIs a node may have (any subset)
	Preds    []string    // predicate IRIs
	Scalars  []ast.Value // literal pool (per program)
	Slots    int         // at most this many distinct values per (node, predicate)
	Dangling bool        // a reference to an id that is not a node
	Lexical  []LexEntry  // candidate lexical entries (range text, uri); nil = no source maps
}

type LexEntry struct {
	Range string
	URI   string
}

// PoolVal is one candidate value of a property.
type PoolVal struct {
	V      ast.Value
	Target int // node index for references, -1 otherwise
	IsRef  bool
}

// Graph is a symbolic JSON-LD graph in the normalised form validator.Index produces.
type Graph struct {
	Scope
	IDs      []string
	Exists   []*smt.Term
	HasClass [][]*smt.Term
	Pool     []PoolVal
	Subsets  [][]int       // alternatives of a property: index lists into Pool (canonical order)
	Sel      [][]*smt.Term // selector per (node, predicate): which subset
	LexSel   []*smt.Term   // selector per node: 0 = no entry, k = Lexical[k-1]
	Vars     []*smt.Term
	Side     []*smt.Term // side constraints (selector ranges)
	nodes    []*SObj
	Input    Val
}

func refValue(id string) ast.Value {
	return ast.NewObject([2]*ast.Term{ast.StringTerm("@id"), ast.StringTerm(id)})
}

func NewGraph(sc Scope, tag string) *Graph {
	g := &Graph{Scope: sc}
	for i := 0; i < sc.N; i++ {
		if i == sc.N-1 && sc.N >= 2 {
			// the last node is a blank node (an embedded object without @id gets such a label)
			g.IDs = append(g.IDs, "_:b0")
		} else {
			g.IDs = append(g.IDs, fmt.Sprintf("http://x.org/n%d", i+1))
		}
	}
	for i := 0; i < sc.N; i++ {
		e := smt.Var(fmt.Sprintf("%s_exists_%d", tag, i), 0)
		g.Vars = append(g.Vars, e)
		g.Exists = append(g.Exists, e)
		var hc []*smt.Term
		for c := range sc.Classes {
			v := smt.Var(fmt.Sprintf("%s_class_%d_%d", tag, i, c), 0)
			g.Vars = append(g.Vars, v)
			hc = append(hc, v)
		}
		g.HasClass = append(g.HasClass, hc)
	}
	for i := 0; i < sc.N; i++ {
		g.Pool = append(g.Pool, PoolVal{V: refValue(g.IDs[i]), Target: i, IsRef: true})
	}
	if sc.Dangling {
		g.Pool = append(g.Pool, PoolVal{V: refValue("http://x.org/dangling"), Target: -1, IsRef: true})
	}
	for _, s := range sc.Scalars {
		g.Pool = append(g.Pool, PoolVal{V: s, Target: -1})
	}
	// subsets of the pool of size 0..Slots
	var rec func(start int, cur []int)
	rec = func(start int, cur []int) {
		g.Subsets = append(g.Subsets, append([]int{}, cur...))
		if len(cur) == sc.Slots {
			return
		}
		for k := start; k < len(g.Pool); k++ {
			rec(k+1, append(cur, k))
		}
	}
	rec(0, nil)
	sort.SliceStable(g.Subsets, func(a, b int) bool { return len(g.Subsets[a]) < len(g.Subsets[b]) })
	if len(g.Subsets) > 250 {
		panic("scope too large: more than 250 alternatives per property")
	}
	for i := 0; i < sc.N; i++ {
		var row []*smt.Term
		for p := range sc.Preds {
			v := smt.Var(fmt.Sprintf("%s_sel_%d_%d", tag, i, p), 8)
			g.Vars = append(g.Vars, v)
			g.Side = append(g.Side, smt.BvCmp(smt.OpBvUlt, v, smt.BV(uint64(len(g.Subsets)), 8)))
			row = append(row, v)
		}
		g.Sel = append(g.Sel, row)
		// JSON-LD flattening drops a node object that has nothing but an @id: an existing node
		// has at least one class or one property value
		some := smt.False
		for c := range sc.Classes {
			some = smt.Or(some, g.HasClass[i][c])
		}
		for p := range sc.Preds {
			some = smt.Or(some, smt.Not(smt.Eq(row[p], smt.BV(0, 8))))
		}
		g.Side = append(g.Side, smt.Implies(g.Exists[i], some))
		lv := smt.Var(fmt.Sprintf("%s_lex_%d", tag, i), 8)
		g.Vars = append(g.Vars, lv)
		g.Side = append(g.Side, smt.BvCmp(smt.OpBvUle, lv, smt.BV(uint64(len(sc.Lexical)), 8)))
		g.LexSel = append(g.LexSel, lv)
	}
	g.build()
	return g
}

func (g *Graph) selIs(i, p, k int) *smt.Term { return smt.Eq(g.Sel[i][p], smt.BV(uint64(k), 8)) }

// HasValue: guard under which pool value k is among the values of predicate p at node i.
func (g *Graph) HasValue(i, p, k int) *smt.Term {
	t := smt.False
	for s, sub := range g.Subsets {
		for _, x := range sub {
			if x == k {
				t = smt.Or(t, g.selIs(i, p, s))
			}
		}
	}
	return t
}

// subsetValue: JSON-LD compaction of a value set (absent / single value / array).
func (g *Graph) subsetValue(sub []int) (ast.Value, bool) {
	switch len(sub) {
	case 0:
		return nil, false
	case 1:
		return g.Pool[sub[0]].V, true
	}
	ts := make([]*ast.Term, len(sub))
	for i, k := range sub {
		ts[i] = ast.NewTerm(g.Pool[k].V)
	}
	return ast.NewArray(ts...), true
}

func (g *Graph) build() {
	ids := NewSObj()
	types := NewSObj()
	lex := NewSObj()
	for i := 0; i < g.N; i++ {
		n := NewSObj()
		n.Set("@id", []Alt{{smt.True, ast.String(g.IDs[i])}})
		// @type: absent | string | array, by class subset
		var talts []Alt
		nc := len(g.Classes)
		for mask := 1; mask < 1<<uint(nc); mask++ {
			guard := smt.True
			var cs []*ast.Term
			for c := 0; c < nc; c++ {
				if mask&(1<<uint(c)) != 0 {
					guard = smt.And(guard, g.HasClass[i][c])
					cs = append(cs, ast.StringTerm(g.Classes[c]))
				} else {
					guard = smt.And(guard, smt.Not(g.HasClass[i][c]))
				}
			}
			if len(cs) == 1 {
				talts = append(talts, Alt{guard, cs[0].Value})
			} else {
				talts = append(talts, Alt{guard, ast.NewArray(cs...)})
			}
		}
		n.Set("@type", talts)
		for p, pred := range g.Preds {
			var alts []Alt
			for s, sub := range g.Subsets {
				if v, ok := g.subsetValue(sub); ok {
					alts = append(alts, Alt{g.selIs(i, p, s), v})
				}
			}
			n.Set(pred, alts)
		}
		g.nodes = append(g.nodes, n)
		ids.Set(g.IDs[i], []Alt{{g.Exists[i], n}})
		if len(g.Lexical) > 0 {
			var lalts []Alt
			for k, le := range g.Lexical {
				entry := ast.NewObject([2]*ast.Term{ast.StringTerm("range"), ast.StringTerm(le.Range)}, [2]*ast.Term{ast.StringTerm("uri"), ast.StringTerm(le.URI)})
				lalts = append(lalts, Alt{smt.And(g.Exists[i], smt.Eq(g.LexSel[i], smt.BV(uint64(k+1), 8))), entry})
			}
			lex.Set(g.IDs[i], lalts)
		}
	}
	for c, cls := range g.Classes {
		var el []Alt
		for i := 0; i < g.N; i++ {
			el = append(el, Alt{smt.And(g.Exists[i], g.HasClass[i][c]), ast.String(g.IDs[i])})
		}
		types.Set(cls, []Alt{{smt.True, NewSArr(el)}})
	}
	in := NewSObj()
	in.Set("@ids", []Alt{{smt.True, ids}})
	in.Set("@types", []Alt{{smt.True, types}})
	in.Set("@lexical", []Alt{{smt.True, lex}})
	g.Input = in
}

// Node returns the symbolic object of node i.
func (g *Graph) Node(i int) *SObj { return g.nodes[i] }

// NodeIndex maps a node object back to its index (-1 if it is not one).
func (g *Graph) NodeIndex(v Val) int {
	if o, ok := v.(*SObj); ok {
		for i, n := range g.nodes {
			if n == o {
				return i
			}
		}
	}
	return -1
}

// PoolIndex finds a concrete value in the pool (-1 if absent).
func (g *Graph) PoolIndex(v Val) int {
	c, ok := v.(ast.Value)
	if !ok {
		return -1
	}
	for k, pv := range g.Pool {
		if ast.Compare(pv.V, c) == 0 {
			return k
		}
	}
	return -1
}

// Concrete decodes a model into the flattened JSON-LD document of the graph.
func (g *Graph) Concrete(m map[string]uint64) (string, map[string]any) {
	val := func(t *smt.Term) uint64 { return smt.Eval(t, m, map[*smt.Term]uint64{}) }
	var nodes []any
	desc := map[string]any{}
	var smNodes []any
	for i := 0; i < g.N; i++ {
		if val(g.Exists[i]) == 0 {
			continue
		}
		n := map[string]any{"@id": g.IDs[i]}
		var cs []any
		for c := range g.Classes {
			if val(g.HasClass[i][c]) != 0 {
				cs = append(cs, g.Classes[c])
			}
		}
		if len(cs) == 1 {
			n["@type"] = cs[0]
		} else if len(cs) > 1 {
			n["@type"] = cs
		}
		for p, pred := range g.Preds {
			sub := g.Subsets[int(val(g.Sel[i][p]))%len(g.Subsets)]
			if v, ok := g.subsetValue(sub); ok {
				j, _ := ast.JSON(v)
				n[pred] = j
			}
		}
		nodes = append(nodes, n)
		if k := int(val(g.LexSel[i])); k >= 1 && k <= len(g.Lexical) {
			smNodes = append(smNodes, map[string]any{"@id": fmt.Sprintf("http://x.org/lex%d", i+1),
				"http://a.ml/vocabularies/document-source-maps#element": g.IDs[i],
				"http://a.ml/vocabularies/document-source-maps#value":   g.Lexical[k-1].Range,
				"_uri": g.Lexical[k-1].URI})
		}
		desc[g.IDs[i]] = n
	}
	if len(smNodes) > 0 {
		nodes = append(nodes, lexicalNodes(smNodes)...)
	}
	doc := map[string]any{"@graph": nodes}
	if len(nodes) == 0 {
		doc = map[string]any{"@graph": []any{}}
	}
	b, _ := json.MarshalIndent(doc, "", " ")
	return string(b), desc
}

// lexicalNodes renders lexical entries the way AMF does (SourceMap + BaseUnitSourceInformation).
func lexicalNodes(entries []any) []any {
	var out []any
	var links []any
	byURI := map[string][]any{}
	root := ""
	for _, e := range entries {
		m := e.(map[string]any)
		uri := m["_uri"].(string)
		delete(m, "_uri")
		out = append(out, m)
		links = append(links, map[string]any{"@id": m["@id"]})
		if strings.HasPrefix(uri, "root:") {
			root = uri
		} else {
			byURI[uri] = append(byURI[uri], map[string]any{"@id": m["http://a.ml/vocabularies/document-source-maps#element"]})
		}
	}
	out = append(out, map[string]any{"@id": "http://x.org/sm", "@type": "http://a.ml/vocabularies/document-source-maps#SourceMap",
		"http://a.ml/vocabularies/document-source-maps#lexical": links})
	si := map[string]any{"@id": "http://x.org/si", "@type": "http://a.ml/vocabularies/document#BaseUnitSourceInformation",
		"http://a.ml/vocabularies/document#rootLocation": rootURIDefault(root)}
	var locs []any
	var uris []string
	for u := range byURI {
		uris = append(uris, u)
	}
	sort.Strings(uris)
	for k, u := range uris {
		id := fmt.Sprintf("http://x.org/loc%d", k)
		out = append(out, map[string]any{"@id": id, "http://a.ml/vocabularies/document#location": u, "http://a.ml/vocabularies/document#elements": byURI[u]})
		locs = append(locs, map[string]any{"@id": id})
	}
	if len(locs) > 0 {
		si["http://a.ml/vocabularies/document#additionalLocations"] = locs
	}
	out = append(out, si)
	return out
}

func rootURIDefault(r string) string {
	if r == "" {
		return "root:file"
	}
	return r
}


// Dangling: does the pool hold a reference to an id that is not a node (pool index N)?
func (g *Graph) Dangling() bool {
	return len(g.Pool) > g.N && g.Pool[g.N].IsRef && g.Pool[g.N].Target < 0
}
