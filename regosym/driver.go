// Package regosym evaluates the Rego module that the real generator emits on a
// symbolic input graph (finite scope) and compares it with a reference semantics.
package regosym

import (
	"bytes"
	"encoding/json"
	"fmt"
	"os"
	"os/exec"
	"path/filepath"
	"strings"
)

// Driver is the natively built batch driver (real parser + generator + validator of /repo).
type Driver struct {
	Bin string
}

type GenOut struct {
	Code  string `json:"code"`
	Name  string `json:"name"`
	Error string `json:"error"`
}

type ValIn struct {
	Profile string `json:"profile"`
	Data    string `json:"data"`
}

type ValOut struct {
	Report string `json:"report"`
	Error  string `json:"error"`
}

// BuildDriver compiles harness/cmd/zz_verifdrv against /repo's working tree via an overlay.
func BuildDriver(repoDir, verifDir, workDir string) (*Driver, error) {
	replace := map[string]string{}
	hdir := filepath.Join(verifDir, "harness")
	err := filepath.Walk(hdir, func(p string, info os.FileInfo, err error) error {
		if err != nil || info.IsDir() || !strings.HasSuffix(p, ".go") {
			return err
		}
		rel, _ := filepath.Rel(hdir, p)
		replace[filepath.Join(repoDir, rel)] = p
		return nil
	})
	if err != nil {
		return nil, err
	}
	ovb, _ := json.Marshal(map[string]any{"Replace": replace})
	ov := filepath.Join(workDir, "drv_overlay.json")
	if err := os.WriteFile(ov, ovb, 0o644); err != nil {
		return nil, err
	}
	bin := filepath.Join(workDir, "zz_verifdrv")
	cmd := exec.Command("go", "build", "-tags", "verif", "-overlay", ov, "-o", bin, "./cmd/zz_verifdrv")
	cmd.Dir = repoDir
	cmd.Env = append(os.Environ(), "GOFLAGS=-mod=mod", "GOPROXY=off", "GOSUMDB=off", "GOTOOLCHAIN=local")
	if out, err := cmd.CombinedOutput(); err != nil {
		return nil, fmt.Errorf("building the native driver failed: %v\n%s", err, out)
	}
	return &Driver{Bin: bin}, nil
}

func (d *Driver) run(mode string, in any, out any) error {
	b, _ := json.Marshal(in)
	cmd := exec.Command(d.Bin, mode)
	cmd.Stdin = bytes.NewReader(b)
	var so, se bytes.Buffer
	cmd.Stdout, cmd.Stderr = &so, &se
	if err := cmd.Run(); err != nil {
		return fmt.Errorf("driver %s: %v: %s", mode, err, se.String())
	}
	return json.Unmarshal(so.Bytes(), out)
}

// Generate runs the real parser and generator on each profile text.
func (d *Driver) Generate(profiles []string) ([]GenOut, error) {
	var out []GenOut
	err := d.run("generate", profiles, &out)
	return out, err
}

// Validate runs the real public entry point on each (profile, data) pair.
func (d *Driver) Validate(in []ValIn) ([]ValOut, error) {
	var out []ValOut
	err := d.run("validate", in, &out)
	return out, err
}

// Normalize runs the real input pipeline (decode, JSON-LD flatten, index) on each document.
func (d *Driver) Normalize(docs []string) ([]ValOut, error) {
	var out []ValOut
	err := d.run("normalize", docs, &out)
	return out, err
}
