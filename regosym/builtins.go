package regosym

import (
	"strings"
	"sync"

	"github.com/open-policy-agent/opa/ast"
	"github.com/open-policy-agent/opa/topdown"

	"verif/smt"
)

var nativeCache sync.Map

// nativeBuiltin runs the linked OPA's own implementation of a built-in on concrete
// operands. A built-in error makes the call undefined (non-strict evaluation).
func nativeBuiltin(name string, args []ast.Value) (ast.Value, bool) {
	var sb strings.Builder
	sb.WriteString(name)
	for _, a := range args {
		sb.WriteByte('\x00')
		sb.WriteString(a.String())
	}
	key := sb.String()
	if c, ok := nativeCache.Load(key); ok {
		if c == nil {
			return nil, false
		}
		return c.(ast.Value), true
	}
	f := topdown.GetBuiltin(name)
	if f == nil {
		unsupportedf("built-in %s has no implementation in the linked OPA", name)
	}
	terms := make([]*ast.Term, len(args))
	for i, a := range args {
		terms[i] = ast.NewTerm(a)
	}
	var res ast.Value
	defined := false
	func() {
		defer func() {
			if r := recover(); r != nil {
				defined = false
			}
		}()
		err := f(topdown.BuiltinContext{}, terms, func(t *ast.Term) error {
			res = t.Value
			defined = true
			return nil
		})
		if err != nil {
			defined = false
		}
	}()
	if !defined {
		nativeCache.Store(key, nil)
		return nil, false
	}
	nativeCache.Store(key, res)
	return res, true
}

func boolAlt(g *smt.Term) []Alt {
	if g.IsFalse() {
		return nil
	}
	return []Alt{{g, ast.Boolean(true)}}
}

func hasSymbolic(vals []Val) bool {
	for _, v := range vals {
		if !isConcrete(v) {
			return true
		}
	}
	return false
}

// applyBuiltin evaluates a built-in on (possibly guarded) operand values. The result
// is a list of guarded alternatives; an empty list means undefined.
func (ev *Evaluator) applyBuiltin(name string, vals []Val) []Alt {
	ev.Builtins[name] = true
	for i := range vals {
		vals[i] = concretizeIfPossible(vals[i])
	}
	if !hasSymbolic(vals) {
		args := make([]ast.Value, len(vals))
		for i, v := range vals {
			args[i] = v.(ast.Value)
		}
		switch name {
		case "equal", "neq", "lt", "lte", "gt", "gte":
			c := ast.Compare(args[0], args[1])
			var r bool
			switch name {
			case "equal":
				r = c == 0
			case "neq":
				r = c != 0
			case "lt":
				r = c < 0
			case "lte":
				r = c <= 0
			case "gt":
				r = c > 0
			case "gte":
				r = c >= 0
			}
			// relations without an output variable: false means "not satisfied"
			return []Alt{{smt.True, ast.Boolean(r)}}
		}
		res, ok := nativeBuiltin(name, args)
		if !ok {
			return nil
		}
		return []Alt{{smt.True, res}}
	}
	switch name {
	case "count":
		if el, ok := elemsOfArray(vals[0]); ok {
			return []Alt{{smt.True, &SCount{id: nextID(), T: countOf(el)}}}
		}
		if el, ok := elemsOfSet(vals[0]); ok {
			return []Alt{{smt.True, &SCount{id: nextID(), T: countOf(el)}}}
		}
		if o, ok := vals[0].(*SObj); ok {
			var el []Alt
			for _, k := range o.Keys {
				el = append(el, Alt{anyGuard(o.Fields[k]), ast.String(k)})
			}
			return []Alt{{smt.True, &SCount{id: nextID(), T: countOf(el)}}}
		}
		return nil
	case "equal", "neq", "lt", "lte", "gt", "gte":
		ta, oka := countTerm(vals[0])
		tb, okb := countTerm(vals[1])
		if oka && okb {
			var g *smt.Term
			switch name {
			case "equal":
				g = smt.Eq(ta, tb)
			case "neq":
				g = smt.Not(smt.Eq(ta, tb))
			case "lt":
				g = smt.BvCmp(smt.OpBvSlt, ta, tb)
			case "lte":
				g = smt.BvCmp(smt.OpBvSle, ta, tb)
			case "gt":
				g = smt.BvCmp(smt.OpBvSlt, tb, ta)
			case "gte":
				g = smt.BvCmp(smt.OpBvSle, tb, ta)
			}
			return boolAlt(g)
		}
		if _, isCount := vals[0].(*SCount); isCount {
			unsupportedf("comparison of a count with %s", describe(vals[1]))
		}
		if _, isCount := vals[1].(*SCount); isCount {
			unsupportedf("comparison of %s with a count", describe(vals[0]))
		}
		if name == "equal" || name == "neq" {
			eq := valEqual(vals[0], vals[1])
			return []Alt{{smt.True, ast.Boolean(eq == (name == "equal"))}}
		}
		// OPA's total order: null < boolean < number < string < array < object < set
		rank := func(v Val) int {
			switch x := v.(type) {
			case *SObj:
				return 5
			case *SArr:
				return 4
			case *SSet:
				return 6
			case ast.Value:
				switch x.(type) {
				case ast.Null:
					return 0
				case ast.Boolean:
					return 1
				case ast.Number:
					return 2
				case ast.String:
					return 3
				case *ast.Array:
					return 4
				case ast.Object:
					return 5
				case ast.Set:
					return 6
				}
			}
			return -1
		}
		if ra, rb := rank(vals[0]), rank(vals[1]); ra >= 0 && rb >= 0 && ra != rb {
			less := ra < rb
			var r bool
			switch name {
			case "lt", "lte":
				r = less
			default:
				r = !less
			}
			return []Alt{{smt.True, ast.Boolean(r)}}
		}
		unsupportedf("ordering comparison on %s / %s", describe(vals[0]), describe(vals[1]))
	case "minus":
		ta, oka := countTerm(vals[0])
		tb, okb := countTerm(vals[1])
		if oka && okb {
			return []Alt{{smt.True, &SCount{id: nextID(), T: smt.BvBin(smt.OpBvSub, ta, tb)}}}
		}
		a, ok1 := elemsOfSet(vals[0])
		b, ok2 := elemsOfSet(vals[1])
		if ok1 && ok2 {
			var el []Alt
			for _, x := range a {
				inB := smt.False
				for _, y := range b {
					if valEqual(x.V, y.V) {
						inB = smt.Or(inB, y.G)
					}
				}
				el = append(el, Alt{smt.And(x.G, smt.Not(inB)), x.V})
			}
			return []Alt{{smt.True, NewSSet(el)}}
		}
		return nil
	case "plus":
		ta, oka := countTerm(vals[0])
		tb, okb := countTerm(vals[1])
		if oka && okb {
			return []Alt{{smt.True, &SCount{id: nextID(), T: smt.BvBin(smt.OpBvAdd, ta, tb)}}}
		}
		return nil
	case "or":
		a, ok1 := elemsOfSet(vals[0])
		b, ok2 := elemsOfSet(vals[1])
		if ok1 && ok2 {
			return []Alt{{smt.True, NewSSet(append(append([]Alt{}, a...), b...))}}
		}
		return nil
	case "and":
		a, ok1 := elemsOfSet(vals[0])
		b, ok2 := elemsOfSet(vals[1])
		if ok1 && ok2 {
			var el []Alt
			for _, x := range a {
				inB := smt.False
				for _, y := range b {
					if valEqual(x.V, y.V) {
						inB = smt.Or(inB, y.G)
					}
				}
				el = append(el, Alt{smt.And(x.G, inB), x.V})
			}
			return []Alt{{smt.True, NewSSet(el)}}
		}
		return nil
	case "array.concat":
		a, ok1 := elemsOfArray(vals[0])
		b, ok2 := elemsOfArray(vals[1])
		if ok1 && ok2 {
			return []Alt{{smt.True, NewSArr(append(append([]Alt{}, a...), b...))}}
		}
		return nil
	case "is_array":
		_, ok := vals[0].(*SArr)
		return []Alt{{smt.True, ast.Boolean(ok)}}
	case "is_object":
		_, ok := vals[0].(*SObj)
		return []Alt{{smt.True, ast.Boolean(ok)}}
	case "is_set":
		_, ok := vals[0].(*SSet)
		return []Alt{{smt.True, ast.Boolean(ok)}}
	case "is_string", "is_boolean", "is_null":
		if _, ok := vals[0].(*Opaque); ok {
			return []Alt{{smt.True, ast.Boolean(name == "is_string")}}
		}
		return []Alt{{smt.True, ast.Boolean(false)}}
	case "is_number":
		_, ok := vals[0].(*SCount)
		return []Alt{{smt.True, ast.Boolean(ok)}}
	case "object.get":
		o, ok := vals[0].(*SObj)
		if !ok {
			if c, isC := vals[0].(ast.Value); isC {
				// concrete object, guarded default
				if obj, isObj := c.(ast.Object); isObj {
					if k, isK := vals[1].(ast.Value); isK {
						if e := obj.Get(ast.NewTerm(k)); e != nil {
							return []Alt{{smt.True, e.Value}}
						}
						return []Alt{{smt.True, vals[2]}}
					}
				}
			}
			return nil // object.get on a non-object is undefined
		}
		ks, ok := vals[1].(ast.String)
		if !ok {
			return []Alt{{smt.True, vals[2]}}
		}
		alts := append([]Alt{}, o.Fields[string(ks)]...)
		alts = append(alts, Alt{smt.Not(anyGuard(alts)), vals[2]})
		return mergeAlts(alts)
	case "concat", "sprintf", "json.marshal", "format_int", "to_number":
		return []Alt{{smt.True, &Opaque{id: nextID(), Tag: name}}}
	}
	for _, v := range vals {
		if _, isObj := v.(*SObj); isObj {
			// no other built-in in use accepts an object operand: a type error, i.e. undefined
			return nil
		}
	}
	unsupportedf("built-in %s on guarded operands (%s)", name, describeAll(vals))
	return nil
}

func describeAll(vals []Val) string {
	var p []string
	for _, v := range vals {
		p = append(p, describe(v))
	}
	return strings.Join(p, ", ")
}
