package regosym

import (
	"encoding/json"
	"fmt"
	"regexp"
	"strings"

	"github.com/open-policy-agent/opa/ast"

	"verif/smt"
)

// ---- path expressions (the documented grammar) ------------------------------------------

type Path interface{ pathString(top bool) string }

type PProp struct {
	Pred    int // index into Scope.Preds
	Inverse bool
}
type PType struct{}
type PSeq struct{ Parts []Path }
type PAlt struct{ Parts []Path }

const ExNS = "http://example.org/"

// predLocal: the local name of predicate i. Odd predicates carry an underscore (legal in the
// path grammar and in placeholders), even ones do not, so that every family exercises both.
func predLocal(i int) string {
	if i == 2 {
		// ... and predicate 2 differs from predicate 1 only in a dash for the underscore: names that an
		// identifier made from them by replacing punctuation cannot tell apart
		return "p-1"
	}
	if i%2 == 1 {
		return fmt.Sprintf("p_%d", i)
	}
	return fmt.Sprintf("p%d", i)
}

// predOfLocal: the predicate whose local name this is (-1 when none of the first ten).
func predOfLocal(local string) int {
	for i := 0; i < 10; i++ {
		if predLocal(i) == local {
			return i
		}
	}
	return -1
}
func predName(i int) string { return "ex." + predLocal(i) }
func PredIRI(i int) string  { return ExNS + predLocal(i) }

var plainPredRe = regexp.MustCompile(`ex\.p(\d+)`)

// FixPreds rewrites ex.pN in a hand-written text (a message) to the name predicate N really has.
func FixPreds(text string) string {
	return plainPredRe.ReplaceAllStringFunc(text, func(m string) string {
		n := 0
		fmt.Sscan(m[len("ex.p"):], &n)
		return predName(n)
	})
}

func (p PProp) pathString(bool) string {
	if p.Inverse {
		return predName(p.Pred) + "^"
	}
	return predName(p.Pred)
}
func (PType) pathString(bool) string { return "@type" }
func (p PSeq) pathString(top bool) string {
	var parts []string
	for _, x := range p.Parts {
		parts = append(parts, x.pathString(false))
	}
	s := strings.Join(parts, " / ")
	if !top {
		return "(" + s + ")"
	}
	return s
}
func (p PAlt) pathString(top bool) string {
	var parts []string
	for _, x := range p.Parts {
		parts = append(parts, x.pathString(false))
	}
	s := strings.Join(parts, " | ")
	if !top {
		return "(" + s + ")"
	}
	return s
}

func PathString(p Path) string { return p.pathString(true) }

// ---- formulas ----------------------------------------------------------------------------

type Formula interface{}

type Atom struct {
	Path      Path
	FloatData bool   // in: the data holds non-integer numbers next to the (integer) members of the set
	Bound     string // numeric comparisons: the bound as written when it is not an integer ("1.0000004"); N is unused then
	Kind      string // minCount maxCount exactCount minLength maxLength exactLength pattern in containsAll containsSome minInclusive minExclusive maxInclusive maxExclusive datatype lessThanProperty lessThanOrEqualsToProperty equalsToProperty disjointWithProperty
	N         int
	Values    []ast.Value
	Pattern   string
	Type      string // xsd local name
	Other     Path
}

// Rego is an embedded-Rego constraint (no reference semantics: used for equivalence checks only).
type Rego struct {
	Code    string
	Message string
}

type Not struct{ F Formula }
type And struct{ Fs []Formula }
type Or struct{ Fs []Formula }
type If struct{ C, T, E Formula }
type Nested struct {
	Path Path
	F    Formula
}
type Quant struct {
	Path  Path
	Least bool // atLeast / atMost
	N     int
	F     Formula
}

func Describe(f Formula) string {
	switch x := f.(type) {
	case Atom:
		arg := fmt.Sprint(x.N)
		if x.Bound != "" {
			arg = x.Bound
		}
		switch x.Kind {
		case "pattern":
			arg = x.Pattern
		case "in", "containsAll", "containsSome":
			var p []string
			for _, v := range x.Values {
				p = append(p, v.String())
			}
			arg = "[" + strings.Join(p, ",") + "]"
		case "datatype":
			arg = x.Type
		case "lessThanProperty", "lessThanOrEqualsToProperty", "equalsToProperty", "disjointWithProperty":
			arg = PathString(x.Other)
		}
		return fmt.Sprintf("%s(%s,%s)", x.Kind, PathString(x.Path), arg)
	case Rego:
		return fmt.Sprintf("rego(%q)", x.Code)
	case Not:
		return "not(" + Describe(x.F) + ")"
	case PC:
		return "pc(" + descAll(x.Fs) + ")"
	case And:
		return "and(" + descAll(x.Fs) + ")"
	case Or:
		return "or(" + descAll(x.Fs) + ")"
	case If:
		if x.E != nil {
			return "ite(" + Describe(x.C) + "," + Describe(x.T) + "," + Describe(x.E) + ")"
		}
		return "if(" + Describe(x.C) + "," + Describe(x.T) + ")"
	case Nested:
		return "nested(" + PathString(x.Path) + "," + Describe(x.F) + ")"
	case Quant:
		k := "atMost"
		if x.Least {
			k = "atLeast"
		}
		return fmt.Sprintf("%s(%s,%d,%s)", k, PathString(x.Path), x.N, Describe(x.F))
	}
	return "?"
}

func descAll(fs []Formula) string {
	var p []string
	for _, f := range fs {
		p = append(p, Describe(f))
	}
	return strings.Join(p, ",")
}

// ---- YAML rendering ---------------------------------------------------------------------

func yamlScalar(v ast.Value) string {
	switch x := v.(type) {
	case ast.String:
		return fmt.Sprintf("%q", string(x))
	default:
		return v.String()
	}
}

// bodyYAML renders a formula as the body of a validation / nested validation.
func bodyYAML(f Formula, ind string) string {
	switch x := f.(type) {
	case Atom, Nested, Quant:
		return bodyYAML(PC{[]Formula{x}}, ind)
	case PC:
		// group the constraints by property, in order of first appearance
		var keys []string
		lines := map[string]string{}
		for _, k := range x.Fs {
			key, l := constraintYAML(k, ind+"    ")
			if _, seen := lines[key]; !seen {
				keys = append(keys, key)
			}
			lines[key] += l
		}
		out := ind + "propertyConstraints:\n"
		for _, key := range keys {
			out += fmt.Sprintf("%s  %q:\n%s", ind, key, lines[key])
		}
		return out
	case Rego:
		out := ind + "rego: |\n"
		for _, l := range strings.Split(x.Code, "\n") {
			out += ind + "  " + l + "\n"
		}
		return out
	case Not:
		return fmt.Sprintf("%snot:\n%s", ind, bodyYAML(x.F, ind+"  "))
	case And:
		return listYAML("and", x.Fs, ind)
	case Or:
		return listYAML("or", x.Fs, ind)
	case If:
		s := fmt.Sprintf("%sif:\n%s%sthen:\n%s", ind, bodyYAML(x.C, ind+"  "), ind, bodyYAML(x.T, ind+"  "))
		if x.E != nil {
			s += fmt.Sprintf("%selse:\n%s", ind, bodyYAML(x.E, ind+"  "))
		}
		return s
	}
	panic("bodyYAML")
}

func listYAML(key string, fs []Formula, ind string) string {
	s := ind + key + ":\n"
	for _, f := range fs {
		b := bodyYAML(f, ind+"    ")
		// turn the first line of the element into a list item
		s += ind + "  - " + strings.TrimPrefix(b, ind+"    ")
	}
	return s
}

// constraintYAML renders one constraint of a property: the property's path and the lines that go
// below it.
func constraintYAML(f Formula, ind string) (string, string) {
	switch x := f.(type) {
	case Atom:
		var arg string
		switch x.Kind {
		case "pattern":
			arg = fmt.Sprintf("%q", x.Pattern)
		case "in", "containsAll", "containsSome":
			var p []string
			for _, v := range x.Values {
				p = append(p, yamlScalar(v))
			}
			arg = "[" + strings.Join(p, ", ") + "]"
		case "datatype":
			arg = "xsd." + x.Type
		case "lessThanProperty", "lessThanOrEqualsToProperty", "equalsToProperty", "disjointWithProperty":
			arg = fmt.Sprintf("%q", PathString(x.Other))
		case "uniqueValues":
			arg = "true"
		default:
			arg = fmt.Sprint(x.N)
			if x.Bound != "" {
				arg = x.Bound
			}
		}
		return PathString(x.Path), fmt.Sprintf("%s%s: %s\n", ind, x.Kind, arg)
	case Nested:
		return PathString(x.Path), fmt.Sprintf("%snested:\n%s", ind, bodyYAML(x.F, ind+"  "))
	case Quant:
		k := "atMost"
		if x.Least {
			k = "atLeast"
		}
		return PathString(x.Path), fmt.Sprintf("%s%s:\n%s  count: %d\n%s  validation:\n%s", ind, k, ind, x.N, ind, bodyYAML(x.F, ind+"    "))
	}
	panic("constraintYAML: not a property constraint")
}

// PC is one propertyConstraints block holding several constraints (of one or several properties):
// their implicit conjunction, spelled the way profiles usually are.
type PC struct{ Fs []Formula }

// Validation is one named validation of a program.
type Validation struct {
	Name    string
	Level   string // violation | warning | info; several levels joined by "+" when the name is listed under each of them
	Class   int    // index into Scope.Classes
	F       Formula
	Message string
	// Extra: a second expression written into the same mapping under a key of lower precedence than F's
	// (the translator takes one expression key per mapping, by a fixed order of preference, whatever the
	// order of the keys in the text); it takes no part in the meaning
	Extra Formula
}

// Program is a declarative profile together with its formulas.
type Program struct {
	Name        string
	Validations []Validation
	Prefixes    map[string]string // extra prefixes
	KeyOrder    []int             // optional permutation for rendering (C15)
	Undefined   []string          // names listed under a level but not defined
	Plain       bool              // names and messages are written as plain (unquoted) YAML scalars where the text allows it
}

func ClassIRI(i int) string { return fmt.Sprintf("%sC%d", ExNS, i) }

// ProfileYAML renders the program as profile text.
func (p Program) ProfileYAML() string {
	var sb strings.Builder
	sb.WriteString("#%Validation Profile 1.0\n")
	name := p.Name
	if name == "" {
		name = "P"
	}
	yamlName := yamlName
	if p.Plain {
		yamlName = yamlPlain
	}
	fmt.Fprintf(&sb, "profile: %s\nprefixes:\n  ex: %s\n", yamlName(name), ExNS)
	for k, v := range p.Prefixes {
		fmt.Fprintf(&sb, "  %s: %s\n", k, v)
	}
	for _, lvl := range []string{"violation", "warning", "info"} {
		var names []string
		for _, v := range p.Validations {
			if listedUnder(v, lvl) {
				names = append(names, v.Name)
			}
		}
		for _, u := range p.Undefined {
			if strings.HasPrefix(u, lvl+":") {
				names = append(names, strings.TrimPrefix(u, lvl+":"))
			}
		}
		if len(names) > 0 {
			fmt.Fprintf(&sb, "%s:\n", lvl)
			for _, n := range names {
				fmt.Fprintf(&sb, "  - %s\n", yamlName(n))
			}
		}
	}
	sb.WriteString("validations:\n")
	for _, v := range p.Validations {
		fmt.Fprintf(&sb, "  %s:\n", yamlName(v.Name))
		if v.Message != "" && p.Plain {
			fmt.Fprintf(&sb, "    message: %s\n", yamlPlain(v.Message))
		} else if v.Message != "" {
			fmt.Fprintf(&sb, "    message: %q\n", v.Message)
		}
		fmt.Fprintf(&sb, "    targetClass: ex.C%d\n", v.Class)
		sb.WriteString(bodyYAML(v.F, "    "))
	}
	return sb.String()
}

// ---- reference semantics (written from the documentation, not from the generator) -------

// Ref evaluates formulas over a symbolic graph.
type Ref struct {
	G *Graph
	// Strict: a path composes through every resource that is referred to, also one without a node
	// object of its own (an id that is only ever the value of properties: JSON-LD flattening lists no
	// node for it) - `a / b^` leads from x over such a y to every z with z b y. Without Strict, mid-path
	// resources must be nodes of the document (what the implementation does: its mid-path dereference
	// looks the id up among the nodes).
	Strict bool
}

// resources: indices 0..N-1 are the nodes, index N (when the scope has one) the dangling reference.
func (r *Ref) resources() int {
	if r.Strict && r.G.Dangling() {
		return r.G.N + 1
	}
	return r.G.N
}

// denRes: the resources reached from resource i.
func (r *Ref) denRes(p Path, i int) []*smt.Term {
	g := r.G
	R := r.resources()
	out := make([]*smt.Term, R)
	for j := range out {
		out[j] = smt.False
	}
	switch x := p.(type) {
	case PProp:
		if x.Inverse {
			for j := 0; j < g.N; j++ {
				out[j] = smt.And(g.Exists[j], g.HasValue(j, x.Pred, r.refIndex(i)))
			}
		} else if i < g.N {
			for t := 0; t < R; t++ {
				guard := smt.And(g.Exists[i], g.HasValue(i, x.Pred, r.refIndex(t)))
				if !r.Strict {
					guard = smt.And(guard, g.Exists[t])
				}
				out[t] = guard
			}
		}
	case PType:
	case PSeq:
		cur := r.denRes(x.Parts[0], i)
		for _, part := range x.Parts[1:] {
			next := make([]*smt.Term, R)
			for j := range next {
				next[j] = smt.False
			}
			for k := 0; k < R; k++ {
				if cur[k].IsFalse() {
					continue
				}
				step := r.denRes(part, k)
				for j := 0; j < R; j++ {
					next[j] = smt.Or(next[j], smt.And(cur[k], step[j]))
				}
			}
			cur = next
		}
		out = cur
	case PAlt:
		for _, part := range x.Parts {
			d := r.denRes(part, i)
			for j := range out {
				out[j] = smt.Or(out[j], d[j])
			}
		}
	}
	return out
}

// item keys: "n:<j>" a node, "v:<text>" a literal / raw value
func nodeKey(j int) string        { return fmt.Sprintf("n:%d", j) }
func valueKey(v ast.Value) string { return "v:" + v.String() }

func (r *Ref) refIndex(j int) int { return j } // pool entries 0..N-1 are the references to the nodes

// DenNodes: the nodes reached from node i (guards per node index).
func (r *Ref) DenNodes(p Path, i int) []*smt.Term {
	g := r.G
	out := make([]*smt.Term, g.N)
	for j := range out {
		out[j] = smt.False
	}
	if r.Strict {
		res := r.denRes(p, i)
		for j := range out {
			out[j] = smt.And(res[j], g.Exists[j])
		}
		return out
	}
	switch x := p.(type) {
	case PProp:
		predIdx := x.Pred
		for j := 0; j < g.N; j++ {
			if x.Inverse {
				out[j] = smt.And(g.Exists[j], g.HasValue(j, predIdx, r.refIndex(i)))
			} else {
				out[j] = smt.And(g.Exists[j], g.HasValue(i, predIdx, r.refIndex(j)))
			}
		}
	case PType:
	case PSeq:
		cur := r.DenNodes(x.Parts[0], i)
		for _, part := range x.Parts[1:] {
			next := make([]*smt.Term, g.N)
			for j := range next {
				next[j] = smt.False
			}
			for k := 0; k < g.N; k++ {
				if cur[k].IsFalse() {
					continue
				}
				step := r.DenNodes(part, k)
				for j := 0; j < g.N; j++ {
					next[j] = smt.Or(next[j], smt.And(cur[k], step[j]))
				}
			}
			cur = next
		}
		out = cur
	case PAlt:
		for _, part := range x.Parts {
			d := r.DenNodes(part, i)
			for j := range out {
				out[j] = smt.Or(out[j], d[j])
			}
		}
	}
	return out
}

// Item is one value a constraint is applied to.
type Item struct {
	Key  string
	Node int       // >=0 for a node item
	V    ast.Value // for raw values
	G    *smt.Term
}

func mergeItems(items []Item) []Item {
	idx := map[string]int{}
	var out []Item
	for _, it := range items {
		if it.G.IsFalse() {
			continue
		}
		if k, ok := idx[it.Key]; ok {
			out[k].G = smt.Or(out[k].G, it.G)
			continue
		}
		idx[it.Key] = len(out)
		out = append(out, it)
	}
	return out
}

// DenValues: the values a constraint on path p is applied to at node i (a set). A node reached by
// an inverse last step and the reference to it reached by a forward last step are one value ("a
// value reachable by several routes is one value"): where the alternatives of a path end both ways,
// node items are written as references.
func (r *Ref) DenValues(p Path, i int) []Item {
	items := r.denValues(p, i)
	if fwd, inv := lastKinds(p); fwd && inv {
		for k, it := range items {
			if it.Node >= 0 {
				v := r.G.Pool[r.refIndex(it.Node)].V
				items[k] = Item{valueKey(v), -1, v, it.G}
			}
		}
		items = mergeItems(items)
	}
	return items
}

func (r *Ref) denValues(p Path, i int) []Item {
	g := r.G
	switch x := p.(type) {
	case PProp:
		var out []Item
		if x.Inverse {
			for j := 0; j < g.N; j++ {
				out = append(out, Item{nodeKey(j), j, nil, smt.And(g.Exists[j], g.HasValue(j, x.Pred, r.refIndex(i)))})
			}
		} else if i < g.N {
			for k, pv := range g.Pool {
				guard := g.HasValue(i, x.Pred, k)
				if r.Strict {
					guard = smt.And(g.Exists[i], guard)
				}
				out = append(out, Item{valueKey(pv.V), -1, pv.V, guard})
			}
		}
		return mergeItems(out)
	case PType:
		var out []Item
		if i >= g.N {
			return nil
		}
		for c, cls := range g.Classes {
			guard := g.HasClass[i][c]
			if r.Strict {
				guard = smt.And(g.Exists[i], guard)
			}
			out = append(out, Item{valueKey(ast.String(cls)), -1, ast.String(cls), guard})
		}
		return mergeItems(out)
	case PSeq:
		prefix := PSeq{x.Parts[:len(x.Parts)-1]}
		var mids []*smt.Term
		switch {
		case r.Strict && len(prefix.Parts) == 1:
			mids = r.denRes(prefix.Parts[0], i)
		case r.Strict:
			mids = r.denRes(prefix, i)
		case len(prefix.Parts) == 1:
			mids = r.DenNodes(prefix.Parts[0], i)
		default:
			mids = r.DenNodes(prefix, i)
		}
		var out []Item
		for k := 0; k < len(mids); k++ {
			if mids[k].IsFalse() {
				continue
			}
			for _, it := range r.DenValues(x.Parts[len(x.Parts)-1], k) {
				it.G = smt.And(mids[k], it.G)
				out = append(out, it)
			}
		}
		return mergeItems(out)
	case PAlt:
		var out []Item
		for _, part := range x.Parts {
			out = append(out, r.DenValues(part, i)...)
		}
		return mergeItems(out)
	}
	return nil
}

func countItems(items []Item) *smt.Term {
	t := countConst(0)
	for _, it := range items {
		t = smt.BvBin(smt.OpBvAdd, t, smt.Ite(it.G, countConst(1), countConst(0)))
	}
	return t
}

func isString(v ast.Value) bool  { _, ok := v.(ast.String); return ok }
func isNumber(v ast.Value) bool  { _, ok := v.(ast.Number); return ok }
func isBoolean(v ast.Value) bool { _, ok := v.(ast.Boolean); return ok }

func isIntegral(v ast.Value) bool {
	n, ok := v.(ast.Number)
	if !ok {
		return false
	}
	_, isInt := n.Int()
	return isInt
}

func numLess(a, b ast.Value) bool { return ast.Compare(a, b) < 0 }

// forAll builds (holds, specified) of "every value satisfies pred", where pred returns
// (satisfied, inDomain) for a concrete value; node items are outside every scalar domain.
func forAll(items []Item, pred func(v ast.Value) (bool, bool)) (*smt.Term, *smt.Term) {
	holds, spec := smt.True, smt.True
	for _, it := range items {
		if it.V == nil {
			spec = smt.And(spec, smt.Not(it.G))
			continue
		}
		sat, dom := pred(it.V)
		if !dom {
			spec = smt.And(spec, smt.Not(it.G))
			continue
		}
		if !sat {
			holds = smt.And(holds, smt.Not(it.G))
		}
	}
	return holds, spec
}

// Holds returns (formula holds at node i, the documentation specifies the outcome).
func (r *Ref) Holds(f Formula, i int) (*smt.Term, *smt.Term) {
	g := r.G
	switch x := f.(type) {
	case Atom:
		V := r.DenValues(x.Path, i)
		n := countConst(x.N)
		switch x.Kind {
		case "minCount":
			return smt.BvCmp(smt.OpBvSle, n, countItems(V)), smt.True
		case "maxCount":
			return smt.BvCmp(smt.OpBvSle, countItems(V), n), smt.True
		case "exactCount":
			return smt.Eq(countItems(V), n), smt.True
		case "minLength", "maxLength", "exactLength":
			return forAll(V, func(v ast.Value) (bool, bool) {
				s, ok := v.(ast.String)
				if !ok {
					return false, false
				}
				l := len([]rune(string(s)))
				switch x.Kind {
				case "minLength":
					return l >= x.N, true
				case "maxLength":
					return l <= x.N, true
				}
				return l == x.N, true
			})
		case "pattern":
			re := regexp.MustCompile(x.Pattern)
			return forAll(V, func(v ast.Value) (bool, bool) {
				s, ok := v.(ast.String)
				if !ok {
					return false, false
				}
				return re.MatchString(string(s)), true
			})
		case "minInclusive", "minExclusive", "maxInclusive", "maxExclusive":
			bound := ast.IntNumberTerm(x.N).Value
			if x.Bound != "" {
				bound = ast.Number(json.Number(x.Bound))
			}
			return forAll(V, func(v ast.Value) (bool, bool) {
				if !isNumber(v) {
					return false, false
				}
				c := ast.Compare(v, bound)
				switch x.Kind {
				case "minInclusive":
					return c >= 0, true
				case "minExclusive":
					return c > 0, true
				case "maxInclusive":
					return c <= 0, true
				}
				return c < 0, true
			})
		case "datatype":
			return forAll(V, func(v ast.Value) (bool, bool) {
				switch x.Type {
				case "string":
					if isNumber(v) || isBoolean(v) || isString(v) {
						return isString(v), true
					}
				case "boolean":
					if isNumber(v) || isBoolean(v) || isString(v) {
						return isBoolean(v), true
					}
				case "integer":
					if isString(v) || isBoolean(v) {
						return false, true
					}
					if isIntegral(v) {
						return true, true
					}
				case "float":
					if isString(v) || isBoolean(v) {
						return false, true
					}
					if isNumber(v) && !isIntegral(v) {
						return true, true
					}
				}
				return false, false // integer/float cross cases and objects: undocumented
			})
		case "in":
			return forAll(V, func(v ast.Value) (bool, bool) {
				if !(isString(v) || isNumber(v) || isBoolean(v)) {
					return false, false
				}
				for _, s := range x.Values {
					if ast.Compare(s, v) == 0 {
						return true, true
					}
				}
				return false, true
			})
		case "containsAll", "containsSome":
			nonEmpty := smt.BvCmp(smt.OpBvSlt, countConst(0), countItems(V))
			all, some := smt.True, smt.False
			for _, s := range x.Values {
				present := smt.False
				for _, it := range V {
					if it.V != nil && ast.Compare(it.V, s) == 0 {
						present = smt.Or(present, it.G)
					}
				}
				all = smt.And(all, present)
				some = smt.Or(some, present)
			}
			// values outside the scalar domain (references, nodes) make the comparison undocumented
			_, dom := forAll(V, func(v ast.Value) (bool, bool) { return true, isString(v) || isNumber(v) || isBoolean(v) })
			if x.Kind == "containsAll" {
				return all, smt.And(nonEmpty, dom)
			}
			return some, smt.And(nonEmpty, dom)
		case "lessThanProperty", "lessThanOrEqualsToProperty":
			W := r.DenValues(x.Other, i)
			holds := smt.True
			_, d1 := forAll(V, func(v ast.Value) (bool, bool) { return true, isNumber(v) })
			_, d2 := forAll(W, func(v ast.Value) (bool, bool) { return true, isNumber(v) })
			for _, a := range V {
				for _, b := range W {
					if a.V == nil || b.V == nil || !isNumber(a.V) || !isNumber(b.V) {
						continue
					}
					c := ast.Compare(a.V, b.V)
					ok := c < 0 || (c == 0 && x.Kind == "lessThanOrEqualsToProperty")
					if !ok {
						holds = smt.And(holds, smt.Not(smt.And(a.G, b.G)))
					}
				}
			}
			return holds, smt.And(d1, d2)
		case "equalsToProperty", "disjointWithProperty":
			W := r.DenValues(x.Other, i)
			one := smt.And(smt.Eq(countItems(V), countConst(1)), smt.Eq(countItems(W), countConst(1)))
			same := smt.False
			for _, a := range V {
				for _, b := range W {
					if a.Key == b.Key {
						same = smt.Or(same, smt.And(a.G, b.G))
					}
				}
			}
			_, d1 := forAll(V, func(v ast.Value) (bool, bool) { return true, isString(v) || isNumber(v) || isBoolean(v) })
			_, d2 := forAll(W, func(v ast.Value) (bool, bool) { return true, isString(v) || isNumber(v) || isBoolean(v) })
			if x.Kind == "equalsToProperty" {
				return same, smt.And(one, d1, d2)
			}
			return smt.Not(same), smt.And(one, d1, d2)
		}
		panic("unknown atom kind " + x.Kind)
	case Not:
		h, s := r.Holds(x.F, i)
		return smt.Not(h), s
	case Rego:
		return smt.True, smt.False // embedded code: the documentation does not determine its outcome
	case PC:
		return r.Holds(And{x.Fs}, i)
	case And:
		h, s := smt.True, smt.True
		for _, k := range x.Fs {
			hk, sk := r.Holds(k, i)
			h, s = smt.And(h, hk), smt.And(s, sk)
		}
		return h, s
	case Or:
		h, s := smt.False, smt.True
		for _, k := range x.Fs {
			hk, sk := r.Holds(k, i)
			h, s = smt.Or(h, hk), smt.And(s, sk)
		}
		return h, s
	case If:
		hc, sc := r.Holds(x.C, i)
		ht, st := r.Holds(x.T, i)
		h := smt.Or(smt.Not(hc), ht)
		s := smt.And(sc, st)
		if x.E != nil {
			he, se := r.Holds(x.E, i)
			h = smt.And(h, smt.Or(hc, he))
			s = smt.And(s, se)
		}
		return h, s
	case Nested:
		nodes := r.DenNodes(x.Path, i)
		h, s := smt.True, smt.True
		for j := 0; j < g.N; j++ {
			if nodes[j].IsFalse() {
				continue
			}
			hj, sj := r.Holds(x.F, j)
			h = smt.And(h, smt.Implies(nodes[j], hj))
			s = smt.And(s, smt.Implies(nodes[j], sj))
		}
		return h, s
	case Quant:
		nodes := r.DenNodes(x.Path, i)
		cnt := countConst(0)
		s := smt.True
		for j := 0; j < g.N; j++ {
			if nodes[j].IsFalse() {
				continue
			}
			hj, sj := r.Holds(x.F, j)
			cnt = smt.BvBin(smt.OpBvAdd, cnt, smt.Ite(smt.And(nodes[j], hj), countConst(1), countConst(0)))
			s = smt.And(s, smt.Implies(nodes[j], sj))
		}
		if x.Least {
			return smt.BvCmp(smt.OpBvSle, countConst(x.N), cnt), s
		}
		return smt.BvCmp(smt.OpBvSle, cnt, countConst(x.N)), s
	}
	panic(fmt.Sprintf("Holds: %T", f))
}

// Target: node i exists and is an instance of class c.
func (r *Ref) Target(i, c int) *smt.Term { return smt.And(r.G.Exists[i], r.G.HasClass[i][c]) }

// yamlName writes a profile name as a YAML scalar: plain when it is a simple word, double-quoted
// (backslash and double quote escaped) otherwise.
func yamlName(n string) string {
	simple := n != ""
	for _, r := range n {
		if !(r >= 'a' && r <= 'z' || r >= 'A' && r <= 'Z' || r >= '0' && r <= '9' || r == '_' || r == '-') {
			simple = false
		}
	}
	// plain scalars that YAML would read as something else than this string are quoted too
	if simple && !(n[0] >= 'a' && n[0] <= 'z' || n[0] >= 'A' && n[0] <= 'Z') {
		simple = false
	}
	switch strings.ToLower(n) {
	case "true", "false", "null", "yes", "no", "on", "off", "y", "n":
		simple = false
	}
	if simple {
		return n
	}
	return "\"" + strings.NewReplacer("\\", "\\\\", "\"", "\\\"").Replace(n) + "\""
}

// yamlPlain writes a text without quotes when it can stand as a plain scalar - also when YAML then
// resolves it to a number, a boolean or a date (404, true, 2024-01-01): for a name or a message it is
// still the text that was written.
func yamlPlain(n string) string {
	ok := n != "" && n != "~" && strings.ToLower(n) != "null"
	for i, r := range n {
		if !(r >= 'a' && r <= 'z' || r >= 'A' && r <= 'Z' || r >= '0' && r <= '9' || r == '_' || r == '-' || r == '.' || r == '+' || (r == ' ' && i > 0 && i < len(n)-1)) {
			ok = false
		}
	}
	if ok && (n[0] == '-' && len(n) == 1) {
		ok = false
	}
	if ok {
		return n
	}
	return yamlName(n)
}

// LevelsOf lists the levels a validation is listed under ("" = defined but not listed).
func LevelsOf(v Validation) []string {
	if v.Level == "" {
		return []string{""}
	}
	return strings.Split(v.Level, "+")
}

func listedUnder(v Validation, level string) bool {
	for _, l := range LevelsOf(v) {
		if l == level {
			return true
		}
	}
	return false
}
