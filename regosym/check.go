package regosym

import (
	"context"
	"encoding/json"
	"fmt"
	"sort"
	"strings"
	"time"

	"github.com/open-policy-agent/opa/ast"
	"github.com/open-policy-agent/opa/rego"

	"verif/smt"
)

// Outcome of checking one program.
type Outcome struct {
	Program   string
	Profile   string
	Status    string // held | violation | model-mismatch | unsupported | compile-error | generate-error | solver-unknown
	Label     string // obligation that failed
	Detail    string
	Data      string         // counterexample document (JSON-LD)
	Model     map[string]any // decoded graph
	Expected  []string       // reference verdict on the counterexample
	Predicted []string       // regosym's prediction
	Actual    []string       // what the real implementation reported
	Queries   int
	Excluded  int // (validation,node) pairs whose reference value is never specified
	Compared  int
	Steps     int
	Rules     []string
	Builtins  []string
	Wall      time.Duration
	Signature string // shape class for known-findings
	KnownHits []KnownHit
	Replay    map[string]any // extra data a replay needs
	Names     []string
}

// KnownHit is a counterexample whose shape class is listed in known_findings.json.
type KnownHit struct {
	Signature string
	Data      string
	Detail    string
	Confirmed bool
}

// ClassSpec describes the shape classes of a program's counterexamples: programs with exactly
// one per-value atom are classified by that atom's kind, the polarity under which the
// generator emits it, and the number of values (0, 1, 2+) at the failing node.
type ClassSpec struct {
	Kind     string
	Path     Path
	Other    Path // second path of a property comparison: classes count value PAIRS
	Polarity string
	Via      Path // the atom sits under nested/atLeast/atMost over this path: classes look at the reached nodes
}

var perValueKinds = map[string]bool{"minLength": true, "maxLength": true, "exactLength": true, "pattern": true, "in": true,
	"minInclusive": true, "minExclusive": true, "maxInclusive": true, "maxExclusive": true, "datatype": true,
	"lessThanProperty": true, "lessThanOrEqualsToProperty": true, "equalsToProperty": true, "disjointWithProperty": true}

func hasNonInteger(vs []ast.Value) bool {
	for _, v := range vs {
		if isNumber(v) && !isIntegral(v) {
			return true
		}
	}
	return false
}

// ClassOf returns the class spec of a program, or nil when it has none.
func ClassOf(p Program) *ClassSpec {
	if len(p.Validations) != 1 {
		return nil
	}
	var found []ClassSpec
	var walk func(f Formula, neg bool, via []Path)
	walk = func(f Formula, neg bool, via []Path) {
		switch x := f.(type) {
		case Atom:
			if perValueKinds[x.Kind] {
				pol := "pos"
				if neg {
					pol = "neg"
				}
				kind := x.Kind
				if kind == "in" && (x.FloatData || hasNonInteger(x.Values)) {
					// membership among numbers that are not integers is a class of its own: the
					// generated comparison goes through a textual form of the numbers
					kind = "in-non-integer"
				}
				switch len(via) {
				case 0:
					found = append(found, ClassSpec{kind, x.Path, x.Other, pol, nil})
				case 1:
					found = append(found, ClassSpec{kind, x.Path, x.Other, pol, via[0]})
				default:
					found = append(found, ClassSpec{"deeply-quantified", nil, nil, "", nil})
				}
			}
		case Not:
			walk(x.F, !neg, via)
		case And:
			for _, k := range x.Fs {
				walk(k, neg, via)
			}
		case PC:
			for _, k := range x.Fs {
				walk(k, neg, via)
			}
		case Or:
			for _, k := range x.Fs {
				walk(k, neg, via)
			}
		case If:
			walk(x.C, !neg, via)
			walk(x.T, neg, via)
			if x.E != nil {
				walk(x.E, neg, via)
			}
		case Nested:
			// the generator emits the inner formula as written (the quantifier itself carries the outer negation)
			walk(x.F, false, append(append([]Path{}, via...), x.Path))
		case Quant:
			walk(x.F, false, append(append([]Path{}, via...), x.Path))
		}
	}
	walk(p.Validations[0].F, false, nil)
	if len(found) == 0 || found[0].Path == nil {
		return nil
	}
	// several occurrences of one and the same atom (e.g. `if c then A else not A`) share a class
	spec := found[0]
	for _, f := range found[1:] {
		// different per-value kinds over one and the same property (a length or value range) share the
		// value-count classes of that property; the class is named after the first of them
		sameKind := f.Kind == spec.Kind || (f.Other == nil && spec.Other == nil)
		if f.Path == nil || !sameKind || (f.Via == nil) != (spec.Via == nil) || PathString(f.Path) != PathString(spec.Path) || (f.Other == nil) != (spec.Other == nil) || (f.Other != nil && PathString(f.Other) != PathString(spec.Other)) {
			return nil
		}
		if f.Via != nil && PathString(f.Via) != PathString(spec.Via) {
			return nil
		}
		if f.Polarity == "neg" {
			spec.Polarity = "neg"
		}
	}
	return &spec
}

var vClasses = []string{"0", "1", "2+"}

func (cs *ClassSpec) signature(vclass string) string {
	if cs.Via != nil {
		return fmt.Sprintf("quantified:%s:%s:|V|=%s", cs.Kind, cs.Polarity, vclass)
	}
	return fmt.Sprintf("%s:%s:|V|=%s", cs.Kind, cs.Polarity, vclass)
}

// classTerms: for node i, the guard of each value-count class.
func (cs *ClassSpec) classTerms(r *Ref, i int) map[string]*smt.Term {
	if cs.Via != nil {
		// some reached node has no value / two or more values; otherwise every reached node has exactly one
		inner := *cs
		inner.Via = nil
		zero, many := smt.False, smt.False
		for j, reach := range r.DenNodes(cs.Via, i) {
			if reach.IsFalse() {
				continue
			}
			ct := inner.classTerms(r, j)
			zero = smt.Or(zero, smt.And(reach, ct["0"]))
			many = smt.Or(many, smt.And(reach, ct["2+"]))
		}
		return map[string]*smt.Term{"0": zero, "2+": smt.And(many, smt.Not(zero)), "1": smt.And(smt.Not(zero), smt.Not(many))}
	}
	n := countItems(r.DenValues(cs.Path, i))
	if cs.Other != nil {
		m := countItems(r.DenValues(cs.Other, i))
		zero := smt.Or(smt.Eq(n, countConst(0)), smt.Eq(m, countConst(0)))
		one := smt.And(smt.Eq(n, countConst(1)), smt.Eq(m, countConst(1)))
		return map[string]*smt.Term{"0": zero, "1": one, "2+": smt.And(smt.Not(zero), smt.Not(one))}
	}
	return map[string]*smt.Term{
		"0":  smt.Eq(n, countConst(0)),
		"1":  smt.Eq(n, countConst(1)),
		"2+": smt.BvCmp(smt.OpBvSle, countConst(2), n),
	}
}

// Reported collects, per (level, validation, node index), the guard under which the
// module reports it, plus anything reported that has no such key.
type Reported struct {
	ByKey  map[string]*smt.Term
	Stray  *smt.Term
	Shapes map[string][]Alt // level -> result objects (for shape checks)
}

func rkey(level, name string, node int) string { return fmt.Sprintf("%s|%s|%d", level, name, node) }

func fieldOf(v Val, key string) (Val, bool) {
	switch x := v.(type) {
	case ast.Object:
		if t := x.Get(ast.StringTerm(key)); t != nil {
			return t.Value, true
		}
	case *SObj:
		if a := x.Fields[key]; len(a) == 1 && a[0].G.IsTrue() {
			return a[0].V, true
		}
	}
	return nil, false
}

// EvalReport evaluates the three level rules of the module on the graph.
func EvalReport(ev *Evaluator, g *Graph) *Reported {
	rep := &Reported{ByKey: map[string]*smt.Term{}, Stray: smt.False, Shapes: map[string][]Alt{}}
	idIndex := map[string]int{}
	for i, id := range g.IDs {
		idIndex[id] = i
	}
	for _, level := range []string{"violation", "warning", "info"} {
		for _, a := range ev.ruleValue(level) {
			var elems []Alt
			if el, ok := elemsOfSet(a.V); ok {
				elems = el
			} else if el, ok := elemsOfArray(a.V); ok {
				elems = el
			} else {
				rep.Stray = smt.Or(rep.Stray, a.G)
				continue
			}
			for _, e := range elems {
				guard := smt.And(a.G, e.G)
				rep.Shapes[level] = append(rep.Shapes[level], Alt{guard, e.V})
				name, ok1 := fieldOf(e.V, "sourceShapeName")
				focus, ok2 := fieldOf(e.V, "focusNode")
				ns, ok3 := name.(ast.String)
				fs, ok4 := focus.(ast.String)
				idx, ok5 := idIndex[string(fs)]
				if !(ok1 && ok2 && ok3 && ok4 && ok5) {
					rep.Stray = smt.Or(rep.Stray, guard)
					continue
				}
				k := rkey(level, string(ns), idx)
				if old, ok := rep.ByKey[k]; ok {
					rep.ByKey[k] = smt.Or(old, guard)
				} else {
					rep.ByKey[k] = guard
				}
			}
		}
	}
	return rep
}

// Checker holds the per-worker state.
type Checker struct {
	Drv    *Driver
	Solver *smt.Solver
	// LastDeviation: set by Differential when the real pipeline (not the model) departs from the reference
	LastDeviation *Outcome
	// KnownPath: the class KnownPathClass is listed in the known-findings file
	KnownPath bool
}

// KnownPathClass: the value set of a path misses what is reached through a mid-path resource that has
// no node object of its own (an id that is only ever referred to).
const KnownPathClass = "mid-path-resource-without-node-object"

func (c *Checker) solve(side []*smt.Term, goal *smt.Term, vars []*smt.Term) (smt.Result, map[string]uint64) {
	c.Solver.Reset()
	c.Solver.Push()
	for _, s := range side {
		c.Solver.Assert(s)
	}
	c.Solver.Assert(goal)
	r := c.Solver.Check()
	var m map[string]uint64
	if r == smt.Sat {
		m, _ = c.Solver.Model(vars)
	}
	c.Solver.Pop()
	return r, m
}

func evalBool(t *smt.Term, m map[string]uint64) bool {
	return smt.Eval(t, m, map[*smt.Term]uint64{}) != 0
}

// realResults extracts (level|validation|node index) from a real report.
func realResults(report string, g *Graph) ([]string, bool, error) {
	var doc []map[string]any
	if err := json.Unmarshal([]byte(report), &doc); err != nil || len(doc) == 0 {
		return nil, false, fmt.Errorf("report is not a JSON dialect instance: %v", err)
	}
	enc, _ := doc[0]["doc:encodes"].([]any)
	if len(enc) != 1 {
		return nil, false, fmt.Errorf("report does not encode exactly one node")
	}
	rn := enc[0].(map[string]any)
	conforms, _ := rn["conforms"].(bool)
	idIndex := map[string]int{}
	if g != nil {
		for i, id := range g.IDs {
			idIndex[id] = i
		}
	} else {
		for i := 0; i < 16; i++ {
			idIndex[fmt.Sprintf("http://x.org/n%d", i+1)] = i
		}
	}
	var out []string
	results, _ := rn["result"].([]any)
	for _, r := range results {
		m := r.(map[string]any)
		sev, _ := m["resultSeverity"].(string)
		level := strings.ToLower(strings.TrimPrefix(sev, "http://www.w3.org/ns/shacl#"))
		name, _ := m["sourceShapeName"].(string)
		focus, _ := m["focusNode"].(string)
		idx, ok := idIndex[focus]
		if !ok {
			idx = -1
		}
		out = append(out, rkey(level, name, idx))
	}
	sort.Strings(out)
	return dedupe(out), conforms, nil
}

func dedupe(xs []string) []string {
	var out []string
	for i, x := range xs {
		if i == 0 || xs[i-1] != x {
			out = append(out, x)
		}
	}
	return out
}

// CheckVerdicts decides, for one program, "reported <=> target and not formula" over all
// graphs of the scope, against the module text the real generator produced.
func (c *Checker) CheckVerdicts(p Program, sc Scope, code string, known map[string]bool) (out Outcome) {
	t0 := time.Now()
	out = Outcome{Program: DescribeProgram(p), Profile: p.ProfileYAML(), Status: "held"}
	defer func() {
		out.Wall = time.Since(t0)
		if r := recover(); r != nil {
			if u, ok := r.(Unsupported); ok {
				out.Status, out.Detail = "unsupported", u.Msg
				return
			}
			panic(r)
		}
	}()
	_, mod, err := CompileModule(code)
	if err != nil {
		out.Status, out.Label, out.Detail = "compile-error", "C07.module-compiles", err.Error()
		return
	}
	g := NewGraph(sc, "g")
	ev := NewEvaluator(mod, g.Input)
	rep := EvalReport(ev, g)
	out.Steps = ev.Steps
	for r := range ev.RulesSeen {
		out.Rules = append(out.Rules, r)
	}
	for b := range ev.Builtins {
		out.Builtins = append(out.Builtins, b)
	}
	sort.Strings(out.Rules)
	sort.Strings(out.Builtins)
	ref := &Ref{G: g}
	type ob struct {
		v        Validation
		node     int
		reported *smt.Term
		expected *smt.Term
		spec     *smt.Term
		classes  map[string]*smt.Term
	}
	var obs []ob
	used := map[string]bool{}
	cs := ClassOf(p)
	var perLevel []Validation // a validation listed under several levels is one observation per level
	for _, v := range p.Validations {
		for _, l := range LevelsOf(v) {
			vl := v
			vl.Level = l
			perLevel = append(perLevel, vl)
		}
	}
	for _, v := range perLevel {
		if v.Level == "" {
			continue // defined but not listed under any level: must never be reported
		}
		for i := 0; i < g.N; i++ {
			k := rkey(v.Level, v.Name, i)
			used[k] = true
			reported, ok := rep.ByKey[k]
			if !ok {
				reported = smt.False
			}
			holds, spec := ref.Holds(v.F, i)
			expected := smt.And(ref.Target(i, v.Class), smt.Not(holds))
			o := ob{v, i, reported, expected, spec, nil}
			if cs != nil {
				o.classes = cs.classTerms(ref, i)
			}
			obs = append(obs, o)
			if spec.IsFalse() {
				out.Excluded++
			} else {
				out.Compared++
			}
		}
	}
	stray := rep.Stray
	for k, t := range rep.ByKey {
		if !used[k] {
			stray = smt.Or(stray, t) // a result for a validation/level/node the profile does not define
		}
	}
	excluded := map[string]bool{} // shape classes already accounted for as known findings
	for round := 0; round < 8; round++ {
		goal := stray
		for _, o := range obs {
			d := smt.And(o.spec, smt.Not(smt.Eq(o.reported, o.expected)))
			for cl := range excluded {
				d = smt.And(d, smt.Not(o.classes[cl]))
			}
			goal = smt.Or(goal, d)
		}
		out.Queries++
		res, m := c.solve(g.Side, goal, g.Vars)
		if res == smt.Unsat {
			return
		}
		if res == smt.Unknown {
			out.Status, out.Detail = "solver-unknown", "verdict query undecided"
			return
		}
		// counterexample: decode, predict, compute the reference verdict, replay natively
		data, desc := g.Concrete(m)
		var expected, predicted []string
		specified := map[string]bool{} // observations whose outcome the documentation determines on this graph
		defined := map[string]bool{}
		sig, vclass := "", ""
		for _, o := range obs {
			defined[rkey(o.v.Level, o.v.Name, o.node)] = true
			if evalBool(o.spec, m) {
				specified[rkey(o.v.Level, o.v.Name, o.node)] = true
			}
			if evalBool(o.expected, m) {
				expected = append(expected, rkey(o.v.Level, o.v.Name, o.node))
			}
			if evalBool(o.reported, m) {
				predicted = append(predicted, rkey(o.v.Level, o.v.Name, o.node))
			}
			if sig == "" && cs != nil && evalBool(o.spec, m) && evalBool(o.reported, m) != evalBool(o.expected, m) {
				for _, cl := range vClasses {
					if evalBool(o.classes[cl], m) && !excluded[cl] {
						sig, vclass = cs.signature(cl), cl
					}
				}
			}
		}
		sort.Strings(expected)
		sort.Strings(predicted)
		status, detail, actual := c.confirmVerdict(out.Profile, data, g, expected, predicted, specified, defined)
		if status == "violation" && sig != "" && known[sig] {
			out.KnownHits = append(out.KnownHits, KnownHit{sig, data, detail, true})
			excluded[vclass] = true
			continue
		}
		out.Data, out.Model, out.Expected, out.Predicted, out.Actual = data, desc, expected, predicted, actual
		out.Status, out.Detail, out.Signature = status, detail, sig
		if status == "violation" {
			out.Label = "C01.verdict-eq-reference"
		}
		return
	}
	return
}

// confirmVerdict replays a counterexample document through the real entry point.
// Only observations the documentation determines on this graph count (specified; nil = all): a
// difference on an unspecified one is not a violation, whatever the model predicted.
func (c *Checker) confirmVerdict(profile, data string, g *Graph, expected, predicted []string, specified, defined map[string]bool) (string, string, []string) {
	outs, err := c.Drv.Validate([]ValIn{{Profile: profile, Data: data}})
	if err != nil || outs[0].Error != "" {
		return "model-mismatch", fmt.Sprintf("native replay failed: %v %s", err, outs[0].Error), nil
	}
	actual, _, perr := realResults(outs[0].Report, g)
	if perr != nil {
		return "model-mismatch", perr.Error(), nil
	}
	restrict := func(xs []string) []string {
		if specified == nil {
			return xs
		}
		var out []string
		for _, x := range xs {
			// results that are no observation of the program at all (stray) always count
			if specified[x] || !defined[x] {
				out = append(out, x)
			}
		}
		return out
	}
	if strings.Join(restrict(actual), ",") == strings.Join(restrict(expected), ",") {
		// the real implementation agrees with the reference on this graph: my Rego model is wrong
		return "model-mismatch", "real implementation agrees with the reference on the solver's graph (on the observations the documentation determines); regosym predicted " + strings.Join(predicted, ","), actual
	}
	return "violation", fmt.Sprintf("reference expects [%s], implementation reports [%s]", strings.Join(expected, " "), strings.Join(actual, " ")), actual
}

func DescribeProgram(p Program) string {
	var parts []string
	for _, v := range p.Validations {
		parts = append(parts, fmt.Sprintf("%s[%s,C%d]=%s", v.Name, v.Level, v.Class, Describe(v.F)))
	}
	return strings.Join(parts, "; ")
}

// ---- C02: the generated path rule against the path's denotation ------------------------

func ruleSuffix(name string) int {
	n := 0
	i := strings.LastIndex(name, "_")
	fmt.Sscan(name[i+1:], &n)
	return n
}

// CheckPath compares the value set of the generated path rule (for every source node) with
// the reference denotation. mode: "set" (constraint values), "nodes" (nested), "array" (uniqueValues).
func (c *Checker) CheckPath(path Path, mode string, sc Scope, code string, profileText string) (out Outcome) {
	t0 := time.Now()
	out = Outcome{Program: mode + ":" + PathString(path), Profile: profileText, Status: "held"}
	defer func() {
		out.Wall = time.Since(t0)
		if r := recover(); r != nil {
			if u, ok := r.(Unsupported); ok {
				out.Status, out.Detail = "unsupported", u.Msg
				return
			}
			panic(r)
		}
	}()
	_, mod, err := CompileModule(code)
	if err != nil {
		out.Status, out.Label, out.Detail = "compile-error", "C07.module-compiles", err.Error()
		return
	}
	g := NewGraph(sc, "g")
	ev := NewEvaluator(mod, g.Input)
	prefix := "gen_path_set_rule_"
	if mode == "array" {
		prefix = "gen_path_array_rule_"
	}
	rule, best := "", 1<<30
	for name := range ev.rules {
		if strings.HasPrefix(name, prefix) && ruleSuffix(name) < best {
			rule, best = name, ruleSuffix(name)
		}
	}
	if rule == "" {
		out.Status, out.Detail = "unsupported", "no generated path rule found"
		return
	}
	// two references: the statement's (a path composes through every resource that is referred to) and
	// the one that stops at resources without a node object of their own. A deviation from the first
	// that is no deviation from the second belongs to one class (KnownPathClass); every other one is
	// judged against the second as before.
	refStrict, ref := &Ref{G: g, Strict: true}, &Ref{G: g}
	goal, goalStrict := smt.False, smt.False
	type cmp struct {
		node             int
		key              string
		impl, ref, loose *smt.Term // ref: the statement's denotation
	}
	var cmps []cmp
	for i := 0; i < g.N; i++ {
		ev.overrides = append(ev.overrides, override{"sourceNode", g.Node(i)})
		alts := ev.ruleValue(rule)
		ev.overrides = ev.overrides[:len(ev.overrides)-1]
		impl := map[string]*smt.Term{}
		for _, a := range alts {
			var elems []Alt
			if el, ok := elemsOfSet(a.V); ok {
				elems = el
			} else if el, ok := elemsOfArray(a.V); ok {
				elems = el
			}
			for _, e := range elems {
				var key string
				if j := g.NodeIndex(e.V); j >= 0 {
					key = nodeKey(j)
				} else if cv, ok := e.V.(ast.Value); ok {
					key = valueKey(cv)
				} else {
					key = "other:" + keyOf(e.V)
				}
				gd := smt.And(a.G, e.G)
				if old, ok := impl[key]; ok {
					impl[key] = smt.Or(old, gd)
				} else {
					impl[key] = gd
				}
			}
		}
		wants := [2]map[string]*smt.Term{{}, {}}
		for pass, rf := range []*Ref{ref, refStrict} {
			if mode == "nodes" {
				for j, t := range rf.DenNodes(path, i) {
					wants[pass][nodeKey(j)] = t
				}
			} else {
				for _, it := range rf.DenValues(path, i) {
					wants[pass][it.Key] = it.G
				}
			}
		}
		keys := map[string]bool{}
		for k := range impl {
			keys[k] = true
		}
		for _, w := range wants {
			for k := range w {
				keys[k] = true
			}
		}
		for k := range keys {
			a, loose, strict := impl[k], wants[0][k], wants[1][k]
			if a == nil {
				a = smt.False
			}
			if loose == nil {
				loose = smt.False
			}
			if strict == nil {
				strict = smt.False
			}
			cmps = append(cmps, cmp{i, k, a, strict, loose})
			offStrict := smt.And(g.Exists[i], smt.Not(smt.Eq(a, strict)))
			// a deviation from the statement's denotation that the other reference does not explain ...
			goal = smt.Or(goal, smt.And(offStrict, smt.Not(smt.Eq(a, loose))))
			// ... and one that it does explain (the known class)
			goalStrict = smt.Or(goalStrict, smt.And(offStrict, smt.Eq(a, loose)))
		}
	}
	out.Steps = ev.Steps
	out.Compared = len(cmps)
	out.Queries++
	res, m := c.solve(g.Side, goal, g.Vars)
	switch res {
	case smt.Unsat:
		// no deviation from the second reference: is there one from the statement's?
		out.Queries++
		resS, mS := c.solve(g.Side, goalStrict, g.Vars)
		if resS == smt.Unknown {
			out.Status, out.Detail = "solver-unknown", "path query (strict composition) undecided"
			return
		}
		if resS == smt.Unsat {
			return
		}
		// a deviation of the known class: confirm it with the real engine on the really normalised document
		data, desc := g.Concrete(mS)
		hit := KnownHit{Signature: KnownPathClass, Data: data, Detail: fmt.Sprint(desc)}
		if norm, err := c.Drv.Normalize([]string{data}); err == nil && norm[0].Error == "" {
			for _, x := range cmps {
				if !(evalBool(g.Exists[x.node], mS) && evalBool(x.impl, mS) != evalBool(x.ref, mS) && evalBool(x.impl, mS) == evalBool(x.loose, mS)) {
					continue
				}
				keys, err := EvalPathNative(code, mod.Package.Path.String(), rule, norm[0].Report, g.IDs[x.node], g)
				if err != nil {
					break
				}
				has := false
				for _, k := range keys {
					if k == x.key {
						has = true
					}
				}
				hit.Confirmed = has != evalBool(x.ref, mS)
				hit.Detail += fmt.Sprintf(" | from n%d: %s expected=%v, real OPA yields %v", x.node+1, x.key, evalBool(x.ref, mS), keys)
				break
			}
		}
		if !c.KnownPath || !hit.Confirmed {
			// not listed (or not reproduced by the real engine): reported like any other deviation
			out.Data, out.Model = hit.Data, desc
			out.Label = "C02.set-eq-denotation"
			out.Signature = KnownPathClass
			out.Detail = hit.Detail
			out.Status = "violation"
			if !hit.Confirmed {
				out.Status = "model-mismatch"
			}
			return
		}
		out.KnownHits = append(out.KnownHits, hit)
		return
	case smt.Unknown:
		out.Status, out.Detail = "solver-unknown", "path query undecided"
		return
	}
	data, desc := g.Concrete(m)
	out.Data, out.Model = data, desc
	var diffs []string
	for _, x := range cmps {
		if evalBool(g.Exists[x.node], m) && evalBool(x.impl, m) != evalBool(x.ref, m) && evalBool(x.impl, m) != evalBool(x.loose, m) {
			diffs = append(diffs, fmt.Sprintf("from n%d: %s impl=%v ref=%v", x.node+1, x.key, evalBool(x.impl, m), evalBool(x.ref, m)))
		}
	}
	sort.Strings(diffs)
	out.Label = "C02.set-eq-denotation"
	out.Detail = strings.Join(diffs, "; ")
	// confirm with the real OPA on the really normalised document
	out.Status = "model-mismatch"
	norm, err := c.Drv.Normalize([]string{data})
	if err != nil || norm[0].Error != "" {
		out.Detail += fmt.Sprintf(" | native normalisation failed: %v %s", err, norm[0].Error)
		return
	}
	for _, x := range cmps {
		if !(evalBool(g.Exists[x.node], m) && evalBool(x.impl, m) != evalBool(x.ref, m) && evalBool(x.impl, m) != evalBool(x.loose, m)) {
			continue
		}
		keys, err := EvalPathNative(code, mod.Package.Path.String(), rule, norm[0].Report, g.IDs[x.node], g)
		if err != nil {
			out.Detail += " | native evaluation failed: " + err.Error()
			return
		}
		has := false
		for _, k := range keys {
			if k == x.key {
				has = true
			}
		}
		out.Actual = keys
		if has != evalBool(x.ref, m) {
			out.Status = "violation"
			out.Detail += fmt.Sprintf(" | real OPA from n%d yields %v", x.node+1, keys)
		} else {
			out.Detail += fmt.Sprintf(" | real OPA agrees with the reference from n%d: %v", x.node+1, keys)
		}
		return
	}
	return
}

// EvalPathNative evaluates a generated path rule with the linked OPA on a concrete
// normalised input and returns the item keys of its members.
func EvalPathNative(code, pkg, rule, normalized, sourceID string, g *Graph) ([]string, error) {
	var input any
	if err := json.Unmarshal([]byte(normalized), &input); err != nil {
		return nil, err
	}
	q := fmt.Sprintf("x := %s.%s with data.sourceNode as input[\"@ids\"][%q]", pkg, rule, sourceID)
	rs, err := rego.New(rego.Query(q), rego.Module("m.rego", code), rego.Input(input)).Eval(context.Background())
	if err != nil {
		return nil, err
	}
	idIndex := map[string]int{}
	for i, id := range g.IDs {
		idIndex[id] = i
	}
	var keys []string
	if len(rs) == 0 {
		return keys, nil
	}
	elems, _ := rs[0].Bindings["x"].([]any)
	for _, e := range elems {
		if m, ok := e.(map[string]any); ok && len(m) > 1 {
			if id, ok := m["@id"].(string); ok {
				if j, ok := idIndex[id]; ok {
					keys = append(keys, nodeKey(j))
					continue
				}
			}
		}
		v, err := ast.InterfaceToValue(e)
		if err != nil {
			return nil, err
		}
		keys = append(keys, valueKey(v))
	}
	sort.Strings(keys)
	return dedupe(keys), nil
}

// RealResults parses a real report into level|validation|node keys (node ids http://x.org/n<k>).
func RealResults(report string) ([]string, bool, error) { return realResults(report, nil) }

// RealResultsWithMessages: severity|validation|focus|message of every result of a real report.
func RealResultsWithMessages(report string) ([]string, bool, error) {
	var doc []map[string]any
	if err := json.Unmarshal([]byte(report), &doc); err != nil || len(doc) == 0 {
		return nil, false, fmt.Errorf("report is not a JSON dialect instance: %v", err)
	}
	enc, _ := doc[0]["doc:encodes"].([]any)
	if len(enc) != 1 {
		return nil, false, fmt.Errorf("report does not encode exactly one node")
	}
	rn := enc[0].(map[string]any)
	conforms, _ := rn["conforms"].(bool)
	var out []string
	results, _ := rn["result"].([]any)
	for _, r := range results {
		m := r.(map[string]any)
		out = append(out, fmt.Sprintf("%v|%v|%v|%v", m["resultSeverity"], m["sourceShapeName"], m["focusNode"], m["resultMessage"]))
	}
	sort.Strings(out)
	return append([]string{fmt.Sprintf("conforms=%v", conforms)}, dedupe(out)...), conforms, nil
}

// EvalConcrete runs the module on a concrete normalised input (plain Rego interpretation) and
// returns sorted "level|validation|focusNode" triples.
func EvalConcrete(code, normalized string) (out []string, err error) {
	defer func() {
		if r := recover(); r != nil {
			if u, ok := r.(Unsupported); ok {
				err = fmt.Errorf("unsupported: %s", u.Msg)
				return
			}
			panic(r)
		}
	}()
	_, mod, cerr := CompileModule(code)
	if cerr != nil {
		return nil, cerr
	}
	var in any
	dec := json.NewDecoder(strings.NewReader(normalized))
	dec.UseNumber()
	if derr := dec.Decode(&in); derr != nil {
		return nil, derr
	}
	v, verr := ast.InterfaceToValue(in)
	if verr != nil {
		return nil, verr
	}
	ev := NewEvaluator(mod, v)
	for _, level := range []string{"violation", "warning", "info"} {
		for _, a := range ev.ruleValue(level) {
			if !a.G.IsTrue() {
				return nil, fmt.Errorf("guarded value in concrete mode")
			}
			var elems []Alt
			if el, ok := elemsOfSet(a.V); ok {
				elems = el
			} else if el, ok := elemsOfArray(a.V); ok {
				elems = el
			}
			for _, e := range elems {
				if !e.G.IsTrue() {
					return nil, fmt.Errorf("guarded member in concrete mode")
				}
				name, _ := getField(e.V, "sourceShapeName")
				focus, _ := getField(e.V, "focusNode")
				out = append(out, fmt.Sprintf("%s|%s|%s", level, strings.Trim(describe(name), "\""), strings.Trim(describe(focus), "\"")))
			}
		}
	}
	sort.Strings(out)
	return dedupe(out), nil
}

// RealTriples extracts "level|validation|focusNode" triples from a real report.
func RealTriples(report string) ([]string, bool, error) {
	var doc []map[string]any
	if err := json.Unmarshal([]byte(report), &doc); err != nil || len(doc) == 0 {
		return nil, false, fmt.Errorf("report is not a JSON dialect instance: %v", err)
	}
	enc, _ := doc[0]["doc:encodes"].([]any)
	if len(enc) != 1 {
		return nil, false, fmt.Errorf("report does not encode exactly one node")
	}
	rn := enc[0].(map[string]any)
	conforms, _ := rn["conforms"].(bool)
	var out []string
	results, _ := rn["result"].([]any)
	for _, r := range results {
		m := r.(map[string]any)
		sev, _ := m["resultSeverity"].(string)
		out = append(out, fmt.Sprintf("%s|%v|%v", strings.ToLower(strings.TrimPrefix(sev, "http://www.w3.org/ns/shacl#")), m["sourceShapeName"], m["focusNode"]))
	}
	sort.Strings(out)
	return dedupe(out), conforms, nil
}

// FindModelMismatch (debugging aid): enumerates graphs on which regosym's prediction differs
// from the reference and reports the first one where the real implementation disagrees with regosym.
func (c *Checker) FindModelMismatch(p Program, sc Scope, code string, rounds int) string {
	_, msg := c.Differential(p, sc, code, rounds, true)
	return msg
}

// Differential validates regosym itself: it enumerates graphs of the scope (all of them, or
// only those on which the prediction differs from the reference), validates each through the real
// entry point and compares the real results with regosym's prediction. It returns the number of
// graphs compared and a message describing the first disagreement ("" if none).
func (c *Checker) Differential(p Program, sc Scope, code string, rounds int, onlyDisagreements bool) (int, string) {
	n, msg := c.differential(p, sc, code, rounds, onlyDisagreements)
	if strings.HasPrefix(msg, "no mismatch") {
		msg = ""
	}
	return n, msg
}

func (c *Checker) differential(p Program, sc Scope, code string, rounds int, onlyDisagreements bool) (int, string) {
	_, mod, err := CompileModule(code)
	if err != nil {
		return 0, err.Error()
	}
	g := NewGraph(sc, "g")
	ev := NewEvaluator(mod, g.Input)
	rep := EvalReport(ev, g)
	ref := &Ref{G: g}
	profile := p.ProfileYAML()
	goal := smt.False
	type ob struct {
		key      string
		reported *smt.Term
		expected *smt.Term
		spec     *smt.Term
	}
	var obs []ob
	var perLevel []Validation
	for _, v := range p.Validations {
		for _, l := range LevelsOf(v) {
			vl := v
			vl.Level = l
			perLevel = append(perLevel, vl)
		}
	}
	for _, v := range perLevel {
		for i := 0; i < g.N; i++ {
			k := rkey(v.Level, v.Name, i)
			reported, ok := rep.ByKey[k]
			if !ok {
				reported = smt.False
			}
			holds, spec := ref.Holds(v.F, i)
			expected := smt.And(ref.Target(i, v.Class), smt.Not(holds))
			obs = append(obs, ob{k, reported, expected, spec})
			goal = smt.Or(goal, smt.And(spec, smt.Not(smt.Eq(reported, expected))))
		}
	}
	side := append([]*smt.Term{}, g.Side...)
	if !onlyDisagreements {
		goal = smt.True
		// spread the samples: vary which nodes exist
		goal = smt.Or(goal, smt.True)
	}
	rng := uint64(88172645463325252)
	next := func() uint64 {
		rng ^= rng << 13
		rng ^= rng >> 7
		rng ^= rng << 17
		return rng
	}
	for r := 0; r < rounds; r++ {
		cur := side
		if !onlyDisagreements {
			// a pseudo-random partial assignment makes the sampled graphs spread over the scope
			cur = append([]*smt.Term{}, side...)
			for i := 0; i < g.N; i++ {
				if next()%4 != 0 {
					cur = append(cur, smt.Eq(g.Exists[i], smt.Bool(next()%4 != 0)))
				}
				for c := range g.Classes {
					if next()%2 == 0 {
						cur = append(cur, smt.Eq(g.HasClass[i][c], smt.Bool(next()%2 == 0)))
					}
				}
				for pi := range g.Preds {
					if next()%2 == 0 {
						cur = append(cur, smt.Eq(g.Sel[i][pi], smt.BV(next()%uint64(len(g.Subsets)), 8)))
					}
				}
			}
		}
		res, m := c.solve(cur, goal, g.Vars)
		if res != smt.Sat {
			if !onlyDisagreements {
				continue
			}
			return r, fmt.Sprintf("no mismatch in %d graphs", r)
		}
		data, _ := g.Concrete(m)
		var predicted []string
		for _, o := range obs {
			if evalBool(o.reported, m) {
				predicted = append(predicted, o.key)
			}
		}
		sort.Strings(predicted)
		outs, err := c.Drv.Validate([]ValIn{{Profile: profile, Data: data}})
		if err != nil || outs[0].Error != "" {
			return r, fmt.Sprintf("native failure: %v %s\n%s", err, outs[0].Error, data)
		}
		actual, _, _ := realResults(outs[0].Report, g)
		if strings.Join(actual, ",") != strings.Join(predicted, ",") {
			// who is wrong? Where the documentation determines the outcome, the model agrees with the
			// reference and the real pipeline does not, the real pipeline is: a violation, not a model error
			inActual := map[string]bool{}
			for _, a := range actual {
				inActual[a] = true
			}
			var expectedList []string
			deviates := false
			for _, o := range obs {
				exp := evalBool(o.expected, m)
				if exp {
					expectedList = append(expectedList, o.key)
				}
				if evalBool(o.spec, m) && evalBool(o.reported, m) == exp && inActual[o.key] != exp {
					deviates = true
				}
			}
			if deviates {
				sort.Strings(expectedList)
				c.LastDeviation = &Outcome{Program: DescribeProgram(p), Profile: profile, Data: data, Status: "violation", Label: "C01.verdict-eq-reference",
					Expected: expectedList, Predicted: predicted, Actual: actual,
					Detail: fmt.Sprintf("reference (and the model of the policy) expect [%s], the real pipeline reports [%s]", strings.Join(expectedList, " "), strings.Join(actual, " "))}
				return r, "DEVIATION " + c.LastDeviation.Detail
			}
			return r, fmt.Sprintf("MISMATCH predicted=%v actual=%v\n%s", predicted, actual, data)
		}
		// block this assignment
		block := smt.False
		for _, v := range g.Vars {
			val := m[v.Name]
			if v.Width == 0 {
				block = smt.Or(block, smt.Not(smt.Eq(v, smt.Bool(val != 0))))
			} else {
				block = smt.Or(block, smt.Not(smt.Eq(v, smt.BV(val, v.Width))))
			}
		}
		side = append(side, block)
	}
	return rounds, fmt.Sprintf("no mismatch in %d graphs", rounds)
}
