package regosym

import (
	"fmt"

	"github.com/open-policy-agent/opa/ast"
)

// CompileModule parses and compiles module text with the linked OPA.
func CompileModule(code string) (*ast.Compiler, *ast.Module, error) {
	m, err := ast.ParseModule("m.rego", code)
	if err != nil {
		return nil, nil, err
	}
	c := ast.NewCompiler()
	c.Compile(map[string]*ast.Module{"m.rego": m})
	if c.Failed() {
		return nil, nil, c.Errors
	}
	return c, c.Modules["m.rego"], nil
}

// Dump prints the compiled rules (debugging aid).
func Dump(code string) error {
	_, m, err := CompileModule(code)
	if err != nil {
		return err
	}
	for _, r := range m.Rules {
		fmt.Printf("RULE %s  args=%v key=%v value=%v default=%v else=%v\n", r.Head.Name, r.Head.Args, r.Head.Key, r.Head.Value, r.Default, r.Else != nil)
		for _, e := range r.Body {
			fmt.Printf("    %s   [neg=%v with=%d call=%v]\n", e, e.Negated, len(e.With), e.IsCall())
		}
	}
	return nil
}
