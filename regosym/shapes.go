package regosym

import (
	"encoding/json"
	"fmt"
	"regexp"
	"sort"
	"strings"
	"time"

	"github.com/open-policy-agent/opa/ast"

	"verif/smt"
)

// ShapeOptions selects the obligations CheckShapes discharges.
type ShapeOptions struct {
	ResultShape bool // C12: focus node, shape name, message, trace
	Locations   bool // C14: location iff lexical entry, exact numbers and uri
	Message     bool // C13: placeholder substitution
}

func getField(v Val, key string) (Val, bool) {
	switch x := v.(type) {
	case ast.Object:
		if t := x.Get(ast.StringTerm(key)); t != nil {
			return t.Value, true
		}
	case *SObj:
		if a := x.Fields[key]; len(a) == 1 && a[0].G.IsTrue() {
			return a[0].V, true
		}
	}
	return nil, false
}

func nonEmptyString(v Val) bool {
	switch x := v.(type) {
	case ast.String:
		return string(x) != ""
	case *Opaque:
		return true
	}
	return false
}

var rangeRe = regexp.MustCompile(`\d+`)

// expectedLocation: the location object a lexical entry must produce.
func expectedLocation(le LexEntry) ast.Value {
	nums := rangeRe.FindAllString(le.Range, 4)
	n := func(i int) *ast.Term { return ast.NewTerm(ast.Number(json.Number(nums[i]))) }
	pos := func(l, c int) *ast.Term {
		return ast.ObjectTerm([2]*ast.Term{ast.StringTerm("@type"), ast.ArrayTerm(ast.StringTerm("lexicalSchema:PositionNode"), ast.StringTerm("lexical:Position"))},
			[2]*ast.Term{ast.StringTerm("line"), n(l)}, [2]*ast.Term{ast.StringTerm("column"), n(c)})
	}
	rng := ast.ObjectTerm([2]*ast.Term{ast.StringTerm("@type"), ast.ArrayTerm(ast.StringTerm("lexicalSchema:RangeNode"), ast.StringTerm("lexical:Range"))},
		[2]*ast.Term{ast.StringTerm("start"), pos(0, 1)}, [2]*ast.Term{ast.StringTerm("end"), pos(2, 3)})
	return ast.NewObject([2]*ast.Term{ast.StringTerm("@type"), ast.ArrayTerm(ast.StringTerm("lexicalSchema:LocationNode"), ast.StringTerm("lexical:Location"))},
		[2]*ast.Term{ast.StringTerm("uri"), ast.StringTerm(le.URI)}, [2]*ast.Term{ast.StringTerm("range"), rng})
}

type shapeBad struct {
	label string
	g     *smt.Term
	what  string
}

type shapeChecker struct {
	g      *Graph
	names  map[string]bool
	opts   ShapeOptions
	bad    []shapeBad
	expLoc []ast.Value
	idIdx  map[string]int
	msgs   map[string]Validation
	count  int
	// tracePaths: expected resultPath (normalised) per validation that is one atomic constraint
	tracePaths map[string]string
}

func (sc *shapeChecker) fail(label string, g *smt.Term, what string) {
	if !g.IsFalse() {
		sc.bad = append(sc.bad, shapeBad{label, g, what})
	}
}

// checkResult checks one result object that exists under guard g.
func (sc *shapeChecker) checkResult(v Val, g *smt.Term, nested bool) {
	sc.count++
	focus, ok := getField(v, "focusNode")
	fs, isStr := focus.(ast.String)
	idx, known := sc.idIdx[string(fs)]
	if sc.opts.ResultShape {
		if !ok || !isStr || !known {
			sc.fail("C12.result-shape.focusNode", g, "focusNode missing or not an input node: "+describe(focus))
		} else {
			sc.fail("C12.result-shape.focusNode", smt.And(g, smt.Not(sc.g.Exists[idx])), "focusNode names a node that is not in the graph")
		}
		name, ok := getField(v, "sourceShapeName")
		ns, isName := name.(ast.String)
		if !ok || !isName || (nested && string(ns) != "nested") || (!nested && !sc.names[string(ns)]) {
			sc.fail("C12.result-shape.sourceShapeName", g, "sourceShapeName "+describe(name))
		}
		if msg, ok := getField(v, "resultMessage"); !ok || !nonEmptyString(msg) {
			sc.fail("C12.result-shape.resultMessage", g, "empty or missing resultMessage")
		}
	}
	if sc.opts.Locations && known {
		sc.checkLocation(v, g, idx, "C14.location-eq-lexical.result")
	}
	if sc.opts.Message && known && !nested {
		sc.checkMessage(v, g, idx)
	}
	if sc.opts.ResultShape {
		sc.checkSiblingArrays(v, g, 0)
	}
	tr, ok := getField(v, "trace")
	elems, isArr := elemsOfArray(tr)
	if !ok || !isArr {
		if sc.opts.ResultShape {
			sc.fail("C12.result-shape.trace", g, "trace missing")
		}
		return
	}
	if sc.opts.ResultShape {
		sc.fail("C12.result-shape.trace", smt.And(g, smt.Eq(countOf(elems), countConst(0))), "empty trace")
	}
	for _, e := range elems {
		ge := smt.And(g, e.G)
		if sc.opts.ResultShape {
			for _, k := range []string{"component", "resultPath"} {
				if f, ok := getField(e.V, k); !ok || !isConcrete(f) {
					sc.fail("C12.result-shape.trace-entry", ge, "trace entry without "+k)
				} else if fs, isS := f.(ast.String); !isS {
					sc.fail("C12.result-shape.trace-entry", ge, "trace entry "+k+" is not a string")
				} else if k == "component" && string(fs) == "" {
					sc.fail("C12.result-shape.trace-entry", ge, "trace entry names no component")
				} else if k == "resultPath" && !nested {
					name, _ := getField(v, "sourceShapeName")
					ns, _ := name.(ast.String)
					if want, ok := sc.tracePaths[string(ns)]; ok && normTracePath(string(fs)) != want {
						sc.fail("C12.result-shape.trace-entry", ge, "trace entry names the path "+string(fs)+", the constraint is on "+want)
					}
				}
			}
		}
		if sc.opts.Locations && known && !nested {
			// top-level traces are about the focus node - except the trace of an embedded Rego constraint,
			// which may name its own subject ($traceNode)
			if comp, _ := getField(e.V, "component"); comp != ast.Value(ast.String("rego")) {
				sc.checkLocation(e.V, ge, idx, "C14.location-eq-lexical.trace")
			}
		}
		if tv, ok := getField(e.V, "traceValue"); ok {
			if sub, ok := getField(tv, "subResult"); ok {
				if subs, ok := elemsOfArray(sub); ok {
					for _, s := range subs {
						sc.checkResult(s.V, smt.And(ge, s.G), true)
					}
				}
			}
		}
	}
}

// checkSiblingArrays: the report builder names the elements of an array child <parent>_<index>,
// without the array's key. Ids stay unique exactly as long as no typed node has two arrays of
// typed children that can be non-empty together; this is the precondition under which the id
// walk is verified (gosym VerifC12Ids), checked here on every node the module can produce.
func (sc *shapeChecker) checkSiblingArrays(v Val, g *smt.Term, depth int) {
	o, ok := v.(*SObj)
	if !ok || depth > 8 {
		if c, isC := v.(ast.Value); isC && depth <= 8 {
			sc.checkSiblingArraysConcrete(c, g, depth)
		}
		return
	}
	if _, typed := o.Fields["@type"]; !typed {
		return
	}
	type arr struct {
		key      string
		nonEmpty *smt.Term
	}
	var arrays []arr
	for _, k := range o.Keys {
		for _, alt := range o.Fields[k] {
			ga := smt.And(g, alt.G)
			if elems, isArr := elemsOfArray(alt.V); isArr {
				ne := smt.False
				for _, e := range elems {
					if hasTypeField(e.V) {
						ne = smt.Or(ne, smt.And(ga, e.G))
						sc.checkSiblingArrays(e.V, smt.And(ga, e.G), depth+1)
					}
				}
				if !ne.IsFalse() {
					arrays = append(arrays, arr{k, ne})
				}
			} else {
				sc.checkSiblingArrays(alt.V, ga, depth+1)
			}
		}
	}
	for i := 0; i < len(arrays); i++ {
		for j := i + 1; j < len(arrays); j++ {
			if arrays[i].key == arrays[j].key {
				continue
			}
			sc.fail("C12.ids-unique.sibling-arrays", smt.And(arrays[i].nonEmpty, arrays[j].nonEmpty),
				fmt.Sprintf("a node carries two arrays of nodes (%s, %s): their elements get the same @id", arrays[i].key, arrays[j].key))
		}
	}
}

func hasTypeField(v Val) bool {
	switch x := v.(type) {
	case *SObj:
		_, ok := x.Fields["@type"]
		return ok
	case ast.Object:
		return x.Get(ast.StringTerm("@type")) != nil
	}
	return false
}

func (sc *shapeChecker) checkSiblingArraysConcrete(c ast.Value, g *smt.Term, depth int) {
	obj, ok := c.(ast.Object)
	if !ok || depth > 8 || obj.Get(ast.StringTerm("@type")) == nil {
		return
	}
	var keys []string
	obj.Foreach(func(k, v *ast.Term) {
		if arr, isArr := v.Value.(*ast.Array); isArr {
			typed := false
			arr.Foreach(func(e *ast.Term) {
				if hasTypeField(e.Value) {
					typed = true
					sc.checkSiblingArraysConcrete(e.Value, g, depth+1)
				}
			})
			if typed {
				keys = append(keys, k.Value.String())
			}
		} else {
			sc.checkSiblingArraysConcrete(v.Value, g, depth+1)
		}
	})
	if len(keys) > 1 {
		sc.fail("C12.ids-unique.sibling-arrays", g, fmt.Sprintf("a node carries two arrays of nodes (%s): their elements get the same @id", strings.Join(keys, ", ")))
	}
}

func (sc *shapeChecker) checkLocation(v Val, g *smt.Term, node int, label string) {
	loc, has := getField(v, "location")
	sel := sc.g.LexSel[node]
	bad := smt.False
	for k := 0; k <= len(sc.g.Lexical); k++ {
		ok := false
		if k == 0 {
			ok = !has
		} else if has {
			if c, isC := loc.(ast.Value); isC && ast.Compare(c, sc.expLoc[k-1]) == 0 {
				ok = true
			}
		}
		if !ok {
			bad = smt.Or(bad, smt.Eq(sel, smt.BV(uint64(k), 8)))
		}
	}
	sc.fail(label, smt.And(g, bad), fmt.Sprintf("location of a result about n%d: %s", node+1, describe(loc)))
}

var placeholderRe = regexp.MustCompile(`\{\{\s*ex\.(p[_-]?\d+)\s*}}`)

func scalarText(v ast.Value) (string, bool) {
	switch x := v.(type) {
	case ast.String:
		return string(x), true
	case ast.Number:
		return string(x), true
	case ast.Boolean:
		return x.String(), true
	}
	return "", false
}

// checkMessage: each {{ex.pK}} is replaced by the node's single scalar value, or null when absent.
func (sc *shapeChecker) checkMessage(v Val, g *smt.Term, node int) {
	name, _ := getField(v, "sourceShapeName")
	ns, _ := name.(ast.String)
	val, ok := sc.msgs[string(ns)]
	if !ok || val.Message == "" {
		return
	}
	msg, okm := getField(v, "resultMessage")
	ms, isS := msg.(ast.String)
	if !okm || !isS {
		sc.fail("C13.message-substitution", g, "message is not a concrete string: "+describe(msg))
		return
	}
	phs := placeholderRe.FindAllStringSubmatch(val.Message, -1)
	if len(phs) == 0 {
		// no placeholder: the message as written (double quotes shown as single quotes)
		if want := shownMessage(val.Message); want != string(ms) {
			sc.fail("C13.message-substitution", g, fmt.Sprintf("message %q for n%d, written %q", string(ms), node+1, val.Message))
		}
		return
	}
	preds := placeholderPreds(phs)
	bad := smt.False
	// every combination of value sets of the properties the message mentions
	combo := make([]int, len(preds))
	for {
		subs := map[int][]int{}
		guard := smt.True
		for k, p := range preds {
			subs[p] = sc.g.Subsets[combo[k]]
			guard = smt.And(guard, sc.g.selIs(node, p, combo[k]))
		}
		if want, specified := expectedMessage(val.Message, phs, subs, sc.g.Pool); specified && want != string(ms) {
			bad = smt.Or(bad, guard)
		}
		k := 0
		for ; k < len(combo); k++ {
			combo[k]++
			if combo[k] < len(sc.g.Subsets) {
				break
			}
			combo[k] = 0
		}
		if k == len(combo) {
			break
		}
	}
	sc.fail("C13.message-substitution", smt.And(g, bad), fmt.Sprintf("message %q for n%d", string(ms), node+1))
}

// placeholderPreds lists the distinct property indices of the placeholders, in order of first use.
func placeholderPreds(phs [][]string) []int {
	var preds []int
	seen := map[int]bool{}
	for _, ph := range phs {
		p := predOfLocal(ph[1])
		if p < 0 {
			continue
		}
		if !seen[p] {
			seen[p] = true
			preds = append(preds, p)
		}
	}
	return preds
}

// expectedMessage: the message as written, double quotes shown as single quotes, every placeholder
// occurrence replaced by the node's value for that property (null when absent). Unspecified when a
// mentioned property has several values or a node reference.
func expectedMessage(message string, phs [][]string, subs map[int][]int, pool []PoolVal) (string, bool) {
	want := shownMessage(message)
	for _, ph := range phs {
		p := predOfLocal(ph[1])
		if p < 0 {
			return "", false
		}
		sub := subs[p]
		text := "null"
		switch len(sub) {
		case 0:
		case 1:
			t, isScalar := scalarText(pool[sub[0]].V)
			if !isScalar {
				return "", false
			}
			text = t
		default:
			return "", false
		}
		want = strings.Replace(want, shownMessage(ph[0]), text, 1)
	}
	return want, true
}

func shownMessage(m string) string { return strings.ReplaceAll(m, "\"", "'") }

// CheckShapes evaluates the module on the symbolic graph and checks every result object.
func (c *Checker) CheckShapes(p Program, sc Scope, code string, opts ShapeOptions) (out Outcome) {
	t0 := time.Now()
	out = Outcome{Program: DescribeProgram(p), Profile: p.ProfileYAML(), Status: "held"}
	defer func() {
		out.Wall = time.Since(t0)
		if r := recover(); r != nil {
			if u, ok := r.(Unsupported); ok {
				out.Status, out.Detail = "unsupported", u.Msg
				return
			}
			panic(r)
		}
	}()
	_, mod, err := CompileModule(code)
	if err != nil {
		out.Status, out.Label, out.Detail = "compile-error", "C07.module-compiles", err.Error()
		return
	}
	g := NewGraph(sc, "g")
	ev := NewEvaluator(mod, g.Input)
	rep := EvalReport(ev, g)
	out.Steps = ev.Steps
	chk := &shapeChecker{g: g, names: map[string]bool{}, opts: opts, idIdx: map[string]int{}, msgs: map[string]Validation{}}
	for _, v := range p.Validations {
		chk.names[v.Name] = true
		chk.msgs[v.Name] = v
		chk.tracePaths = ExpectedTracePaths(p)
	}
	for i, id := range g.IDs {
		chk.idIdx[id] = i
	}
	for _, le := range g.Lexical {
		chk.expLoc = append(chk.expLoc, expectedLocation(le))
	}
	for _, level := range []string{"violation", "warning", "info"} {
		for _, a := range rep.Shapes[level] {
			chk.checkResult(a.V, a.G, false)
		}
	}
	out.Compared = chk.count
	// the report object itself: three level keys always defined, profile = name
	for _, a := range ev.ruleValue("report") {
		o, ok := a.V.(*SObj)
		if !ok {
			chk.fail("C03.levels-defined", a.G, "report is not an object")
			continue
		}
		for _, l := range []string{"violation", "warning", "info"} {
			chk.fail("C03.levels-defined", smt.Not(anyGuard(o.Fields[l])), "report."+l+" can be undefined")
		}
		pn := p.Name
		if pn == "" {
			pn = "P"
		}
		okName := smt.False
		for _, f := range o.Fields["profile"] {
			if s, isS := f.V.(ast.String); isS && string(s) == pn {
				okName = smt.Or(okName, f.G)
			}
		}
		chk.fail("C03.profile-name", smt.Not(okName), "report.profile is not the profile's name")
	}
	if len(chk.bad) == 0 {
		return
	}
	goal := smt.False
	for _, b := range chk.bad {
		goal = smt.Or(goal, b.g)
	}
	out.Queries++
	res, m := c.solve(g.Side, goal, g.Vars)
	if res == smt.Unsat {
		return
	}
	if res == smt.Unknown {
		out.Status, out.Detail = "solver-unknown", "shape query undecided"
		return
	}
	var labels []string
	for _, b := range chk.bad {
		if evalBool(b.g, m) {
			labels = append(labels, b.label+": "+b.what)
			if out.Label == "" {
				out.Label = b.label
			}
		}
	}
	sort.Strings(labels)
	data, desc := g.Concrete(m)
	out.Data, out.Model = data, desc
	out.Detail = strings.Join(dedupe(labels), "; ")
	// native confirmation: the same obligations on the real report
	out.Status = "model-mismatch"
	outs, err := c.Drv.Validate([]ValIn{{Profile: out.Profile, Data: data}})
	if err != nil || outs[0].Error != "" {
		out.Detail += fmt.Sprintf(" | native replay failed: %v %s", err, outs[0].Error)
		return
	}
	problems := NativeShapeProblems(outs[0].Report, p, g, m, opts)
	out.Actual = problems
	// what a replay needs to re-check the real report without the solver's model
	out.Replay = map[string]any{"obligations": opts, "profile_name": p.Name, "trace_paths": ExpectedTracePaths(p)}
	if opts.Locations {
		locs := map[string]any{}
		for i, id := range g.IDs {
			if !evalBool(g.Exists[i], m) {
				continue
			}
			if k := int(smt.Eval(g.LexSel[i], m, map[*smt.Term]uint64{})); k >= 1 && k <= len(g.Lexical) {
				j, _ := ast.JSON(expectedLocation(g.Lexical[k-1]))
				locs[id] = j
			} else {
				locs[id] = nil
			}
		}
		out.Replay["expected_locations"] = locs
	}
	for _, pr := range problems {
		if strings.HasPrefix(pr, out.Label) || strings.HasPrefix(pr, strings.SplitN(out.Label, ".", 2)[0]) {
			out.Status = "violation"
		}
	}
	if out.Status != "violation" {
		out.Detail += " | the real report shows no such problem: " + strings.Join(problems, ",")
	}
	return
}

// NativeShapeProblems re-checks the obligations on a real report.
func NativeShapeProblems(report string, p Program, g *Graph, m map[string]uint64, opts ShapeOptions) []string {
	var doc []map[string]any
	dec := json.NewDecoder(strings.NewReader(report))
	dec.UseNumber()
	if err := dec.Decode(&doc); err != nil || len(doc) != 1 {
		return []string{"C12.result-shape: report is not a single dialect instance"}
	}
	enc, _ := doc[0]["doc:encodes"].([]any)
	if len(enc) != 1 {
		return []string{"C12.result-shape: not exactly one report node"}
	}
	rn := enc[0].(map[string]any)
	tracePaths := ExpectedTracePaths(p)
	var nameProblem []string
	if want := p.Name; want != "" {
		if got, _ := rn["profileName"].(string); got != want {
			nameProblem = append(nameProblem, "C03.profile-name")
		}
	}
	names := map[string]Validation{}
	for _, v := range p.Validations {
		names[v.Name] = v
	}
	present := map[string]int{}
	for i, id := range g.IDs {
		if evalBool(g.Exists[i], m) {
			present[id] = i
		}
	}
	problems := nameProblem
	var walk func(r map[string]any, nested bool)
	walk = func(r map[string]any, nested bool) {
		focus, _ := r["focusNode"].(string)
		node, isNode := present[focus]
		name, _ := r["sourceShapeName"].(string)
		if opts.ResultShape {
			if !isNode {
				problems = append(problems, "C12.result-shape.focusNode")
			}
			if _, ok := names[name]; (!nested && !ok) || (nested && name != "nested") {
				problems = append(problems, "C12.result-shape.sourceShapeName")
			}
			if msg, _ := r["resultMessage"].(string); msg == "" {
				problems = append(problems, "C12.result-shape.resultMessage")
			}
		}
		if opts.Locations && isNode {
			k := int(smt.Eval(g.LexSel[node], m, map[*smt.Term]uint64{}))
			loc, has := r["location"].(map[string]any)
			if (k == 0) != !has {
				problems = append(problems, "C14.location-eq-lexical.result")
			} else if has {
				want, _ := ast.JSON(expectedLocation(g.Lexical[k-1]))
				if !sameLocation(loc, want.(map[string]any)) {
					problems = append(problems, "C14.location-eq-lexical.result")
				}
			}
		}
		if opts.Message && isNode && !nested {
			if v, ok := names[name]; ok && v.Message != "" {
				if phs := placeholderRe.FindAllStringSubmatch(v.Message, -1); len(phs) >= 0 {
					subs := map[int][]int{}
					for _, pred := range placeholderPreds(phs) {
						subs[pred] = g.Subsets[int(smt.Eval(g.Sel[node][pred], m, map[*smt.Term]uint64{}))%len(g.Subsets)]
					}
					want, specified := expectedMessage(v.Message, phs, subs, g.Pool)
					if got, _ := r["resultMessage"].(string); specified && got != want {
						problems = append(problems, "C13.message-substitution")
					}
				}
			}
		}
		traces, _ := r["trace"].([]any)
		if opts.ResultShape && len(traces) == 0 {
			problems = append(problems, "C12.result-shape.trace")
		}
		for _, t := range traces {
			tm, _ := t.(map[string]any)
			if opts.ResultShape {
				if c, _ := tm["component"].(string); c == "" {
					problems = append(problems, "C12.result-shape.trace-entry")
				}
				if rp, ok := tm["resultPath"].(string); !ok {
					problems = append(problems, "C12.result-shape.trace-entry")
				} else if want, known := tracePaths[name]; known && !nested && normTracePath(rp) != want {
					problems = append(problems, "C12.result-shape.trace-entry")
				}
			}
			// a top-level trace is about the focus node, unless embedded Rego named its own subject
			if comp, _ := tm["component"].(string); opts.Locations && isNode && !nested && comp != "rego" {
				k := int(smt.Eval(g.LexSel[node], m, map[*smt.Term]uint64{}))
				loc, has := tm["location"].(map[string]any)
				if (k == 0) != !has {
					problems = append(problems, "C14.location-eq-lexical.trace")
				} else if has {
					want, _ := ast.JSON(expectedLocation(g.Lexical[k-1]))
					if !sameLocation(loc, want.(map[string]any)) {
						problems = append(problems, "C14.location-eq-lexical.trace")
					}
				}
			}
			if tv, ok := tm["traceValue"].(map[string]any); ok {
				if subs, ok := tv["subResult"].([]any); ok {
					for _, s := range subs {
						if sm, ok := s.(map[string]any); ok {
							walk(sm, true)
						}
					}
				}
			}
		}
	}
	if opts.ResultShape && duplicateIDs(any(rn), map[string]bool{}) {
		problems = append(problems, "C12.ids-unique.sibling-arrays")
	}
	results, _ := rn["result"].([]any)
	for _, r := range results {
		if rm, ok := r.(map[string]any); ok {
			walk(rm, false)
		}
	}
	sort.Strings(problems)
	return dedupe(problems)
}

// duplicateIDs walks a decoded report and reports whether two nodes carry the same @id.
func duplicateIDs(x any, seen map[string]bool) bool {
	switch n := x.(type) {
	case map[string]any:
		if _, typed := n["@type"]; typed {
			if id, ok := n["@id"].(string); ok {
				if seen[id] {
					return true
				}
				seen[id] = true
			}
		}
		for k, e := range n {
			if k == "@context" {
				continue
			}
			if duplicateIDs(e, seen) {
				return true
			}
		}
	case []any:
		for _, e := range n {
			if duplicateIDs(e, seen) {
				return true
			}
		}
	}
	return false
}

func sameLocation(got, want map[string]any) bool {
	num := func(x any) string { return fmt.Sprint(x) }
	gr, _ := got["range"].(map[string]any)
	wr, _ := want["range"].(map[string]any)
	if got["uri"] != want["uri"] || gr == nil {
		return false
	}
	for _, k := range []string{"start", "end"} {
		gp, _ := gr[k].(map[string]any)
		wp, _ := wr[k].(map[string]any)
		if gp == nil || num(gp["line"]) != num(wp["line"]) || num(gp["column"]) != num(wp["column"]) {
			return false
		}
	}
	return true
}

// ReplayShapeProblems re-checks a stored shape counterexample on a freshly produced real report.
func ReplayShapeProblems(report string, validationNames []string, expectedLocations map[string]any, checkShape bool, tracePaths map[string]string) []string {
	var doc []map[string]any
	dec := json.NewDecoder(strings.NewReader(report))
	dec.UseNumber()
	if err := dec.Decode(&doc); err != nil || len(doc) != 1 {
		return []string{"C12.result-shape: report is not a single dialect instance"}
	}
	enc, _ := doc[0]["doc:encodes"].([]any)
	if len(enc) != 1 {
		return []string{"C12.result-shape: not exactly one report node"}
	}
	names := map[string]bool{}
	for _, n := range validationNames {
		names[n] = true
	}
	var problems []string
	var walk func(r map[string]any, nested bool)
	walk = func(r map[string]any, nested bool) {
		focus, _ := r["focusNode"].(string)
		name, _ := r["sourceShapeName"].(string)
		if checkShape {
			if focus == "" {
				problems = append(problems, "C12.result-shape.focusNode")
			}
			if (!nested && !names[name]) || (nested && name != "nested") {
				problems = append(problems, "C12.result-shape.sourceShapeName")
			}
			if msg, _ := r["resultMessage"].(string); msg == "" {
				problems = append(problems, "C12.result-shape.resultMessage")
			}
		}
		if want, ok := expectedLocations[focus]; ok && expectedLocations != nil {
			loc, has := r["location"].(map[string]any)
			if (want == nil) != !has {
				problems = append(problems, "C14.location-eq-lexical.result")
			} else if has && !sameLocation(loc, want.(map[string]any)) {
				problems = append(problems, "C14.location-eq-lexical.result")
			}
		}
		traces, _ := r["trace"].([]any)
		if checkShape && len(traces) == 0 {
			problems = append(problems, "C12.result-shape.trace")
		}
		for _, t := range traces {
			tm, _ := t.(map[string]any)
			if checkShape {
				if c, _ := tm["component"].(string); c == "" {
					problems = append(problems, "C12.result-shape.trace-entry")
				}
				if want, known := tracePaths[name]; known && !nested {
					if rp, _ := tm["resultPath"].(string); normTracePath(rp) != want {
						problems = append(problems, "C12.result-shape.trace-entry")
					}
				}
			}
			if want, ok := expectedLocations[focus]; ok && expectedLocations != nil && !nested {
				if comp, _ := tm["component"].(string); comp != "rego" {
					loc, has := tm["location"].(map[string]any)
					if (want == nil) != !has {
						problems = append(problems, "C14.location-eq-lexical.trace")
					} else if has && !sameLocation(loc, want.(map[string]any)) {
						problems = append(problems, "C14.location-eq-lexical.trace")
					}
				}
			}
			if tv, ok := tm["traceValue"].(map[string]any); ok {
				if subs, ok := tv["subResult"].([]any); ok {
					for _, s := range subs {
						if sm, ok := s.(map[string]any); ok {
							walk(sm, true)
						}
					}
				}
			}
		}
	}
	rn := enc[0].(map[string]any)
	if checkShape && duplicateIDs(any(rn), map[string]bool{}) {
		problems = append(problems, "C12.ids-unique.sibling-arrays")
	}
	results, _ := rn["result"].([]any)
	for _, r := range results {
		if rm, ok := r.(map[string]any); ok {
			walk(rm, false)
		}
	}
	sort.Strings(problems)
	return dedupe(problems)
}


// ExpectedTracePaths: for every validation that is one atomic constraint, the path its trace
// entries name - the expanded predicates in the order written, inverse steps marked with ^ -
// compared modulo blanks and parentheses.
func ExpectedTracePaths(p Program) map[string]string {
	out := map[string]string{}
	for _, v := range p.Validations {
		f := v.F
		for {
			switch x := f.(type) {
			case And:
				if len(x.Fs) == 1 {
					f = x.Fs[0]
					continue
				}
			case PC:
				if len(x.Fs) == 1 {
					f = x.Fs[0]
					continue
				}
			case Atom:
				out[v.Name] = normTracePath(tracePathOf(x.Path))
			}
			break
		}
	}
	return out
}

func tracePathOf(p Path) string {
	switch x := p.(type) {
	case PProp:
		if x.Inverse {
			return PredIRI(x.Pred) + "^"
		}
		return PredIRI(x.Pred)
	case PType:
		return "@type"
	case PSeq:
		var parts []string
		for _, k := range x.Parts {
			parts = append(parts, tracePathOf(k))
		}
		return strings.Join(parts, "/")
	case PAlt:
		var parts []string
		for _, k := range x.Parts {
			parts = append(parts, tracePathOf(k))
		}
		return strings.Join(parts, "|")
	}
	return ""
}

func normTracePath(s string) string {
	return strings.NewReplacer(" ", "", "(", "", ")", "", "\t", "", "\n", "").Replace(s)
}
