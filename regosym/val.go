package regosym

import (
	"fmt"
	"sort"
	"strings"
	"sync/atomic"

	"github.com/open-policy-agent/opa/ast"

	"verif/smt"
)

// Val is a value of the symbolic evaluator: either a fully concrete ast.Value of the
// linked OPA, or one of the guarded structures below.
type Val interface{}

// Alt is one guarded alternative / member.
type Alt struct {
	G *smt.Term
	V Val
}

// SObj is an object with concrete keys whose field values are guarded alternatives
// (a field is absent when no alternative holds). Used for the input document.
type SObj struct {
	id     int
	Keys   []string
	Fields map[string][]Alt
}

// SArr is an array whose elements are present under guards (order preserved, compacted).
type SArr struct {
	id    int
	Elems []Alt
}

// SSet is a set with guarded membership.
type SSet struct {
	id    int
	Elems []Alt
}

// SCount is an integer that depends on guards (16-bit two's complement term).
type SCount struct {
	id int
	T  *smt.Term
}

// Opaque stands for a string/number whose content depends on guards but is never inspected
// by verdict-relevant code (trace texts).
type Opaque struct {
	id  int
	Tag string
}

// identities of symbolic structures; programs are checked by concurrent workers
var idCounter int64

func nextID() int { return int(atomic.AddInt64(&idCounter, 1)) }

func NewSObj() *SObj { return &SObj{id: nextID(), Fields: map[string][]Alt{}} }

func (o *SObj) Set(key string, alts []Alt) {
	if _, ok := o.Fields[key]; !ok {
		o.Keys = append(o.Keys, key)
	}
	o.Fields[key] = alts
}

func NewSArr(elems []Alt) *SArr { return &SArr{id: nextID(), Elems: elems} }

// keyOf is a canonical key: equal keys <=> equal values (symbolic structures by identity).
func keyOf(v Val) string {
	switch x := v.(type) {
	case ast.Value:
		return "c:" + x.String()
	case *SObj:
		return fmt.Sprintf("o#%d", x.id)
	case *SArr:
		return fmt.Sprintf("a#%d", x.id)
	case *SSet:
		return fmt.Sprintf("s#%d", x.id)
	case *SCount:
		return fmt.Sprintf("n#%d", x.T.ID)
	case *Opaque:
		return fmt.Sprintf("q#%d", x.id)
	case nil:
		return "undefined"
	}
	panic(fmt.Sprintf("keyOf %T", v))
}

// NewSSet builds a set, merging equal members (their guards are or-ed).
func NewSSet(elems []Alt) *SSet {
	idx := map[string]int{}
	var out []Alt
	for _, e := range elems {
		if e.G.IsFalse() {
			continue
		}
		k := keyOf(e.V)
		if i, ok := idx[k]; ok {
			out[i].G = smt.Or(out[i].G, e.G)
			continue
		}
		idx[k] = len(out)
		out = append(out, e)
	}
	return &SSet{id: nextID(), Elems: out}
}

func isConcrete(v Val) bool {
	_, ok := v.(ast.Value)
	return ok
}

// concretizeIfPossible turns guarded collections whose guards are all constant into ast values.
func concretizeIfPossible(v Val) Val {
	switch x := v.(type) {
	case *SArr:
		var ts []*ast.Term
		for _, e := range x.Elems {
			if e.G.IsFalse() {
				continue
			}
			c, ok := e.V.(ast.Value)
			if !e.G.IsTrue() || !ok {
				return v
			}
			ts = append(ts, ast.NewTerm(c))
		}
		return ast.NewArray(ts...)
	case *SSet:
		s := ast.NewSet()
		for _, e := range x.Elems {
			if e.G.IsFalse() {
				continue
			}
			c, ok := e.V.(ast.Value)
			if !e.G.IsTrue() || !ok {
				return v
			}
			s.Add(ast.NewTerm(c))
		}
		return s
	}
	return v
}

// elemsOfArray returns the guarded elements of any array-like value.
func elemsOfArray(v Val) ([]Alt, bool) {
	switch x := v.(type) {
	case *ast.Array:
		out := make([]Alt, x.Len())
		for i := 0; i < x.Len(); i++ {
			out[i] = Alt{smt.True, x.Elem(i).Value}
		}
		return out, true
	case *SArr:
		return x.Elems, true
	}
	return nil, false
}

func elemsOfSet(v Val) ([]Alt, bool) {
	switch x := v.(type) {
	case ast.Set:
		var out []Alt
		for _, t := range x.Slice() {
			out = append(out, Alt{smt.True, t.Value})
		}
		return out, true
	case *SSet:
		return x.Elems, true
	}
	return nil, false
}

// valEqual: concrete structural equality / identity of symbolic structures.
func valEqual(a, b Val) bool {
	ca, ok1 := a.(ast.Value)
	cb, ok2 := b.(ast.Value)
	if ok1 && ok2 {
		return ast.Compare(ca, cb) == 0
	}
	if ok1 != ok2 {
		// a guarded collection with constant guards may equal a concrete one
		a2, b2 := concretizeIfPossible(a), concretizeIfPossible(b)
		ca, ok1 = a2.(ast.Value)
		cb, ok2 = b2.(ast.Value)
		if ok1 && ok2 {
			return ast.Compare(ca, cb) == 0
		}
		return false
	}
	return keyOf(a) == keyOf(b)
}

// describe renders a value for samples and diagnostics.
func describe(v Val) string {
	switch x := v.(type) {
	case ast.Value:
		return x.String()
	case *SObj:
		if id, ok := x.Fields["@id"]; ok && len(id) == 1 {
			return "node(" + describe(id[0].V) + ")"
		}
		return fmt.Sprintf("sobj#%d", x.id)
	case *SArr:
		var p []string
		for _, e := range x.Elems {
			p = append(p, describe(e.V))
		}
		return "[?" + strings.Join(p, ",") + "]"
	case *SSet:
		var p []string
		for _, e := range x.Elems {
			p = append(p, describe(e.V))
		}
		sort.Strings(p)
		return "{?" + strings.Join(p, ",") + "}"
	case *SCount:
		return "count(" + x.T.String() + ")"
	case *Opaque:
		return "<" + x.Tag + ">"
	}
	return fmt.Sprint(v)
}

const cw = 16 // width of count terms

func countConst(n int) *smt.Term { return smt.BV(uint64(int64(n)), cw) }

// countOf: number of members of a guarded collection as a term.
func countOf(elems []Alt) *smt.Term {
	t := countConst(0)
	for _, e := range elems {
		t = smt.BvBin(smt.OpBvAdd, t, smt.Ite(e.G, countConst(1), countConst(0)))
	}
	return t
}
