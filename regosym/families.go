package regosym

import (
	"encoding/json"
	"fmt"
	"regexp"
	"sort"

	"github.com/open-policy-agent/opa/ast"
)

func str(s string) ast.Value { return ast.String(s) }
func num(n int) ast.Value    { return ast.IntNumberTerm(n).Value }

func P(i int) Path    { return PProp{Pred: i} }
func Pinv(i int) Path { return PProp{Pred: i, Inverse: true} }

func walkPaths(f Formula, visit func(Path)) {
	switch x := f.(type) {
	case Rego:
		visit(P(1)) // the embedded snippets of the families mention p0 and p1
	case Atom:
		visit(x.Path)
		if x.Other != nil {
			visit(x.Other)
		}
	case Not:
		walkPaths(x.F, visit)
	case And:
		for _, k := range x.Fs {
			walkPaths(k, visit)
		}
	case PC:
		for _, k := range x.Fs {
			walkPaths(k, visit)
		}
	case Or:
		for _, k := range x.Fs {
			walkPaths(k, visit)
		}
	case If:
		walkPaths(x.C, visit)
		walkPaths(x.T, visit)
		if x.E != nil {
			walkPaths(x.E, visit)
		}
	case Nested:
		visit(x.Path)
		walkPaths(x.F, visit)
	case Quant:
		visit(x.Path)
		walkPaths(x.F, visit)
	}
}

func walkAtoms(f Formula, visit func(Atom)) {
	switch x := f.(type) {
	case Atom:
		visit(x)
	case Not:
		walkAtoms(x.F, visit)
	case And:
		for _, k := range x.Fs {
			walkAtoms(k, visit)
		}
	case PC:
		for _, k := range x.Fs {
			walkAtoms(k, visit)
		}
	case Or:
		for _, k := range x.Fs {
			walkAtoms(k, visit)
		}
	case If:
		walkAtoms(x.C, visit)
		walkAtoms(x.T, visit)
		if x.E != nil {
			walkAtoms(x.E, visit)
		}
	case Nested:
		walkAtoms(x.F, visit)
	case Quant:
		walkAtoms(x.F, visit)
	}
}

func maxPred(p Path) int {
	switch x := p.(type) {
	case PProp:
		return x.Pred
	case PSeq:
		m := 0
		for _, k := range x.Parts {
			if v := maxPred(k); v > m {
				m = v
			}
		}
		return m
	case PAlt:
		m := 0
		for _, k := range x.Parts {
			if v := maxPred(k); v > m {
				m = v
			}
		}
		return m
	}
	return 0
}

// ScopeFor derives the finite scope of a program: predicates and classes it mentions and a
// literal pool built from its constants (each constant, its neighbours, a value that does
// and one that does not satisfy each pattern / enumeration).
func ScopeFor(p Program, n, slots int, maxScalars int) Scope {
	sc := Scope{N: n, Slots: slots, Dangling: true}
	preds, classes := 0, 0
	pool := map[string]ast.Value{}
	add := func(v ast.Value) { pool[v.String()] = v }
	for _, v := range p.Validations {
		if v.Class+1 > classes {
			classes = v.Class + 1
		}
		walkPaths(v.F, func(pt Path) {
			if m := maxPred(pt) + 1; m > preds {
				preds = m
			}
		})
		walkAtoms(v.F, func(a Atom) {
			switch a.Kind {
			case "minLength", "maxLength", "exactLength":
				for _, l := range []int{a.N - 1, a.N, a.N + 1} {
					if l >= 0 {
						s := ""
						for k := 0; k < l; k++ {
							s += "x"
						}
						add(str(s))
					}
				}
			case "pattern":
				re := regexp.MustCompile(a.Pattern)
				gotT, gotF := false, false
				for _, cand := range []string{"a", "b", "ab", "ba", "", "1", "aa", "xyz"} {
					m := re.MatchString(cand)
					if m && !gotT {
						add(str(cand))
						gotT = true
					}
					if !m && !gotF {
						add(str(cand))
						gotF = true
					}
				}
			case "minInclusive", "minExclusive", "maxInclusive", "maxExclusive":
				if a.Bound != "" {
					// the bound itself, its neighbours within the printed precision and beyond it
					add(ast.Number(json.Number(a.Bound)))
					for _, nb := range floatNeighbours[a.Bound] {
						add(ast.Number(json.Number(nb)))
					}
					break
				}
				add(num(a.N - 1))
				add(num(a.N))
				add(num(a.N + 1))
			case "in", "containsAll", "containsSome":
				for _, x := range a.Values {
					add(x)
				}
				if len(a.Values) == 0 {
					// no members: the empty string is the value an implementation may confuse with "nothing"
					add(str(""))
					add(str("a"))
					break
				}
				switch a.Values[0].(type) {
				case ast.String:
					add(str("zz"))
				case ast.Number:
					add(num(77))
					if a.FloatData || hasNonInteger(a.Values) {
						add(ast.Number(json.Number("2.5")))
					}
				}
			case "datatype":
				add(str("s"))
				add(num(3))
				add(ast.Boolean(true))
			case "lessThanProperty", "lessThanOrEqualsToProperty", "equalsToProperty", "disjointWithProperty":
				add(num(1))
				add(num(2))
			}
		})
	}
	if len(pool) == 0 {
		add(str("a"))
		add(str("b"))
	}
	var keys []string
	for k := range pool {
		keys = append(keys, k)
	}
	sort.Strings(keys)
	for _, k := range keys {
		if len(sc.Scalars) < maxScalars {
			sc.Scalars = append(sc.Scalars, pool[k])
		}
	}
	if preds == 0 {
		preds = 1
	}
	for i := 0; i < preds; i++ {
		sc.Preds = append(sc.Preds, PredIRI(i))
	}
	if classes == 0 {
		classes = 1
	}
	// one class beyond those mentioned, so that "not an instance" has two forms
	for i := 0; i <= classes; i++ {
		sc.Classes = append(sc.Classes, ClassIRI(i))
	}
	return sc
}

func one(name string, f Formula) Program {
	return Program{Name: "P", Validations: []Validation{{Name: name, Level: "violation", Class: 0, F: f}}}
}

// Atoms is the catalogue of documented atomic constraints (tutorial §2–§3).
func Atoms() []Atom {
	return []Atom{
		{Path: P(0), Kind: "minCount", N: 1}, {Path: P(0), Kind: "minCount", N: 2}, {Path: P(0), Kind: "maxCount", N: 1}, {Path: P(0), Kind: "maxCount", N: 0},
		{Path: P(0), Kind: "exactCount", N: 1},
		{Path: P(0), Kind: "minLength", N: 2}, {Path: P(0), Kind: "maxLength", N: 2}, {Path: P(0), Kind: "exactLength", N: 2},
		{Path: P(0), Kind: "pattern", Pattern: "^a"},
		{Path: P(0), Kind: "in", Values: []ast.Value{str("a"), str("b")}}, {Path: P(0), Kind: "in", Values: []ast.Value{num(1), num(2)}},
		{Path: P(0), Kind: "containsAll", Values: []ast.Value{str("a"), str("b")}}, {Path: P(0), Kind: "containsSome", Values: []ast.Value{str("a"), str("b")}},
		{Path: P(0), Kind: "minInclusive", N: 5}, {Path: P(0), Kind: "minExclusive", N: 5}, {Path: P(0), Kind: "maxInclusive", N: 5}, {Path: P(0), Kind: "maxExclusive", N: 5},
		{Path: P(0), Kind: "datatype", Type: "string"}, {Path: P(0), Kind: "datatype", Type: "integer"}, {Path: P(0), Kind: "datatype", Type: "boolean"},
		{Path: P(0), Kind: "lessThanProperty", Other: P(1)}, {Path: P(0), Kind: "lessThanOrEqualsToProperty", Other: P(1)},
		{Path: P(0), Kind: "equalsToProperty", Other: P(1)}, {Path: P(0), Kind: "disjointWithProperty", Other: P(1)},
	}
}

func mc(p int) Formula { return Atom{Path: P(p), Kind: "minCount", N: 1} }

// FamilyBoundaries: count and length constraints whose bound is zero (always or almost always
// satisfied: an implementation may be tempted to skip them), alone in their validation and as the
// whole body of a quantified / nested validation.
func FamilyBoundaries() []Program {
	var out []Program
	for _, a := range []Atom{
		{Path: P(0), Kind: "minCount", N: 0}, {Path: P(0), Kind: "minLength", N: 0}, {Path: P(0), Kind: "maxLength", N: 0},
		{Path: P(0), Kind: "exactLength", N: 0}, {Path: P(0), Kind: "exactCount", N: 0}, {Path: P(0), Kind: "minInclusive", N: 0}, {Path: P(0), Kind: "maxExclusive", N: 0},
	} {
		inner := a
		inner.Path = P(1)
		out = append(out,
			one("v", And{[]Formula{a}}),
			one("v", Nested{P(0), And{[]Formula{inner}}}),
			one("v", Quant{P(0), true, 0, And{[]Formula{inner}}}),
			one("v", Quant{P(0), false, 0, And{[]Formula{inner}}}),
		)
	}
	return out
}

// floatNeighbours: data values around each non-integer bound of FamilyFloatBounds - closer to the
// bound than six decimals can tell apart, and clearly on either side.
var floatNeighbours = map[string][]string{
	"1.0000004": {"1.0000002", "1.0000006", "1"},
	"2.5":       {"2", "3", "2.4999999"},
	"0.1":       {"0.0999999", "0.1000001", "0"},
	"-3.25":     {"-3.2500001", "-3.2499999", "-3"},
	// integers a 64-bit float cannot tell apart
	"9007199254740993": {"9007199254740992", "9007199254740994", "9007199254740995"},
}

// FamilyFloatBounds: value ranges whose bound is not an integer, among them bounds that need more
// than six decimals; data values sit on both sides of the bound and on it.
func FamilyFloatBounds(thorough bool) []Program {
	var out []Program
	bounds := []string{"1.0000004", "2.5", "9007199254740993"}
	if thorough {
		bounds = append(bounds, "0.1", "-3.25")
	}
	for _, b := range bounds {
		for _, k := range []string{"minInclusive", "minExclusive", "maxInclusive", "maxExclusive"} {
			a := Atom{Path: P(0), Kind: k, Bound: b}
			out = append(out, one("v", And{[]Formula{a}}))
			if thorough {
				out = append(out, one("v", Not{And{[]Formula{a}}}))
			}
		}
	}
	return out
}

// FamilyFloatSets: membership in a set of numbers where the set or the data holds numbers that
// are not integers.
func FamilyFloatSets(thorough bool) []Program {
	f := func(s string) ast.Value { return ast.Number(json.Number(s)) }
	a := Atom{Path: P(0), Kind: "in", Values: []ast.Value{f("1.5"), num(2)}}
	b := Atom{Path: P(0), Kind: "in", Values: []ast.Value{num(1), num(2)}, FloatData: true}
	out := []Program{one("v", And{[]Formula{a}}), one("v", And{[]Formula{b}})}
	if thorough {
		out = append(out, one("v", Not{And{[]Formula{a}}}), one("v", Not{And{[]Formula{b}}}))
	}
	return out
}

// FamilySpecialValues: set constraints whose values need escaping in the generated code (double
// quote, backslash), alone, negated, and as the condition of an if-then-else - the one place where
// one and the same parsed constraint is translated twice.
func FamilySpecialValues(thorough bool) []Program {
	q, b := str(`say "hi"`), str(`C:\temp`)
	atoms := []Atom{
		{Path: P(0), Kind: "in", Values: []ast.Value{q, b}},
		{Path: P(0), Kind: "containsSome", Values: []ast.Value{b, q}},
	}
	if thorough {
		atoms = append(atoms, Atom{Path: P(0), Kind: "containsAll", Values: []ast.Value{q}}, Atom{Path: P(0), Kind: "in", Values: []ast.Value{b}})
	}
	// a long list (more than sixteen members) one of which holds a comma and a blank
	long := []ast.Value{str("Doe, John")}
	for k := 0; k < 20; k++ {
		long = append(long, str(fmt.Sprintf("v%02d", k)))
	}
	var out []Program
	out = append(out, one("v", And{[]Formula{Atom{Path: P(0), Kind: "in", Values: long}}}), one("v", And{[]Formula{Atom{Path: P(0), Kind: "containsSome", Values: long}}}))
	for _, a := range atoms {
		out = append(out,
			one("v", And{[]Formula{a}}),
			one("v", If{C: And{[]Formula{a}}, T: mc(1), E: mc(2)}),
		)
		if thorough {
			out = append(out,
				one("v", Not{And{[]Formula{a}}}),
				one("v", If{C: mc(1), T: And{[]Formula{a}}, E: Not{And{[]Formula{a}}}}),
				one("v", And{[]Formula{a, Or{[]Formula{And{[]Formula{a}}, mc(1)}}}}),
			)
		}
	}
	return out
}

// FamilyEmptySets: set constraints written with an empty list of values.
func FamilyEmptySets() []Program {
	var out []Program
	for _, k := range []string{"in", "containsAll", "containsSome"} {
		a := Atom{Path: P(0), Kind: k, Values: []ast.Value{}}
		out = append(out, one("v", And{[]Formula{a}}))
	}
	out = append(out, one("v", Or{[]Formula{And{[]Formula{Atom{Path: P(0), Kind: "in", Values: []ast.Value{}}}}, mc(1)}}))
	return out
}

// FamilyAtoms: every documented atom alone, under not, as operand of or and as the
// condition / consequence of if-then.
func FamilyAtoms(thorough bool) []Program {
	var out []Program
	for _, a := range Atoms() {
		other := mc(2)
		out = append(out, one("v", And{[]Formula{a}}))
		out = append(out, one("v", Not{And{[]Formula{a}}}))
		out = append(out, one("v", Or{[]Formula{And{[]Formula{a}}, other}}))
		out = append(out, one("v", If{C: other, T: And{[]Formula{a}}}))
		if thorough {
			out = append(out, one("v", If{C: And{[]Formula{a}}, T: other}))
			out = append(out, one("v", Or{[]Formula{Not{And{[]Formula{a}}}, other}}))
			out = append(out, one("v", If{C: other, T: And{[]Formula{a}}, E: Not{And{[]Formula{a}}}}))
		}
	}
	return out
}

// FamilyGrouped: several constraints in ONE propertyConstraints block - on one property (a range of
// counts, two quantifiers, a quantifier next to nested, length and value ranges) and on several
// properties - alone, negated and as an operand of or. This is how profiles are usually written;
// the other families spell conjunctions with an explicit and.
func FamilyGrouped(thorough bool) []Program {
	in1 := And{[]Formula{mc(1)}}
	groups := []PC{
		{[]Formula{Quant{P(0), true, 1, in1}, Quant{P(0), false, 1, in1}}},
		{[]Formula{Quant{P(0), false, 1, in1}, Quant{P(0), true, 1, in1}}},
		{[]Formula{Quant{P(0), true, 1, in1}, Nested{P(0), And{[]Formula{mc(2)}}}}},
		{[]Formula{Atom{Path: P(0), Kind: "minCount", N: 1}, Atom{Path: P(0), Kind: "maxCount", N: 1}}},
		{[]Formula{Atom{Path: P(0), Kind: "minCount", N: 1}, Atom{Path: P(1), Kind: "minCount", N: 1}}},
		{[]Formula{Atom{Path: P(0), Kind: "minCount", N: 1}, Atom{Path: P(0), Kind: "pattern", Pattern: "^a"}, Atom{Path: P(1), Kind: "maxCount", N: 0}}},
		{[]Formula{Atom{Path: P(0), Kind: "minLength", N: 2}, Atom{Path: P(0), Kind: "maxLength", N: 2}}},
		{[]Formula{Atom{Path: P(0), Kind: "minInclusive", N: 5}, Atom{Path: P(0), Kind: "maxExclusive", N: 6}}},
		{[]Formula{Atom{Path: P(0), Kind: "in", Values: []ast.Value{str("a"), str("b")}}, Atom{Path: P(0), Kind: "maxCount", N: 1}, Nested{P(1), in1}}},
		{[]Formula{Atom{Path: P(0), Kind: "minCount", N: 1}, Atom{Path: P(0), Kind: "lessThanProperty", Other: P(1)}}},
	}
	var out []Program
	for _, g := range groups {
		out = append(out, one("v", g))
		out = append(out, one("v", Not{g}))
		if thorough {
			out = append(out, one("v", Or{[]Formula{g, mc(3)}}))
			out = append(out, one("v", If{C: mc(3), T: g}))
			out = append(out, one("v", Nested{P(9), g}))
		}
	}
	return out
}

// FamilyQuantified: nested / atLeast / atMost around small inner formulas, in positive and
// negative contexts.
func FamilyQuantified(thorough bool) []Program {
	var out []Program
	inners := []Formula{mc(1), Not{mc(1)}}
	// inner formulas that expand to several failure branches
	multi := []Formula{
		Or{[]Formula{And{[]Formula{mc(1), mc(2)}}, mc(3)}}, And{[]Formula{Or{[]Formula{mc(1), mc(2)}}, mc(3)}}, Not{And{[]Formula{mc(1), mc(2)}}},
		If{C: mc(1), T: And{[]Formula{mc(2), mc(3)}}}, If{C: Or{[]Formula{mc(1), mc(2)}}, T: mc(3)}, If{C: mc(1), T: mc(2), E: mc(3)},
	}
	for _, in := range multi {
		for _, q := range []Formula{Nested{P(0), in}, Quant{P(0), true, 1, in}, Quant{P(0), false, 1, in}} {
			out = append(out, one("v", q))
			if thorough {
				out = append(out, one("v", Not{q}))
			}
		}
	}
	if thorough {
		for _, sk := range FamilySkeletons(2) {
			in := sk.Validations[0].F
			// shift the atoms away from the traversal predicate p0
			out = append(out, one("v", Nested{P(9), in}))
		}
	}
	if thorough {
		inners = append(inners, And{[]Formula{mc(1), mc(2)}}, Or{[]Formula{mc(1), mc(2)}}, Nested{P(1), mc(2)}, Atom{Path: P(1), Kind: "pattern", Pattern: "^a"})
	}
	var quants []func(Formula) Formula
	quants = append(quants, func(f Formula) Formula { return Nested{P(0), f} })
	for n := 0; n <= 2; n++ {
		n := n
		quants = append(quants, func(f Formula) Formula { return Quant{P(0), true, n, f} })
		quants = append(quants, func(f Formula) Formula { return Quant{P(0), false, n, f} })
	}
	for _, q := range quants {
		for _, in := range inners {
			f := q(in)
			out = append(out, one("v", f))
			out = append(out, one("v", Not{f}))
			if thorough {
				out = append(out, one("v", Or{[]Formula{f, mc(2)}}))
				out = append(out, one("v", Or{[]Formula{Not{f}, mc(2)}}))
				out = append(out, one("v", If{C: mc(2), T: f}))
			}
		}
	}
	return out
}

// FamilySkeletons: every connective skeleton up to the depth over minCount atoms, as YAML
// (re-checks the propositional layer through the YAML parser and the emitted Rego).
func FamilySkeletons(depth int) []Program {
	var gen func(d int, next *int) []func() (Formula, int)
	_ = gen
	var build func(d int, atom int) []struct {
		f Formula
		n int
	}
	build = func(d int, atom int) []struct {
		f Formula
		n int
	} {
		type fn = struct {
			f Formula
			n int
		}
		res := []fn{{mc(atom), atom + 1}}
		if d == 0 {
			return res
		}
		for _, a := range build(d-1, atom) {
			res = append(res, fn{Not{a.f}, a.n})
			for _, b := range build(d-1, a.n) {
				res = append(res, fn{And{[]Formula{a.f, b.f}}, b.n})
				res = append(res, fn{Or{[]Formula{a.f, b.f}}, b.n})
				res = append(res, fn{If{C: a.f, T: b.f}, b.n})
				for _, c := range build(d-1, b.n) {
					res = append(res, fn{If{C: a.f, T: b.f, E: c.f}, c.n})
				}
			}
		}
		return res
	}
	var out []Program
	for _, x := range build(depth, 0) {
		out = append(out, one("v", x.f))
	}
	return out
}

// ---- path family (C02) ---------------------------------------------------------------------

// PathShapes enumerates path expressions with at most maxOcc predicate occurrences over
// nPreds predicates: any mix of / | ^ and parentheses; @type only as the last step.
func PathShapes(maxOcc, nPreds int, withType bool) []Path {
	type item struct {
		p   Path
		occ int
	}
	var atoms []item
	for i := 0; i < nPreds; i++ {
		atoms = append(atoms, item{P(i), 1}, item{Pinv(i), 1})
	}
	memo := map[int][]item{}
	var exprs func(n int) []item // expressions with exactly n occurrences
	exprs = func(n int) []item {
		if r, ok := memo[n]; ok {
			return r
		}
		var res []item
		if n == 1 {
			res = append(res, atoms...)
		}
		// binary splits, NOT flattened: "a | (b | c)" and "(a | b) | c" are distinct spellings
		// that the parser turns into nested alternatives / sequences
		for k := 1; k < n; k++ {
			for _, a := range exprs(k) {
				for _, b := range exprs(n - k) {
					res = append(res, item{PSeq{[]Path{a.p, b.p}}, n})
					res = append(res, item{PAlt{[]Path{a.p, b.p}}, n})
				}
			}
		}
		// flat n-ary forms "a / b / c", "a | b | c"
		if n >= 3 {
			var flat func(k int, cur []Path)
			flat = func(k int, cur []Path) {
				if k == n {
					res = append(res, item{PSeq{append([]Path{}, cur...)}, n}, item{PAlt{append([]Path{}, cur...)}, n})
					return
				}
				for _, a := range atoms {
					flat(k+1, append(cur, a.p))
				}
			}
			flat(0, nil)
		}
		memo[n] = res
		return res
	}
	var out []Path
	seen := map[string]bool{}
	for n := 1; n <= maxOcc; n++ {
		for _, e := range exprs(n) {
			s := PathString(e.p)
			if seen[s] {
				continue
			}
			seen[s] = true
			out = append(out, e.p)
			if withType && n < maxOcc {
				if sq, ok := e.p.(PSeq); ok {
					out = append(out, PSeq{append(append([]Path{}, sq.Parts...), PType{})})
				} else {
					out = append(out, PSeq{[]Path{e.p, PType{}}})
				}
			}
		}
	}
	return out
}

// homogeneousLast: the alternatives of the last step are all forward or all inverse (a raw
// reference value and the node it denotes are different representations of one thing).
func LastKinds(p Path) (fwd, inv bool) { return lastKinds(p) }

func lastKinds(p Path) (fwd, inv bool) {
	switch x := p.(type) {
	case PProp:
		return !x.Inverse, x.Inverse
	case PType:
		return true, false
	case PSeq:
		return lastKinds(x.Parts[len(x.Parts)-1])
	case PAlt:
		for _, k := range x.Parts {
			f, i := lastKinds(k)
			fwd, inv = fwd || f, inv || i
		}
	}
	return
}

func Homogeneous(p Path) bool {
	f, i := lastKinds(p)
	return !(f && i)
}

func (p Program) String() string { return fmt.Sprint(DescribeProgram(p)) }

// Occurrences counts predicate occurrences of a path.
func Occurrences(p Path) int {
	switch x := p.(type) {
	case PProp:
		return 1
	case PSeq:
		n := 0
		for _, k := range x.Parts {
			n += Occurrences(k)
		}
		return n
	case PAlt:
		n := 0
		for _, k := range x.Parts {
			n += Occurrences(k)
		}
		return n
	}
	return 0
}

// FamilyLevels: every assignment of up to three validations to {violation, warning, info,
// defined-but-unlisted} plus listed-but-undefined names and empty levels.
func FamilyLevels() []Program {
	levels := []string{"violation", "warning", "info", ""}
	var out []Program
	// a validation may be listed under several levels: it then reports at each of them
	for _, multi := range []string{"violation+warning", "warning+info", "violation+warning+info", "info+violation"} {
		out = append(out, Program{Name: "P", Validations: []Validation{
			{Name: "va", Level: multi, Class: 0, F: And{[]Formula{mc(0)}}},
			{Name: "vb", Level: "warning", Class: 0, F: And{[]Formula{Atom{Path: P(0), Kind: "maxCount", N: 0}}}},
		}})
	}
	for a := 0; a < 4; a++ {
		for b := 0; b < 4; b++ {
			for c := -1; c < 4; c++ {
				vs := []Validation{
					{Name: "va", Level: levels[a], Class: 0, F: And{[]Formula{mc(0)}}},
					{Name: "vb", Level: levels[b], Class: 0, F: And{[]Formula{Atom{Path: P(0), Kind: "maxCount", N: 0}}}},
				}
				if c >= 0 {
					vs = append(vs, Validation{Name: "vc", Level: levels[c], Class: 1, F: And{[]Formula{mc(1)}}})
				}
				// the profile's name is data too: plain, and with the characters the translator must protect
				names := []string{"P", `Team "blue" API rules`, `a\b 100% {x} it's`, "Validación é 漢"}
				p := Program{Name: names[(a+2*b+c+1)%len(names)], Validations: vs}
				if (a+b+c)%3 == 0 {
					p.Undefined = []string{"warning:ghost"}
				}
				out = append(out, p)
			}
		}
	}
	return out
}

// MessagePool: values a placeholder may have to show.
func MessagePool() []ast.Value {
	return []ast.Value{str("it's 5% \"x\""), num(42), ast.Boolean(true), ast.Number("1.5")}
}

// MessagePoolFalsy: the values a truth test takes for "no value" - false, 0, the empty string - and an
// ordinary one.
func MessagePoolFalsy() []ast.Value {
	return []ast.Value{ast.Boolean(false), num(0), str(""), str("x")}
}

// FamilyVariableIndex: the nested-in-nested constraint whose outer quantified variable is the
// k-th variable of its validation (k-1 always-true nested constraints come first), so that every
// name the variable generator hands out is exercised as an enclosing scope of generated code.
func FamilyVariableIndex(ks []int) []Program {
	var out []Program
	for _, k := range ks {
		var fs []Formula
		for d := 1; d < k; d++ {
			fs = append(fs, Nested{P(d + 1), And{[]Formula{Atom{Path: P(0), Kind: "minCount", N: 0}}}})
		}
		fs = append(fs, Nested{P(0), And{[]Formula{Nested{P(1), And{[]Formula{mc(0)}}}}}})
		out = append(out, one("v", And{fs}))
	}
	return out
}

// FamilyNestedAtoms: every documented atom below a quantifier, in positive and negative positions.
func FamilyNestedAtoms(thorough bool) []Program {
	var out []Program
	for i, a := range Atoms() {
		if !thorough && i%2 == 1 {
			continue
		}
		a.Path = P(1)
		if a.Other != nil {
			a.Other = P(2)
		}
		in := And{[]Formula{a}}
		out = append(out, one("v", Nested{P(0), in}))
		out = append(out, one("v", Not{Nested{P(0), in}}))
		out = append(out, one("v", Nested{P(0), Not{in}}))
		if thorough {
			out = append(out, one("v", Quant{P(0), true, 1, in}))
			out = append(out, one("v", Quant{P(0), false, 1, Not{in}}))
		}
	}
	return out
}

// FamilyAtomPaths: atoms applied to composite paths (sequence, alternative, inverse, @type).
func FamilyAtomPaths(thorough bool) []Program {
	paths := []Path{PSeq{[]Path{P(0), P(1)}}, PAlt{[]Path{P(0), P(1)}}, Pinv(0), PSeq{[]Path{P(0), PAlt{[]Path{P(1), Pinv(1)}}}}}
	var out []Program
	kinds := map[string]bool{"minCount": true, "maxCount": true, "exactCount": true, "pattern": true, "in": true, "containsAll": true, "minInclusive": true}
	for _, a := range Atoms() {
		if !kinds[a.Kind] {
			continue
		}
		for j, pt := range paths {
			if !thorough && j%2 == 1 {
				continue
			}
			b := a
			b.Path = pt
			out = append(out, one("v", And{[]Formula{b}}))
		}
	}
	out = append(out, one("v", And{[]Formula{Atom{Path: PSeq{[]Path{P(0), PType{}}}, Kind: "in", Values: []ast.Value{str(ClassIRI(0))}}}}))
	out = append(out, one("v", And{[]Formula{Atom{Path: PType{}, Kind: "maxCount", N: 1}}}))
	return out
}

// FamilyLocations: a few programs whose results carry traces, nested sub-results and several
// branches (the location obligations do not depend on the constraint kinds).
func FamilyLocations(thorough bool) []Program {
	out := []Program{
		one("v", And{[]Formula{mc(0)}}),
		one("v", And{[]Formula{Atom{Path: P(0), Kind: "pattern", Pattern: "^a"}, Atom{Path: P(1), Kind: "maxCount", N: 0}}}),
		one("v", Or{[]Formula{And{[]Formula{mc(0)}}, And{[]Formula{mc(1)}}}}),
		one("v", Nested{P(0), And{[]Formula{mc(1)}}}),
		one("v", Quant{P(0), true, 1, And{[]Formula{mc(1)}}}),
		one("v", Not{Nested{P(0), And{[]Formula{mc(1)}}}}),
	}
	// embedded Rego that points its own trace at another node ($traceNode), next to a declarative
	// constraint in the same branch: the declarative trace stays about the focus node
	redirect := Rego{Code: fmt.Sprintf("linked = nodes_array with data.nodes as object.get($node, %q, [])\nother = find with data.link as linked[_]\n$traceNode = other\n$result = false", PredIRI(0))}
	out = append(out,
		one("v", Or{[]Formula{redirect, And{[]Formula{mc(1)}}}}),
		one("v", Or{[]Formula{And{[]Formula{mc(1)}}, redirect}}),
	)
	if thorough {
		out = append(out,
			one("v", Quant{P(0), false, 0, And{[]Formula{mc(1)}}}),
			one("v", Nested{P(0), Nested{P(1), And{[]Formula{mc(0)}}}}),
			one("v", If{C: And{[]Formula{mc(0)}}, T: And{[]Formula{mc(1)}}, E: And{[]Formula{Atom{Path: P(1), Kind: "maxCount", N: 0}}}}),
			Program{Name: "P", Validations: []Validation{{Name: "va", Level: "warning", Class: 0, F: And{[]Formula{mc(0)}}}, {Name: "vb", Level: "info", Class: 1, F: And{[]Formula{mc(1)}}}}},
		)
	}
	return out
}
