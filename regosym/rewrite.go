package regosym

import (
	"fmt"
	"sort"
	"strings"
	"time"

	"github.com/open-policy-agent/opa/ast"

	"verif/smt"
)

// ---- a tiny YAML tree, rendered in several surface styles -------------------------------

type YNode struct {
	Kind    string // map | list | scalar
	Keys    []string
	Vals    []*YNode
	Items   []*YNode
	Text    string
	IsStr   bool // scalar that must stay a string
	Comment string
}

func ymap() *YNode { return &YNode{Kind: "map"} }
func (n *YNode) put(k string, v *YNode) *YNode {
	n.Keys = append(n.Keys, k)
	n.Vals = append(n.Vals, v)
	return n
}
func ystr(s string) *YNode         { return &YNode{Kind: "scalar", Text: s, IsStr: true} }
func yraw(s string) *YNode         { return &YNode{Kind: "scalar", Text: s} }
func ylist(items ...*YNode) *YNode { return &YNode{Kind: "list", Items: items} }

// Style controls the surface form.
type Style struct {
	Quote    string // "double" | "single" | "plain"
	Flow     bool   // flow style for leaf maps and lists
	Comments bool
	Indent   int
}

func (st Style) scalar(n *YNode) string {
	if !n.IsStr {
		return n.Text
	}
	plainOK := n.Text != "" && !strings.ContainsAny(n.Text, ":#{}[],&*!|>'\"%@`\\") && !strings.HasPrefix(n.Text, "-") && !strings.HasPrefix(n.Text, " ") && !strings.HasSuffix(n.Text, " ") &&
		n.Text != "true" && n.Text != "false" && n.Text != "null" && !isNumeric(n.Text)
	switch st.Quote {
	case "plain":
		if plainOK {
			return n.Text
		}
		return fmt.Sprintf("%q", n.Text)
	case "single":
		if !strings.ContainsAny(n.Text, "\\\n") {
			return "'" + strings.ReplaceAll(n.Text, "'", "''") + "'"
		}
	}
	return fmt.Sprintf("%q", n.Text)
}

func isNumeric(s string) bool {
	var f float64
	_, err := fmt.Sscan(s, &f)
	return err == nil
}

func (st Style) key(k string) string {
	if strings.ContainsAny(k, " |/()^@") || st.Quote == "double" {
		return fmt.Sprintf("%q", k)
	}
	if st.Quote == "single" {
		return "'" + k + "'"
	}
	return k
}

func (st Style) flow(n *YNode) string {
	switch n.Kind {
	case "scalar":
		return st.scalar(n)
	case "list":
		var p []string
		for _, it := range n.Items {
			p = append(p, st.flow(it))
		}
		return "[" + strings.Join(p, ", ") + "]"
	}
	var p []string
	for i, k := range n.Keys {
		p = append(p, st.key(k)+": "+st.flow(n.Vals[i]))
	}
	return "{" + strings.Join(p, ", ") + "}"
}

func leafy(n *YNode) bool {
	switch n.Kind {
	case "scalar":
		return true
	case "list":
		for _, it := range n.Items {
			if it.Kind != "scalar" {
				return false
			}
		}
		return true
	}
	for _, v := range n.Vals {
		if v.Kind != "scalar" && !(v.Kind == "list" && leafy(v)) {
			return false
		}
	}
	return true
}

func (st Style) render(n *YNode, ind string, sb *strings.Builder) {
	step := strings.Repeat(" ", st.Indent)
	switch n.Kind {
	case "map":
		for i, k := range n.Keys {
			v := n.Vals[i]
			if st.Comments && i%2 == 0 {
				sb.WriteString(ind + "# " + k + "\n")
			}
			switch {
			case v.Kind == "scalar":
				sb.WriteString(ind + st.key(k) + ": " + st.scalar(v) + "\n")
			case v.Kind == "list" && leafy(v):
				sb.WriteString(ind + st.key(k) + ": " + st.flow(v) + "\n")
			case st.Flow && leafy(v):
				sb.WriteString(ind + st.key(k) + ": " + st.flow(v) + "\n")
			default:
				sb.WriteString(ind + st.key(k) + ":\n")
				st.render(v, ind+step, sb)
			}
		}
	case "list":
		for _, it := range n.Items {
			if it.Kind == "scalar" {
				sb.WriteString(ind + "- " + st.scalar(it) + "\n")
				continue
			}
			var inner strings.Builder
			st.render(it, ind+"  ", &inner)
			s := inner.String()
			sb.WriteString(ind + "- " + strings.TrimPrefix(s, ind+"  "))
		}
	}
}

// ---- program -> YAML tree ---------------------------------------------------------------------

type RewriteOpts struct {
	Prefix      string // name used for the example namespace
	AltPrefix   string // second prefix bound to the same namespace, used for odd predicates ("" = none)
	Reverse     bool   // reverse every mapping, level list and and/or operand list
	Rotate      bool   // rotate instead
	Style       Style
	Description string
}

// message renames the prefix inside the placeholders; with a second prefix bound to the same
// namespace every other placeholder occurrence is written with it.
func (o RewriteOpts) message(m string) string {
	parts := strings.Split(m, "{{ex.")
	out := parts[0]
	for k, p := range parts[1:] {
		px := o.Prefix
		if o.AltPrefix != "" && k%2 == 1 {
			px = o.AltPrefix
		}
		out += "{{" + px + "." + p
	}
	return out
}

func (o RewriteOpts) pred(i int) string {
	if o.AltPrefix != "" && i%2 == 1 {
		return o.AltPrefix + "." + predLocal(i)
	}
	return o.Prefix + "." + predLocal(i)
}

func (o RewriteOpts) path(p Path, top bool) string {
	switch x := p.(type) {
	case PProp:
		if x.Inverse {
			return o.pred(x.Pred) + "^"
		}
		return o.pred(x.Pred)
	case PType:
		return "@type"
	case PSeq:
		var parts []string
		for _, k := range x.Parts {
			parts = append(parts, o.path(k, false))
		}
		s := strings.Join(parts, " / ")
		if !top {
			return "(" + s + ")"
		}
		return s
	case PAlt:
		var parts []string
		for _, k := range x.Parts {
			parts = append(parts, o.path(k, false))
		}
		s := strings.Join(parts, " | ")
		if !top {
			return "(" + s + ")"
		}
		return s
	}
	return "?"
}

func (o RewriteOpts) order(n int) []int {
	idx := make([]int, n)
	for i := range idx {
		idx[i] = i
	}
	if o.Reverse {
		for i := range idx {
			idx[i] = n - 1 - i
		}
	} else if o.Rotate && n > 1 {
		for i := range idx {
			idx[i] = (i + 1) % n
		}
	}
	return idx
}

func (o RewriteOpts) atomArg(a Atom) *YNode {
	switch a.Kind {
	case "pattern":
		return ystr(a.Pattern)
	case "in", "containsAll", "containsSome":
		var items []*YNode
		for _, i := range o.order(len(a.Values)) {
			v := a.Values[i]
			if s, ok := v.(ast.String); ok {
				items = append(items, ystr(string(s)))
			} else {
				items = append(items, yraw(v.String()))
			}
		}
		return ylist(items...)
	case "datatype":
		return ystr("xsd." + a.Type)
	case "lessThanProperty", "lessThanOrEqualsToProperty", "equalsToProperty", "disjointWithProperty":
		return ystr(o.path(a.Other, true))
	}
	return yraw(fmt.Sprint(a.N))
}

// body renders a formula; a conjunction of atoms / nested / quantified constraints becomes ONE
// propertyConstraints mapping (several paths, several facets per path) so that key order matters.
func (o RewriteOpts) body(f Formula) *YNode {
	m := ymap()
	switch x := f.(type) {
	case Rego:
		if x.Message != "" {
			return m.put("rego", ymap().put("message", ystr(x.Message)).put("code", ystr(x.Code)))
		}
		return m.put("rego", ystr(x.Code))
	case Atom, Nested, Quant:
		return o.body(And{[]Formula{x}})
	case PC:
		return o.body(And{x.Fs})
	case And:
		groupable := true
		for _, k := range x.Fs {
			switch k.(type) {
			case Atom, Nested, Quant:
			default:
				groupable = false
			}
		}
		if groupable {
			pc := ymap()
			byPath := map[string]*YNode{}
			var order []string
			for _, k := range x.Fs {
				var pth Path
				var key string
				var val *YNode
				switch a := k.(type) {
				case Atom:
					pth, key, val = a.Path, a.Kind, o.atomArg(a)
				case Nested:
					pth, key, val = a.Path, "nested", o.body(a.F)
				case Quant:
					pth = a.Path
					key = "atMost"
					if a.Least {
						key = "atLeast"
					}
					val = ymap().put("count", yraw(fmt.Sprint(a.N))).put("validation", o.body(a.F))
				}
				ps := o.path(pth, true)
				if byPath[ps] == nil {
					byPath[ps] = ymap()
					order = append(order, ps)
				}
				byPath[ps].put(key, val)
			}
			for _, i := range o.order(len(order)) {
				c := byPath[order[i]]
				oc := ymap()
				for _, j := range o.order(len(c.Keys)) {
					oc.put(c.Keys[j], c.Vals[j])
				}
				pc.put(order[i], oc)
			}
			return m.put("propertyConstraints", pc)
		}
		var items []*YNode
		for _, i := range o.order(len(x.Fs)) {
			items = append(items, o.body(x.Fs[i]))
		}
		return m.put("and", ylist(items...))
	case Or:
		var items []*YNode
		for _, i := range o.order(len(x.Fs)) {
			items = append(items, o.body(x.Fs[i]))
		}
		return m.put("or", ylist(items...))
	case Not:
		return m.put("not", o.body(x.F))
	case If:
		pairs := [][2]any{{"if", x.C}, {"then", x.T}}
		if x.E != nil {
			pairs = append(pairs, [2]any{"else", x.E})
		}
		for _, i := range o.order(len(pairs)) {
			m.put(pairs[i][0].(string), o.body(pairs[i][1].(Formula)))
		}
		return m
	}
	panic("body")
}

// Render produces the profile text of a program under rewrite options.
func (o RewriteOpts) Render(p Program) string {
	if o.Prefix == "" {
		o.Prefix = "ex"
	}
	if o.Style.Indent == 0 {
		o.Style.Indent = 2
	}
	top := ymap()
	name := p.Name
	if name == "" {
		name = "P"
	}
	prefixes := ymap().put(o.Prefix, ystr(ExNS))
	if o.AltPrefix != "" {
		prefixes.put(o.AltPrefix, ystr(ExNS))
	}
	vals := ymap()
	for _, i := range o.order(len(p.Validations)) {
		v := p.Validations[i]
		vm := ymap()
		entries := [][2]any{{"targetClass", ystr(fmt.Sprintf("%s.C%d", o.Prefix, v.Class))}}
		if v.Message != "" {
			entries = append(entries, [2]any{"message", ystr(o.message(v.Message))})
		}
		b := o.body(v.F)
		for j := range b.Keys {
			entries = append(entries, [2]any{b.Keys[j], b.Vals[j]})
		}
		if v.Extra != nil {
			x := o.body(v.Extra)
			for j := range x.Keys {
				entries = append(entries, [2]any{x.Keys[j], x.Vals[j]})
			}
		}
		for _, j := range o.order(len(entries)) {
			vm.put(entries[j][0].(string), entries[j][1].(*YNode))
		}
		vals.put(v.Name, vm)
	}
	sections := [][2]any{{"profile", ystr(name)}, {"prefixes", prefixes}}
	for _, lvl := range []string{"violation", "warning", "info"} {
		var names []*YNode
		var ns []string
		for _, v := range p.Validations {
			if listedUnder(v, lvl) {
				ns = append(ns, v.Name)
			}
		}
		// names listed under a level without a definition (tolerated by the translator)
		for _, u := range p.Undefined {
			if strings.HasPrefix(u, lvl+":") {
				ns = append(ns, strings.TrimPrefix(u, lvl+":"))
			}
		}
		for _, i := range o.order(len(ns)) {
			names = append(names, ystr(ns[i]))
		}
		if len(names) > 0 {
			sections = append(sections, [2]any{lvl, ylist(names...)})
		}
	}
	sections = append(sections, [2]any{"validations", vals})
	for _, i := range o.order(len(sections)) {
		top.put(sections[i][0].(string), sections[i][1].(*YNode))
	}
	var sb strings.Builder
	sb.WriteString("#%Validation Profile 1.0\n")
	o.Style.render(top, "", &sb)
	return sb.String()
}

// Rewrites is the catalogue of meaning-preserving rewrites.
func Rewrites() []RewriteOpts {
	return []RewriteOpts{
		{Description: "every mapping, level list and operand list reversed", Reverse: true},
		{Description: "every mapping, level list and operand list rotated", Rotate: true},
		{Description: "prefix renamed", Prefix: "zz-9"},
		{Description: "second prefix bound to the same namespace", AltPrefix: "alt"},
		// a declared prefix takes precedence over a built-in prefix of the same name
		{Description: "prefix renamed to the name of the built-in prefix apiExt (declared with the profile's own namespace)", Prefix: "apiExt"},
		{Description: "prefix renamed to the name of the built-in prefix core (declared with the profile's own namespace)", Prefix: "core"},
		{Description: "second prefix named like the built-in prefix shacl, bound to the same namespace", AltPrefix: "shacl"},
		{Description: "single-quoted scalars, flow style, comments, 4-space indent", Style: Style{Quote: "single", Flow: true, Comments: true, Indent: 4}},
		{Description: "plain scalars, reversed, renamed prefix", Reverse: true, Prefix: "q", Style: Style{Quote: "plain", Indent: 3}},
		{Description: "double-quoted keys and scalars, rotated, two prefixes", Rotate: true, AltPrefix: "e2", Style: Style{Quote: "double", Comments: true, Indent: 2}},
	}
}

// ---- equivalence of two modules on the same symbolic graph -----------------------------------

type keyed map[string]*smt.Term

func resultsKeyed(ev *Evaluator, g *Graph) (keyed, *smt.Term) {
	out := keyed{}
	stray := smt.False
	for _, level := range []string{"violation", "warning", "info"} {
		for _, a := range ev.ruleValue(level) {
			var elems []Alt
			if el, ok := elemsOfSet(a.V); ok {
				elems = el
			} else if el, ok := elemsOfArray(a.V); ok {
				elems = el
			}
			for _, e := range elems {
				name, _ := getField(e.V, "sourceShapeName")
				focus, _ := getField(e.V, "focusNode")
				msg, _ := getField(e.V, "resultMessage")
				if !isConcrete(name) || !isConcrete(focus) || !isConcrete(msg) {
					stray = smt.Or(stray, smt.And(a.G, e.G))
					continue
				}
				k := level + "|" + describe(name) + "|" + describe(focus) + "|" + describe(msg)
				gd := smt.And(a.G, e.G)
				if old, ok := out[k]; ok {
					out[k] = smt.Or(old, gd)
				} else {
					out[k] = gd
				}
			}
		}
	}
	return out, stray
}

// CheckEquivalent decides whether two profile texts can give different result sets
// (severity, validation, focus node, message) on any graph of the scope.
func (c *Checker) CheckEquivalent(desc, textA, textB, codeA, codeB string, sc Scope) (out Outcome) {
	t0 := time.Now()
	out = Outcome{Program: desc, Profile: textB, Status: "held"}
	defer func() {
		out.Wall = time.Since(t0)
		if r := recover(); r != nil {
			if u, ok := r.(Unsupported); ok {
				out.Status, out.Detail = "unsupported", u.Msg
				return
			}
			panic(r)
		}
	}()
	_, modA, err := CompileModule(codeA)
	if err != nil {
		out.Status, out.Label, out.Detail = "compile-error", "C07.module-compiles", err.Error()
		return
	}
	_, modB, err := CompileModule(codeB)
	if err != nil {
		out.Status, out.Label, out.Detail = "compile-error", "C07.module-compiles", "rewritten profile: "+err.Error()
		return
	}
	g := NewGraph(sc, "g")
	ra, sa := resultsKeyed(NewEvaluator(modA, g.Input), g)
	rb, sb := resultsKeyed(NewEvaluator(modB, g.Input), g)
	goal := smt.Or(sa, sb)
	keys := map[string]bool{}
	for k := range ra {
		keys[k] = true
	}
	for k := range rb {
		keys[k] = true
	}
	for k := range keys {
		a, ok1 := ra[k]
		b, ok2 := rb[k]
		if !ok1 {
			a = smt.False
		}
		if !ok2 {
			b = smt.False
		}
		goal = smt.Or(goal, smt.Not(smt.Eq(a, b)))
	}
	out.Compared = len(keys)
	out.Queries++
	res, m := c.solve(g.Side, goal, g.Vars)
	if res == smt.Unsat {
		return
	}
	if res == smt.Unknown {
		out.Status, out.Detail = "solver-unknown", "equivalence query undecided"
		return
	}
	data, descm := g.Concrete(m)
	out.Data, out.Model = data, descm
	var diffs []string
	for k := range keys {
		a, b := ra[k], rb[k]
		va, vb := a != nil && evalBool(a, m), b != nil && evalBool(b, m)
		if va != vb {
			diffs = append(diffs, fmt.Sprintf("%s: original=%v rewritten=%v", k, va, vb))
		}
	}
	sort.Strings(diffs)
	out.Label = "C15.results-eq-under-rewrite"
	out.Detail = strings.Join(diffs, "; ")
	out.Status = "model-mismatch"
	outs, err := c.Drv.Validate([]ValIn{{Profile: textA, Data: data}, {Profile: textB, Data: data}})
	if err != nil || outs[0].Error != "" || outs[1].Error != "" {
		out.Detail += fmt.Sprintf(" | native replay failed: %v %s %s", err, outs[0].Error, outs[1].Error)
		if err == nil && (outs[0].Error == "") != (outs[1].Error == "") {
			out.Status = "violation"
		}
		return
	}
	r1, _, e1 := RealResultsWithMessages(outs[0].Report)
	r2, _, e2 := RealResultsWithMessages(outs[1].Report)
	if e1 != nil || e2 != nil {
		return
	}
	out.Expected, out.Actual = r1, r2
	if strings.Join(r1, "\n") != strings.Join(r2, "\n") {
		out.Status = "violation"
		out.Replay = map[string]any{"original_profile": textA}
	} else {
		out.Detail += " | the real implementation gives equal results for both texts"
	}
	return
}

// BaseProfilesC15: profiles built so that every mapping and list has 2-3 entries.
func BaseProfilesC15() []Program {
	a := func(f ...Formula) Formula { return And{f} }
	b1 := Program{Name: "B1", Validations: []Validation{
		{Name: "va", Level: "violation", Class: 0, Message: FixPreds("m {{ex.p0}} x"), F: a(Atom{Path: P(0), Kind: "minCount", N: 1}, Atom{Path: P(0), Kind: "pattern", Pattern: "^a"},
			Atom{Path: P(1), Kind: "in", Values: []ast.Value{str("a"), str("b")}}, Atom{Path: P(1), Kind: "maxCount", N: 2})},
		{Name: "vb", Level: "warning", Class: 1, F: Or{[]Formula{a(Atom{Path: P(0), Kind: "minLength", N: 2}), Not{a(Atom{Path: P(1), Kind: "minCount", N: 1})}}}},
		{Name: "vc", Level: "info", Class: 0, F: If{C: a(Atom{Path: P(1), Kind: "in", Values: []ast.Value{str("a"), str("b")}}), T: a(Atom{Path: P(0), Kind: "minCount", N: 1}), E: a(Atom{Path: P(0), Kind: "maxCount", N: 0})}},
		{Name: "vd", Level: "violation", Class: 1, Message: FixPreds("{{ex.p1}} then {{ex.p1}} and {{ex.p0}}"), F: a(Atom{Path: P(1), Kind: "containsSome", Values: []ast.Value{str("a"), str("b")}})},
	}}
	inner := a(Atom{Path: P(1), Kind: "minCount", N: 1}, Atom{Path: P(1), Kind: "maxCount", N: 1})
	b2 := Program{Name: "B2", Validations: []Validation{
		{Name: "va", Level: "violation", Class: 0, F: a(Nested{P(0), inner}, Quant{P(0), true, 1, a(Atom{Path: P(1), Kind: "pattern", Pattern: "^a"})}, Quant{P(0), false, 1, a(Atom{Path: P(1), Kind: "minCount", N: 1})},
			Atom{Path: P(1), Kind: "minCount", N: 1})},
		{Name: "vb", Level: "violation", Class: 0, F: And{[]Formula{a(Atom{Path: P(0), Kind: "minCount", N: 1}), Or{[]Formula{a(Atom{Path: P(1), Kind: "minCount", N: 1}), a(Atom{Path: P(1), Kind: "maxCount", N: 0}), Not{a(Atom{Path: P(0), Kind: "maxCount", N: 1})}}}}}},
	}}
	b3 := Program{Name: "B3", Validations: []Validation{
		{Name: "va", Level: "warning", Class: 0, F: a(Atom{Path: PSeq{[]Path{P(0), P(1)}}, Kind: "minCount", N: 1}, Atom{Path: PAlt{[]Path{P(0), Pinv(1)}}, Kind: "maxCount", N: 1},
			Atom{Path: PSeq{[]Path{P(0), PAlt{[]Path{P(1), Pinv(0)}}}}, Kind: "minCount", N: 1})},
		{Name: "vb", Level: "info", Class: 0, F: a(Atom{Path: P(0), Kind: "lessThanProperty", Other: P(1)}, Atom{Path: P(0), Kind: "datatype", Type: "integer"})},
	}}
	isStr := func(p int) Formula {
		return Rego{Code: fmt.Sprintf("$result = is_string(object.get($node, %q, 0))", PredIRI(p))}
	}
	b4 := Program{Name: "B4", Validations: []Validation{
		// several embedded-Rego operands with the same (default) message and different code
		{Name: "va", Level: "violation", Class: 0, F: And{[]Formula{isStr(0), isStr(1)}}},
		{Name: "vb", Level: "warning", Class: 0, F: Not{Or{[]Formula{isStr(1), isStr(0), Rego{Code: "$result = is_number(object.get($node, \"" + PredIRI(0) + "\", \"\"))", Message: "custom"}}}}},
		{Name: "vc", Level: "info", Class: 1, F: Or{[]Formula{isStr(0), a(Atom{Path: P(1), Kind: "minCount", N: 1})}}},
	}}
	// level lists that also name validations without a definition (a leftover name), before, between
	// and after defined ones
	b5 := Program{Name: "B5", Undefined: []string{"violation:ghost", "warning:phantom", "info:gone"}, Validations: []Validation{
		{Name: "va", Level: "violation+warning", Class: 0, F: a(Atom{Path: P(0), Kind: "minCount", N: 1})},
		{Name: "vb", Level: "violation+info", Class: 0, F: a(Atom{Path: P(1), Kind: "maxCount", N: 0})},
		{Name: "vc", Level: "warning", Class: 1, F: a(Atom{Path: P(0), Kind: "minCount", N: 1})},
	}}
	// a wide disjunction whose operands are conjunctions over even and odd predicates: the translator
	// sorts operands by their text, so renaming prefixes (an alias for the odd predicates) reorders them
	pair := func(i, j int) Formula {
		return And{[]Formula{a(Atom{Path: P(i), Kind: "minCount", N: 1}), a(Atom{Path: P(j), Kind: "minCount", N: 1})}}
	}
	b6 := Program{Name: "B6", Validations: []Validation{
		{Name: "va", Level: "violation", Class: 0, F: Or{[]Formula{pair(0, 1), pair(2, 3), pair(4, 5), pair(6, 7), pair(1, 4)}}},
		{Name: "vb", Level: "warning", Class: 0, F: Or{[]Formula{pair(7, 0), pair(5, 2), pair(3, 6), pair(1, 1), mc(2), mc(5)}}},
	}}
	// B7: mappings that hold two expression keys: the translator takes one of them by a fixed order
	// of preference (propertyConstraints before and before or before not), wherever they stand
	b7 := Program{Name: "B7", Validations: []Validation{
		{Name: "va", Level: "violation", Class: 0, F: PC{[]Formula{Atom{Path: P(0), Kind: "minCount", N: 1}}},
			Extra: Not{PC{[]Formula{Atom{Path: P(0), Kind: "pattern", Pattern: "^a"}}}}},
		{Name: "vb", Level: "warning", Class: 0, F: Or{[]Formula{a(Atom{Path: P(1), Kind: "minCount", N: 1}), a(Atom{Path: P(0), Kind: "minCount", N: 2})}},
			Extra: Not{a(Atom{Path: P(1), Kind: "maxCount", N: 0})}},
	}}
	return []Program{b1, b2, b3, b4, b5, b6, b7}
}
