package regosym

import (
	"fmt"
	"sort"
	"strings"

	"github.com/open-policy-agent/opa/ast"

	"verif/smt"
)

// Unsupported is raised (as a panic) when the module uses a construct outside the
// evaluator's scope; the program is then skipped and counted, never passed silently.
type Unsupported struct{ Msg string }

func unsupportedf(format string, a ...any) { panic(Unsupported{fmt.Sprintf(format, a...)}) }

type env struct {
	parent *env
	name   ast.Var
	val    Val
}

func (e *env) lookup(v ast.Var) (Val, bool) {
	for x := e; x != nil; x = x.parent {
		if x.name == v {
			return x.val, true
		}
	}
	return nil, false
}

type sol struct {
	env *env
	g   *smt.Term
}

func (s sol) bind(v ast.Var, val Val) sol {
	if v.IsWildcard() {
		return s
	}
	return sol{&env{s.env, v, val}, s.g}
}

func (s sol) and(g *smt.Term) sol { return sol{s.env, smt.And(s.g, g)} }

type vsol struct {
	v Val
	s sol
}

// Evaluator interprets one compiled module over one symbolic input.
type Evaluator struct {
	Mod       *ast.Module
	pkg       ast.Ref
	rules     map[string][]*ast.Rule
	Input     Val
	overrides []override
	cache     map[string]any
	depth     int
	Steps     int
	MaxSteps  int
	RulesSeen map[string]bool
	Builtins  map[string]bool
}

type override struct {
	name string
	val  Val
}

func NewEvaluator(mod *ast.Module, input Val) *Evaluator {
	ev := &Evaluator{Mod: mod, pkg: mod.Package.Path, rules: map[string][]*ast.Rule{}, Input: input, cache: map[string]any{},
		MaxSteps: 50_000_000, RulesSeen: map[string]bool{}, Builtins: map[string]bool{}}
	for _, r := range mod.Rules {
		n := string(r.Head.Name)
		ev.rules[n] = append(ev.rules[n], r)
	}
	return ev
}

func (ev *Evaluator) step() {
	ev.Steps++
	if ev.Steps > ev.MaxSteps {
		unsupportedf("evaluation step bound %d exceeded", ev.MaxSteps)
	}
}

func (ev *Evaluator) overrideSig() string {
	if len(ev.overrides) == 0 {
		return ""
	}
	eff := map[string]string{}
	for _, o := range ev.overrides {
		eff[o.name] = keyOf(o.val)
	}
	var ks []string
	for k, v := range eff {
		ks = append(ks, k+"="+v)
	}
	sort.Strings(ks)
	return strings.Join(ks, ";")
}

func (ev *Evaluator) lookupOverride(name string) (Val, bool) {
	for i := len(ev.overrides) - 1; i >= 0; i-- {
		if ev.overrides[i].name == name {
			return ev.overrides[i].val, true
		}
	}
	return nil, false
}

// ---- bodies and expressions ----------------------------------------------------------

func (ev *Evaluator) evalBody(body ast.Body, s sol) []sol {
	cur := []sol{s}
	for _, e := range body {
		var next []sol
		for _, c := range cur {
			next = append(next, ev.evalExpr(e, c)...)
		}
		cur = next
		if len(cur) == 0 {
			return nil
		}
	}
	return cur
}

func (ev *Evaluator) evalExpr(e *ast.Expr, s sol) []sol {
	ev.step()
	if len(e.With) > 0 {
		// evaluate the replacement values in the current solution, then the expression under them
		inner := *e
		inner.With = nil
		var out []sol
		var rec func(i int, cur sol)
		rec = func(i int, cur sol) {
			if i == len(e.With) {
				out = append(out, ev.evalExpr(&inner, cur)...)
				return
			}
			w := e.With[i]
			target := w.Target.Value.(ast.Ref)
			if len(target) != 2 || !target[0].Equal(ast.DefaultRootDocument) {
				unsupportedf("with target %s", target)
			}
			name := string(target[1].Value.(ast.String))
			for _, r := range ev.evalTerm(w.Value, cur) {
				ev.overrides = append(ev.overrides, override{name, r.v})
				rec(i+1, r.s)
				ev.overrides = ev.overrides[:len(ev.overrides)-1]
			}
		}
		rec(0, s)
		return out
	}
	if e.Negated {
		inner := *e
		inner.Negated = false
		rs := ev.evalExpr(&inner, sol{s.env, smt.True})
		any := smt.False
		for _, r := range rs {
			any = smt.Or(any, r.g)
		}
		g := smt.And(s.g, smt.Not(any))
		if g.IsFalse() {
			return nil
		}
		return []sol{{s.env, g}}
	}
	switch terms := e.Terms.(type) {
	case *ast.Term:
		var out []sol
		for _, r := range ev.evalTerm(terms, s) {
			if b, ok := r.v.(ast.Boolean); ok && !bool(b) {
				continue
			}
			out = append(out, r.s)
		}
		return out
	case []*ast.Term:
		op, ok := terms[0].Value.(ast.Ref)
		if !ok {
			unsupportedf("call operator %v", terms[0])
		}
		name := op.String()
		args := terms[1:]
		switch name {
		case "eq", "assign":
			return ev.unify(args[0], args[1], s)
		}
		if op.HasPrefix(ev.pkg) {
			return ev.evalCallExpr(name, true, args, s)
		}
		return ev.evalCallExpr(name, false, args, s)
	}
	unsupportedf("expression form %T", e.Terms)
	return nil
}

// evalCallExpr evaluates f(args...) or f(args..., out) as a body expression.
func (ev *Evaluator) evalCallExpr(name string, user bool, args []*ast.Term, s sol) []sol {
	arity := 0
	if user {
		rs := ev.rules[name[len(ev.pkg.String())+1:]]
		if len(rs) == 0 {
			unsupportedf("unknown function %s", name)
		}
		arity = len(rs[0].Head.Args)
	} else {
		b, ok := ast.BuiltinMap[name]
		if !ok {
			unsupportedf("unknown built-in %s", name)
		}
		arity = len(b.Decl.FuncArgs().Args)
	}
	in := args
	var outTerm *ast.Term
	if len(args) == arity+1 {
		in, outTerm = args[:arity], args[arity]
	} else if len(args) != arity {
		unsupportedf("arity of %s", name)
	}
	var out []sol
	ev.evalArgs(in, s, func(vals []Val, cur sol) {
		var results []Alt
		if user {
			results = ev.evalFunc(name[len(ev.pkg.String())+1:], vals)
		} else {
			results = ev.applyBuiltin(name, vals)
		}
		for _, r := range results {
			c := cur.and(r.G)
			if c.g.IsFalse() {
				continue
			}
			if outTerm == nil {
				if b, ok := r.V.(ast.Boolean); ok && !bool(b) {
					continue
				}
				out = append(out, c)
				continue
			}
			out = append(out, ev.match(outTerm, r.V, c)...)
		}
	})
	return out
}

// evalArgs enumerates the value combinations of argument terms.
func (ev *Evaluator) evalArgs(terms []*ast.Term, s sol, k func(vals []Val, s sol)) {
	vals := make([]Val, len(terms))
	var rec func(i int, cur sol)
	rec = func(i int, cur sol) {
		if i == len(terms) {
			cp := make([]Val, len(vals))
			copy(cp, vals)
			k(cp, cur)
			return
		}
		for _, r := range ev.evalTerm(terms[i], cur) {
			vals[i] = r.v
			rec(i+1, r.s)
		}
	}
	rec(0, s)
}

// ---- unification ------------------------------------------------------------------------

// evaluable: every unbound variable of t sits in a ref operand position (where evaluation
// enumerates it) or inside a comprehension.
func (ev *Evaluator) evaluable(t *ast.Term, e *env) bool {
	switch v := t.Value.(type) {
	case ast.Var:
		_, ok := e.lookup(v)
		return ok
	case ast.Ref:
		if hv, ok := v[0].Value.(ast.Var); ok && !v[0].Equal(ast.InputRootDocument) && !v[0].Equal(ast.DefaultRootDocument) {
			if _, bound := e.lookup(hv); !bound {
				return false
			}
		}
		for _, op := range v[1:] {
			switch op.Value.(type) {
			case ast.Var:
			default:
				if !ev.evaluable(op, e) {
					return false
				}
			}
		}
		return true
	case *ast.Array:
		ok := true
		v.Foreach(func(x *ast.Term) {
			if !ev.evaluable(x, e) {
				ok = false
			}
		})
		return ok
	case ast.Object:
		ok := true
		v.Foreach(func(k, x *ast.Term) {
			if !ev.evaluable(k, e) || !ev.evaluable(x, e) {
				ok = false
			}
		})
		return ok
	case ast.Set:
		ok := true
		v.Foreach(func(x *ast.Term) {
			if !ev.evaluable(x, e) {
				ok = false
			}
		})
		return ok
	}
	return true
}

func (ev *Evaluator) unify(a, b *ast.Term, s sol) []sol {
	ea, eb := ev.evaluable(a, s.env), ev.evaluable(b, s.env)
	var out []sol
	switch {
	case ea && eb:
		for _, ra := range ev.evalTerm(a, s) {
			for _, rb := range ev.evalTerm(b, ra.s) {
				if g, ok := ev.equalGuard(ra.v, rb.v); ok {
					c := rb.s.and(g)
					if !c.g.IsFalse() {
						out = append(out, c)
					}
				}
			}
		}
	case eb:
		for _, rb := range ev.evalTerm(b, s) {
			out = append(out, ev.match(a, rb.v, rb.s)...)
		}
	case ea:
		for _, ra := range ev.evalTerm(a, s) {
			out = append(out, ev.match(b, ra.v, ra.s)...)
		}
	default:
		unsupportedf("unification of two patterns: %v = %v", a, b)
	}
	return out
}

// equalGuard: under which guard are two values equal (ok=false: never).
func (ev *Evaluator) equalGuard(a, b Val) (*smt.Term, bool) {
	ca, ok1 := a.(*SCount)
	cb, ok2 := b.(*SCount)
	if ok1 || ok2 {
		ta, oka := countTerm(a)
		tb, okb := countTerm(b)
		_, _ = ca, cb
		if !oka || !okb {
			return nil, false
		}
		g := smt.Eq(ta, tb)
		return g, !g.IsFalse()
	}
	if _, ok := a.(*Opaque); ok {
		unsupportedf("equality on an opaque (guard-dependent) text")
	}
	if _, ok := b.(*Opaque); ok {
		unsupportedf("equality on an opaque (guard-dependent) text")
	}
	if valEqual(a, b) {
		return smt.True, true
	}
	return nil, false
}

func countTerm(v Val) (*smt.Term, bool) {
	switch x := v.(type) {
	case *SCount:
		return x.T, true
	case ast.Number:
		if n, ok := x.Int(); ok {
			return countConst(n), true
		}
	}
	return nil, false
}

// match unifies a pattern term with a value.
func (ev *Evaluator) match(p *ast.Term, v Val, s sol) []sol {
	switch pv := p.Value.(type) {
	case ast.Var:
		if pv.IsWildcard() {
			return []sol{s}
		}
		if cur, ok := s.env.lookup(pv); ok {
			if g, ok := ev.equalGuard(cur, v); ok {
				c := s.and(g)
				if !c.g.IsFalse() {
					return []sol{c}
				}
			}
			return nil
		}
		return []sol{s.bind(pv, v)}
	case *ast.Array:
		if ev.evaluable(p, s.env) {
			break
		}
		elems, ok := elemsOfArray(v)
		if !ok || len(elems) != pv.Len() {
			return nil
		}
		cur := []sol{s}
		for i := 0; i < pv.Len(); i++ {
			if !elems[i].G.IsTrue() {
				unsupportedf("array pattern against a guarded array")
			}
			var next []sol
			for _, c := range cur {
				next = append(next, ev.match(pv.Elem(i), elems[i].V, c)...)
			}
			cur = next
		}
		return cur
	case ast.Object:
		if ev.evaluable(p, s.env) {
			break
		}
		cv, ok := v.(ast.Object)
		if !ok || cv.Len() != pv.Len() {
			return nil
		}
		cur := []sol{s}
		fail := false
		pv.Foreach(func(k, pt *ast.Term) {
			if fail {
				return
			}
			x := cv.Get(k)
			if x == nil {
				fail = true
				return
			}
			var next []sol
			for _, c := range cur {
				next = append(next, ev.match(pt, x.Value, c)...)
			}
			cur = next
		})
		if fail {
			return nil
		}
		return cur
	}
	var out []sol
	for _, r := range ev.evalTerm(p, s) {
		if g, ok := ev.equalGuard(r.v, v); ok {
			c := r.s.and(g)
			if !c.g.IsFalse() {
				out = append(out, c)
			}
		}
	}
	return out
}

// ---- terms --------------------------------------------------------------------------------

func (ev *Evaluator) evalTerm(t *ast.Term, s sol) []vsol {
	switch v := t.Value.(type) {
	case ast.Var:
		if val, ok := s.env.lookup(v); ok {
			return []vsol{{val, s}}
		}
		unsupportedf("unbound variable %s evaluated", v)
	case ast.Ref:
		return ev.evalRef(v, s)
	case ast.String, ast.Number, ast.Boolean, ast.Null:
		return []vsol{{v, s}}
	case *ast.Array:
		var out []vsol
		terms := make([]*ast.Term, v.Len())
		for i := range terms {
			terms[i] = v.Elem(i)
		}
		ev.evalArgs(terms, s, func(vals []Val, cur sol) {
			out = append(out, vsol{mkArray(vals), cur})
		})
		return out
	case ast.Object:
		var keys, vals []*ast.Term
		v.Foreach(func(k, x *ast.Term) { keys = append(keys, k); vals = append(vals, x) })
		var out []vsol
		ev.evalArgs(append(append([]*ast.Term{}, keys...), vals...), s, func(all []Val, cur sol) {
			out = append(out, vsol{mkObject(all[:len(keys)], all[len(keys):]), cur})
		})
		return out
	case ast.Set:
		var terms []*ast.Term
		v.Foreach(func(x *ast.Term) { terms = append(terms, x) })
		var out []vsol
		ev.evalArgs(terms, s, func(vals []Val, cur sol) {
			var el []Alt
			for _, x := range vals {
				el = append(el, Alt{smt.True, x})
			}
			out = append(out, vsol{concretizeIfPossible(NewSSet(el)), cur})
		})
		return out
	case *ast.ArrayComprehension:
		var el []Alt
		for _, r := range ev.evalBody(v.Body, sol{s.env, smt.True}) {
			for _, x := range ev.evalTerm(v.Term, r) {
				el = append(el, Alt{x.s.g, x.v})
			}
		}
		return []vsol{{concretizeIfPossible(NewSArr(el)), s}}
	case *ast.SetComprehension:
		var el []Alt
		for _, r := range ev.evalBody(v.Body, sol{s.env, smt.True}) {
			for _, x := range ev.evalTerm(v.Term, r) {
				el = append(el, Alt{x.s.g, x.v})
			}
		}
		return []vsol{{concretizeIfPossible(NewSSet(el)), s}}
	case ast.Call:
		op := v[0].Value.(ast.Ref)
		name := op.String()
		var out []vsol
		ev.evalArgs(v[1:], s, func(vals []Val, cur sol) {
			var results []Alt
			if op.HasPrefix(ev.pkg) {
				results = ev.evalFunc(name[len(ev.pkg.String())+1:], vals)
			} else {
				results = ev.applyBuiltin(name, vals)
			}
			for _, r := range results {
				c := cur.and(r.G)
				if !c.g.IsFalse() {
					out = append(out, vsol{r.V, c})
				}
			}
		})
		return out
	}
	unsupportedf("term form %T", t.Value)
	return nil
}

func mkArray(vals []Val) Val {
	all := true
	for _, x := range vals {
		if !isConcrete(x) {
			all = false
		}
	}
	if all {
		ts := make([]*ast.Term, len(vals))
		for i, x := range vals {
			ts[i] = ast.NewTerm(x.(ast.Value))
		}
		return ast.NewArray(ts...)
	}
	el := make([]Alt, len(vals))
	for i, x := range vals {
		el[i] = Alt{smt.True, x}
	}
	return NewSArr(el)
}

func mkObject(keys, vals []Val) Val {
	all := true
	for _, x := range vals {
		if !isConcrete(x) {
			all = false
		}
	}
	if all {
		var kv [][2]*ast.Term
		for i := range keys {
			kv = append(kv, [2]*ast.Term{ast.NewTerm(keys[i].(ast.Value)), ast.NewTerm(vals[i].(ast.Value))})
		}
		return ast.NewObject(kv...)
	}
	o := NewSObj()
	for i := range keys {
		ks, ok := keys[i].(ast.String)
		if !ok {
			unsupportedf("object literal with a non-string key and guarded content")
		}
		o.Set(string(ks), []Alt{{smt.True, vals[i]}})
	}
	return o
}

// ---- references ---------------------------------------------------------------------------

func (ev *Evaluator) evalRef(ref ast.Ref, s sol) []vsol {
	var cur []vsol
	rest := ref[1:]
	switch {
	case ref[0].Equal(ast.InputRootDocument):
		cur = []vsol{{ev.Input, s}}
	case ref[0].Equal(ast.DefaultRootDocument):
		if ref.HasPrefix(ev.pkg) && len(ref) > len(ev.pkg) {
			name, ok := ref[len(ev.pkg)].Value.(ast.String)
			if !ok {
				unsupportedf("dynamic rule reference %s", ref)
			}
			for _, a := range ev.ruleValue(string(name)) {
				c := s.and(a.G)
				if !c.g.IsFalse() {
					cur = append(cur, vsol{a.V, c})
				}
			}
			rest = ref[len(ev.pkg)+1:]
		} else {
			if len(ref) < 2 {
				unsupportedf("reference to the whole data document")
			}
			name, ok := ref[1].Value.(ast.String)
			if !ok {
				unsupportedf("dynamic data reference %s", ref)
			}
			v, ok := ev.lookupOverride(string(name))
			if !ok {
				return nil // undefined
			}
			cur = []vsol{{v, s}}
			rest = ref[2:]
		}
	default:
		hv, ok := ref[0].Value.(ast.Var)
		if !ok {
			unsupportedf("reference head %v", ref[0])
		}
		val, bound := s.env.lookup(hv)
		if !bound {
			unsupportedf("reference through unbound variable %s", hv)
		}
		cur = []vsol{{val, s}}
	}
	for _, op := range rest {
		var next []vsol
		for _, c := range cur {
			if v, ok := op.Value.(ast.Var); ok {
				if _, bound := c.s.env.lookup(v); !bound {
					for _, kv := range ev.enumerate(c.v) {
						ns := c.s.and(kv.g)
						if ns.g.IsFalse() {
							continue
						}
						next = append(next, vsol{kv.v, ns.bind(v, kv.k)})
					}
					continue
				}
			}
			for _, kr := range ev.evalTerm(op, c.s) {
				for _, a := range ev.index(c.v, kr.v) {
					ns := kr.s.and(a.G)
					if !ns.g.IsFalse() {
						next = append(next, vsol{a.V, ns})
					}
				}
			}
		}
		cur = next
		if len(cur) == 0 {
			return nil
		}
	}
	return cur
}

type kv struct {
	k, v Val
	g    *smt.Term
}

func (ev *Evaluator) enumerate(v Val) []kv {
	var out []kv
	switch x := v.(type) {
	case ast.Object:
		x.Foreach(func(k, e *ast.Term) { out = append(out, kv{k.Value, e.Value, smt.True}) })
	case *ast.Array:
		for i := 0; i < x.Len(); i++ {
			out = append(out, kv{ast.IntNumberTerm(i).Value, x.Elem(i).Value, smt.True})
		}
	case ast.Set:
		for _, t := range x.Slice() {
			out = append(out, kv{t.Value, t.Value, smt.True})
		}
	case *SObj:
		for _, k := range x.Keys {
			for _, a := range x.Fields[k] {
				out = append(out, kv{ast.String(k), a.V, a.G})
			}
		}
	case *SArr:
		pos := 0
		exact := true
		for _, a := range x.Elems {
			var key Val
			if exact && a.G.IsTrue() {
				key = ast.IntNumberTerm(pos).Value
				pos++
			} else {
				exact = false
				key = &Opaque{id: nextID(), Tag: "index"}
			}
			out = append(out, kv{key, a.V, a.G})
		}
	case *SSet:
		for _, a := range x.Elems {
			out = append(out, kv{a.V, a.V, a.G})
		}
	}
	return out
}

func (ev *Evaluator) index(v Val, k Val) []Alt {
	switch x := v.(type) {
	case ast.Object:
		kc, ok := k.(ast.Value)
		if !ok {
			return nil
		}
		if e := x.Get(ast.NewTerm(kc)); e != nil {
			return []Alt{{smt.True, e.Value}}
		}
	case *ast.Array:
		if n, ok := k.(ast.Number); ok {
			if i, ok := n.Int(); ok && i >= 0 && i < x.Len() {
				return []Alt{{smt.True, x.Elem(i).Value}}
			}
		}
	case ast.Set:
		kc, ok := k.(ast.Value)
		if ok && x.Contains(ast.NewTerm(kc)) {
			return []Alt{{smt.True, kc}}
		}
	case *SObj:
		if ks, ok := k.(ast.String); ok {
			return x.Fields[string(ks)]
		}
	case *SArr:
		n, ok := k.(ast.Number)
		if !ok {
			return nil
		}
		i, _ := n.Int()
		pos := 0
		for _, a := range x.Elems {
			if a.G.IsFalse() {
				continue
			}
			if !a.G.IsTrue() {
				unsupportedf("positional index into a guarded array")
			}
			if pos == i {
				return []Alt{{smt.True, a.V}}
			}
			pos++
		}
	case *SSet:
		var out []Alt
		for _, a := range x.Elems {
			if valEqual(a.V, k) {
				out = append(out, Alt{a.G, a.V})
			}
		}
		return out
	}
	return nil
}

// ---- rules ---------------------------------------------------------------------------------

func mergeAlts(alts []Alt) []Alt {
	idx := map[string]int{}
	var out []Alt
	for _, a := range alts {
		if a.G.IsFalse() {
			continue
		}
		k := keyOf(a.V)
		if i, ok := idx[k]; ok {
			out[i].G = smt.Or(out[i].G, a.G)
			continue
		}
		idx[k] = len(out)
		out = append(out, a)
	}
	return out
}

func anyGuard(alts []Alt) *smt.Term {
	g := smt.False
	for _, a := range alts {
		g = smt.Or(g, a.G)
	}
	return g
}

// ruleValue returns the value alternatives of a rule referenced as data.<pkg>.<name>.
func (ev *Evaluator) ruleValue(name string) []Alt {
	rs := ev.rules[name]
	if len(rs) == 0 {
		return nil
	}
	key := "rule:" + name + "|" + ev.overrideSig()
	if c, ok := ev.cache[key]; ok {
		return c.([]Alt)
	}
	ev.depth++
	if ev.depth > 60 {
		unsupportedf("rule recursion too deep at %s", name)
	}
	defer func() { ev.depth-- }()
	ev.RulesSeen[name] = true
	h := rs[0].Head
	var res []Alt
	switch {
	case len(h.Args) > 0:
		unsupportedf("function %s referenced as a value", name)
	case h.Key != nil && h.Value == nil: // partial set
		var el []Alt
		for _, r := range rs {
			for _, s := range ev.evalBody(r.Body, sol{nil, smt.True}) {
				for _, x := range ev.evalTerm(r.Head.Key, s) {
					el = append(el, Alt{x.s.g, x.v})
				}
			}
		}
		res = []Alt{{smt.True, NewSSet(el)}}
	case h.Key != nil: // partial object
		o := NewSObj()
		for _, r := range rs {
			for _, s := range ev.evalBody(r.Body, sol{nil, smt.True}) {
				for _, k := range ev.evalTerm(r.Head.Key, s) {
					ks, ok := k.v.(ast.String)
					if !ok {
						unsupportedf("partial object %s with a non-string key", name)
					}
					for _, x := range ev.evalTerm(r.Head.Value, k.s) {
						o.Set(string(ks), mergeAlts(append(o.Fields[string(ks)], Alt{x.s.g, x.v})))
					}
				}
			}
		}
		res = []Alt{{smt.True, o}}
	default: // complete rule(s), else chains, default
		var alts []Alt
		var def *ast.Rule
		for _, r := range rs {
			if r.Default {
				def = r
				continue
			}
			alts = append(alts, ev.completeChain(r, nil)...)
		}
		alts = mergeAlts(alts)
		if def != nil {
			for _, x := range ev.evalTerm(def.Head.Value, sol{nil, smt.True}) {
				alts = append(alts, Alt{smt.Not(anyGuard(alts)), x.v})
			}
			alts = mergeAlts(alts)
		}
		res = alts
	}
	ev.cache[key] = res
	return res
}

// completeChain evaluates a complete rule (or function clause, when args != nil) and its else chain.
func (ev *Evaluator) completeChain(r *ast.Rule, args []Val) []Alt {
	var out []Alt
	prev := smt.False
	for c := r; c != nil; c = c.Else {
		var part []Alt
		starts := []sol{{nil, smt.True}}
		for i, a := range c.Head.Args {
			var next []sol
			for _, s := range starts {
				next = append(next, ev.match(a, args[i], s)...)
			}
			starts = next
		}
		for _, st := range starts {
			for _, s := range ev.evalBody(c.Body, st) {
				if c.Head.Value == nil {
					part = append(part, Alt{s.g, ast.Boolean(true)})
					continue
				}
				for _, x := range ev.evalTerm(c.Head.Value, s) {
					part = append(part, Alt{x.s.g, x.v})
				}
			}
		}
		for _, p := range part {
			out = append(out, Alt{smt.And(p.G, smt.Not(prev)), p.V})
		}
		prev = smt.Or(prev, anyGuard(part))
	}
	return out
}

// evalFunc evaluates a user function on argument values.
func (ev *Evaluator) evalFunc(name string, args []Val) []Alt {
	rs := ev.rules[name]
	if len(rs) == 0 {
		unsupportedf("unknown function %s", name)
	}
	var ks []string
	for _, a := range args {
		ks = append(ks, keyOf(a))
	}
	key := "func:" + name + "(" + strings.Join(ks, ",") + ")|" + ev.overrideSig()
	if c, ok := ev.cache[key]; ok {
		return c.([]Alt)
	}
	ev.depth++
	if ev.depth > 60 {
		unsupportedf("function recursion too deep at %s", name)
	}
	defer func() { ev.depth-- }()
	ev.RulesSeen[name] = true
	var alts []Alt
	for _, r := range rs {
		if len(r.Head.Args) != len(args) {
			unsupportedf("arity of %s", name)
		}
		alts = append(alts, ev.completeChain(r, args)...)
	}
	alts = mergeAlts(alts)
	ev.cache[key] = alts
	return alts
}
