package gosym

import (
	"fmt"
	"go/types"
	"regexp"
	"sort"
	"strconv"
	"strings"
	"unicode/utf8"

	"golang.org/x/tools/go/ssa"

	"verif/smt"
)

// nativeObj wraps a native Go object handed to interpreted code as an opaque pointer.
type nativeObj struct{ v any }

const zz = "/internal/zzverif."

// callIntrinsic dispatches modelled library functions and the harness API.
func (i *interpreter) callIntrinsic(fr *frame, fn *ssa.Function, args []value) (value, bool) {
	name := fn.String()
	if fn.Pkg != nil && i.eng.isRepoPkg(fn.Pkg) {
		if k := strings.Index(name, zz); k >= 0 {
			if strings.HasPrefix(name[k+len(zz):], "init") {
				return nil, true
			}
			if in, ok := i.eng.intr["zz."+name[k+len(zz):]]; ok {
				return in(fr, args), true
			}
			panic(unsupported{"unknown harness API " + name})
		}
		if in, ok := i.eng.repoStubs[name]; ok { // library-level stub, only when switched on
			short := name[len(i.eng.ModPath)+1:]
			short = strings.TrimPrefix(short, "internal/")
			if i.ps.env().stubsOn[short] {
				i.intrSeen["stub:"+name] = true
				return in(fr, args), true
			}
		}
		return nil, false
	}
	if in, ok := i.eng.intr[name]; ok {
		i.intrSeen[name] = true
		return in(fr, args), true
	}
	// package initialisers of dependencies are never run
	if fn.Name() == "init" && fn.Synthetic != "" {
		if fn != i.forceInit {
			return nil, true
		}
		i.forceInit = nil
	}
	if opt, ok := genericRegoOption(fn); ok {
		i.intrSeen["stub:"+name] = true
		return opt, true
	}
	if opaquePkg(fn) {
		// other functions of the policy engine (compilers, capabilities, print hooks …): their results are
		// opaque values that repository code can only hand on to an option constructor
		i.intrSeen["opaque:"+name] = true
		res := fn.Signature.Results()
		mk := func(t types.Type) value {
			switch t.Underlying().(type) {
			case *types.Pointer:
				var cell value = nativeObj{"opaque " + name}
				return &cell
			case *types.Interface:
				return iface{t: types.Typ[types.String], v: "opaque " + name}
			case *types.Signature:
				return mkRegoOpt(regoOpt{kind: "other:" + fn.Name()})
			}
			return zero(t)
		}
		switch res.Len() {
		case 0:
			return nil, true
		case 1:
			return mk(res.At(0).Type()), true
		}
		var tup tuple
		for k := 0; k < res.Len(); k++ {
			tup = append(tup, mk(res.At(k).Type()))
		}
		return tup, true
	}
	pkg := fn.Pkg
	if pkg == nil && fn.Origin() != nil {
		pkg = fn.Origin().Pkg
	}
	if pkg == nil {
		// wrappers / bound methods / instantiations: interpret
		if fn.Blocks != nil {
			return nil, false
		}
		panic(unsupported{"no body for synthetic function " + name})
	}
	if i.eng.isRepoPkg(pkg) {
		// an instantiation of a generic function of the repository: interpreted like any other
		pkg.Build()
		if fn.Blocks != nil {
			return nil, false
		}
	}
	if interpretable[pkg.Pkg.Path()] {
		pkg.Build()
		if fn.Blocks == nil {
			panic(unsupported{"library function without Go body: " + name})
		}
		return nil, false
	}
	panic(unsupported{"library function not modelled: " + name})
}

// Packages whose Go source is interpreted directly when no intrinsic exists.
var interpretable = map[string]bool{
	"sort": true, "errors": true, "strings": true, "unicode": true, "unicode/utf8": true,
	"math/bits": true, "bytes": true, "strconv": true, "slices": true, "cmp": true, "internal/bytealg": true,
	"internal/stringslite": true,
}

var externGlobals = map[string]func(i *interpreter, g *ssa.Global) value{}

func str(v value) (string, bool) {
	s, ok := v.(string)
	return s, ok
}

func mustStr(v value, what string) string {
	s, ok := v.(string)
	if !ok {
		panic(unsupported{what + ": symbolic string argument"})
	}
	return s
}

func sliceOfStrings(v value) []value {
	if v == nil {
		return nil
	}
	return v.([]value)
}

func registerIntrinsics(e *Engine) {
	in := e.intr
	// ---------------- harness API ----------------
	in["zz.Symbolic"] = func(fr *frame, a []value) value { return true }
	in["zz.Int"] = func(fr *frame, a []value) value {
		ps := fr.i.ps
		name := ps.uniq(mustStr(a[0], "Int name"))
		lo, hi := asInt64(a[1]), asInt64(a[2])
		if lo == hi {
			ps.inputs = append(ps.inputs, &Input{Name: name, Kind: "int", Terms: []*smt.Term{smt.BV(uint64(lo), 64)}, Width: 64})
			return int(lo)
		}
		v := ps.newVar(name, 64)
		ps.inputs = append(ps.inputs, &Input{Name: name, Kind: "int", Terms: []*smt.Term{v}, Width: 64})
		ps.assertPC(smt.And(smt.BvCmp(smt.OpBvSle, smt.BV(uint64(lo), 64), v), smt.BvCmp(smt.OpBvSle, v, smt.BV(uint64(hi), 64))))
		if ps.model != nil {
			ps.model[v.Name] = uint64(lo)
		}
		return sym{t: v, k: types.Int, ps: ps}
	}
	in["zz.Bool"] = func(fr *frame, a []value) value {
		ps := fr.i.ps
		name := ps.uniq(mustStr(a[0], "Bool name"))
		v := ps.newVar(name, 0)
		ps.inputs = append(ps.inputs, &Input{Name: name, Kind: "bool", Terms: []*smt.Term{v}})
		return sym{t: v, k: types.Bool, ps: ps}
	}
	in["zz.Deep"] = func(fr *frame, a []value) value {
		ps := fr.i.ps
		if _, seen := ps.store["deep-recorded"]; !seen {
			ps.store["deep-recorded"] = true
			c := int64(0)
			if fr.i.eng.Cfg.Deep {
				c = 1
			}
			ps.inputs = append(ps.inputs, &Input{Name: "deep", Kind: "choice", Conc: c})
		}
		return fr.i.eng.Cfg.Deep
	}
	in["zz.Choice"] = func(fr *frame, a []value) value {
		ps := fr.i.ps
		name := ps.uniq(mustStr(a[0], "Choice name"))
		c := ps.choose(int(asInt64(a[1])))
		ps.inputs = append(ps.inputs, &Input{Name: name, Kind: "choice", Conc: int64(c)})
		return c
	}
	in["zz.Bytes"] = func(fr *frame, a []value) value {
		ps := fr.i.ps
		name := ps.uniq(mustStr(a[0], "Bytes name"))
		n := int(asInt64(a[1]))
		ts := make([]*smt.Term, n)
		for k := range ts {
			ts[k] = ps.newVar(fmt.Sprintf("%s_%d", name, k), 8)
		}
		ps.inputs = append(ps.inputs, &Input{Name: name, Kind: "bytes", Terms: ts})
		if n == 0 {
			return ""
		}
		return sstr{b: ts, ps: ps}
	}
	in["zz.Assume"] = func(fr *frame, a []value) value { fr.i.ps.assume(a[0]); return nil }
	in["zz.Assert"] = func(fr *frame, a []value) value {
		fr.i.ps.assertCond(mustStr(a[0], "Assert label"), a[1])
		return nil
	}
	in["zz.Reach"] = func(fr *frame, a []value) value {
		fr.i.ps.reach = append(fr.i.ps.reach, mustStr(a[0], "Reach label"))
		return nil
	}
	in["zz.MapOrderGlobal"] = func(fr *frame, a []value) value {
		fr.i.ps.mapOrder = a[0].(bool)
		fr.i.ps.orderGlobalOnly = true
		return nil
	}
	in["zz.MapOrder"] = func(fr *frame, a []value) value { fr.i.ps.mapOrder = a[0].(bool); return nil }
	in["zz.Note"] = func(fr *frame, a []value) value {
		v := a[1]
		if s, ok := v.(sstr); ok {
			v = s.describe()
		}
		fr.i.ps.note(mustStr(a[0], "Note key"), fmt.Sprint(v))
		return nil
	}
	in["zz.Flag"] = func(fr *frame, a []value) value {
		if v, ok := fr.i.ps.flags[mustStr(a[0], "Flag name")]; ok {
			return v
		}
		return false
	}
	in["zz.TrackWrites"] = func(fr *frame, a []value) value {
		if a[0].(bool) {
			fr.i.startTracking()
		} else {
			fr.i.ps.trackW = false
		}
		return nil
	}
	in["zz.WriteLog"] = func(fr *frame, a []value) value {
		out := []value{}
		for _, w := range fr.i.ps.writes {
			if w != "" {
				out = append(out, w)
			}
		}
		return out
	}
	in["zz.GlobalWrites"] = func(fr *frame, a []value) value { return len(fr.i.ps.writes) }
	in["zz.GlobalResets"] = func(fr *frame, a []value) value {
		out := []value{}
		for _, w := range fr.i.ps.resets {
			out = append(out, w)
		}
		return out
	}

	// ---------------- fmt ----------------
	sprintf := func(fr *frame, a []value) value {
		return fr.i.format(fr, a[0], sliceOfStrings(a[1]))
	}
	in["fmt.Sprintf"] = sprintf
	in["fmt.Errorf"] = func(fr *frame, a []value) value {
		msg := sprintf(fr, a)
		return fr.i.newError(msg)
	}
	in["errors.As"] = func(fr *frame, a []value) value {
		// target is a pointer to a variable of some type: succeed when the error's dynamic type matches
		errv := a[0].(iface)
		tgt := a[1].(iface)
		pt, ok := tgt.t.Underlying().(*types.Pointer)
		if !ok || errv.t == nil {
			return false
		}
		if types.Identical(errv.t, pt.Elem()) {
			*tgt.v.(*value) = errv.v
			return true
		}
		return false
	}
	in["fmt.Sprint"] = func(fr *frame, a []value) value {
		var parts []value
		for _, x := range sliceOfStrings(a[0]) {
			parts = append(parts, fr.i.formatOne(fr, 'v', x))
		}
		return concatStr(fr.i.ps, parts)
	}
	in["(runtime.errorString).Error"] = func(fr *frame, a []value) value { return "runtime error: " + a[0].(string) }
	in["errors.New"] = func(fr *frame, a []value) value { return fr.i.newError(a[0]) }

	// ---------------- strings ----------------
	in["strings.Join"] = func(fr *frame, a []value) value {
		elems := sliceOfStrings(a[0])
		var parts []value
		for k, e := range elems {
			if k > 0 {
				parts = append(parts, a[1])
			}
			parts = append(parts, e)
		}
		return concatStr(fr.i.ps, parts)
	}
	in["strings.ReplaceAll"] = func(fr *frame, a []value) value {
		return replaceAll(fr.i.ps, a[0], mustStr(a[1], "ReplaceAll old"), a[2])
	}
	in["strings.Contains"] = func(fr *frame, a []value) value {
		if _, ok := a[1].(sstr); ok {
			// symbolic needle: a disjunction over all positions, no fork
			hay, nd := strTerms(a[0]), strTerms(a[1])
			var alts []*smt.Term
			for k := 0; k+len(nd) <= len(hay); k++ {
				alts = append(alts, strEqTerm(hay[k:k+len(nd)], nd))
			}
			return mkScalar(fr.i.ps, smt.Or(alts...), types.Bool)
		}
		return indexOf(fr.i.ps, a[0], mustStr(a[1], "Contains substr")) >= 0
	}
	in["strings.Index"] = func(fr *frame, a []value) value {
		return indexOf(fr.i.ps, a[0], mustStr(a[1], "Index substr"))
	}
	// utf8.ValidString / utf8.Valid: one formula over the bytes (no fork per byte)
	in["unicode/utf8.ValidString"] = func(fr *frame, a []value) value {
		if s, ok := a[0].(string); ok {
			return utf8.ValidString(s)
		}
		return mkScalar(fr.i.ps, utf8ValidTerm(strTerms(a[0])), types.Bool)
	}
	in["unicode/utf8.Valid"] = func(fr *frame, a []value) value {
		bs, _ := a[0].([]value)
		ts := make([]*smt.Term, len(bs))
		for k, b := range bs {
			ts[k] = termOf(b)
		}
		return mkScalar(fr.i.ps, utf8ValidTerm(ts), types.Bool)
	}
	// copies of a string are the string (strconv's error values clone the offending text)
	in["internal/stringslite.Clone"] = func(fr *frame, a []value) value { return a[0] }
	in["strings.Clone"] = func(fr *frame, a []value) value { return a[0] }
	in["strings.HasPrefix"] = func(fr *frame, a []value) value {
		p := mustStr(a[1], "HasPrefix prefix")
		ts := strTerms(a[0])
		if len(ts) < len(p) {
			return false
		}
		return mkScalar(fr.i.ps, strEqTerm(ts[:len(p)], strTerms(p)), types.Bool)
	}
	in["strings.ToLower"] = func(fr *frame, a []value) value {
		if s, ok := str(a[0]); ok {
			return strings.ToLower(s)
		}
		ps := fr.i.ps
		ts := strTerms(a[0])
		out := make([]*smt.Term, len(ts))
		for k, b := range ts {
			if b.IsConst() {
				out[k] = smt.BV(uint64(strings.ToLower(string(rune(b.Val)))[0]), 8)
				if b.Val >= 0x80 {
					panic(unsupported{"ToLower on non-ASCII"})
				}
				continue
			}
			if !ps.decide(smt.BvCmp(smt.OpBvUlt, b, smt.BV(0x80, 8))) {
				panic(unsupported{"ToLower on non-ASCII symbolic byte"})
			}
			isUp := smt.And(smt.BvCmp(smt.OpBvUle, smt.BV('A', 8), b), smt.BvCmp(smt.OpBvUle, b, smt.BV('Z', 8)))
			out[k] = smt.Ite(isUp, smt.BvBin(smt.OpBvAdd, b, smt.BV(32, 8)), b)
		}
		return normStr(ps, out)
	}
	in["strings.Split"] = func(fr *frame, a []value) value {
		return splitN(fr.i.ps, a[0], mustStr(a[1], "Split sep"), -1)
	}
	in["strings.SplitN"] = func(fr *frame, a []value) value {
		return splitN(fr.i.ps, a[0], mustStr(a[1], "SplitN sep"), int(asInt64(a[2])))
	}
	in["strings.Compare"] = func(fr *frame, a []value) value {
		x, y := strTerms(a[0]), strTerms(a[1])
		ps := fr.i.ps
		if ps.decide(strEqTerm(x, y)) {
			return 0
		}
		if ps.decide(strLtTerm(x, y)) {
			return -1
		}
		return 1
	}
	in["strings.TrimPrefix"] = func(fr *frame, a []value) value {
		if _, isSym := a[0].(sstr); isSym {
			// symbolic text, concrete prefix: one decision
			p := mustStr(a[1], "TrimPrefix prefix")
			ts := strTerms(a[0])
			if len(ts) >= len(p) && fr.i.ps.decide(strEqTerm(ts[:len(p)], strTerms(p))) {
				return normStr(fr.i.ps, ts[len(p):])
			}
			return a[0]
		}
		return strings.TrimPrefix(mustStr(a[0], "TrimPrefix"), mustStr(a[1], "TrimPrefix"))
	}
	in["strings.TrimSuffix"] = func(fr *frame, a []value) value {
		if _, isSym := a[0].(sstr); isSym {
			p := mustStr(a[1], "TrimSuffix suffix")
			ts := strTerms(a[0])
			if len(ts) >= len(p) && fr.i.ps.decide(strEqTerm(ts[len(ts)-len(p):], strTerms(p))) {
				return normStr(fr.i.ps, ts[:len(ts)-len(p)])
			}
			return a[0]
		}
		return strings.TrimSuffix(mustStr(a[0], "TrimSuffix"), mustStr(a[1], "TrimSuffix"))
	}
	in["strings.HasSuffix"] = func(fr *frame, a []value) value {
		p := mustStr(a[1], "HasSuffix suffix")
		ts := strTerms(a[0])
		if len(ts) < len(p) {
			return false
		}
		return mkScalar(fr.i.ps, strEqTerm(ts[len(ts)-len(p):], strTerms(p)), types.Bool)
	}
	in["strings.Title"] = func(fr *frame, a []value) value { return strings.Title(mustStr(a[0], "Title")) }
	in["strings.TrimSpace"] = func(fr *frame, a []value) value { return strings.TrimSpace(mustStr(a[0], "TrimSpace")) }
	in["strings.Count"] = func(fr *frame, a []value) value {
		return strings.Count(mustStr(a[0], "Count"), mustStr(a[1], "Count"))
	}

	// ---------------- strings.Builder (modelled over its buf field) ----------------
	sbBuf := func(a []value) *value {
		st := (*a[0].(*value)).(structure)
		return &st[len(st)-1]
	}
	sbAppend := func(fr *frame, a []value, ts []*smt.Term) {
		bp := sbBuf(a)
		buf, _ := (*bp).([]value)
		for _, t := range ts {
			if t.IsConst() {
				buf = append(buf, uint8(t.Val))
			} else {
				buf = append(buf, sym{t: t, k: types.Uint8, ps: fr.i.ps})
			}
		}
		*bp = buf
	}
	in["(*strings.Builder).WriteString"] = func(fr *frame, a []value) value {
		ts := strTerms(a[1])
		sbAppend(fr, a, ts)
		return tuple{len(ts), iface{}}
	}
	in["(*strings.Builder).WriteByte"] = func(fr *frame, a []value) value {
		sbAppend(fr, a, []*smt.Term{termOf(a[1])})
		return iface{}
	}
	in["(*strings.Builder).WriteRune"] = func(fr *frame, a []value) value {
		switch r := a[1].(type) {
		case int32:
			sbAppend(fr, a, strTerms(string(r)))
			return tuple{len(string(r)), iface{}}
		case sym:
			ts := encodeRuneSym(r.ps, r.t)
			sbAppend(fr, a, ts)
			return tuple{len(ts), iface{}}
		}
		panic(unsupported{"WriteRune"})
	}
	in["(*strings.Builder).String"] = func(fr *frame, a []value) value {
		buf, _ := (*sbBuf(a)).([]value)
		ts := make([]*smt.Term, len(buf))
		for k, b := range buf {
			ts[k] = termOf(b)
		}
		return normStr(fr.i.ps, ts)
	}
	in["(*strings.Builder).Len"] = func(fr *frame, a []value) value {
		buf, _ := (*sbBuf(a)).([]value)
		return len(buf)
	}
	in["(*strings.Builder).Grow"] = func(fr *frame, a []value) value { return nil }
	in["(*strings.Builder).copyCheck"] = func(fr *frame, a []value) value { return nil }
	in["internal/abi.NoEscape"] = func(fr *frame, a []value) value { return a[0] }
	in["(*strings.Builder).Write"] = func(fr *frame, a []value) value {
		bs, _ := a[1].([]value)
		ts := make([]*smt.Term, len(bs))
		for k, b := range bs {
			ts[k] = termOf(b)
		}
		sbAppend(fr, a, ts)
		return tuple{len(ts), iface{}}
	}
	in["(*strings.Builder).Reset"] = func(fr *frame, a []value) value { *sbBuf(a) = []value(nil); return nil }

	// ---------------- strconv ----------------
	in["strconv.Itoa"] = func(fr *frame, a []value) value { return strconv.Itoa(int(asInt64(a[0]))) }
	in["strconv.Atoi"] = func(fr *frame, a []value) value {
		n, err := strconv.Atoi(mustStr(a[0], "Atoi"))
		return tuple{n, fr.i.nativeErr(err)}
	}
	in["strconv.ParseBool"] = func(fr *frame, a []value) value {
		b, err := strconv.ParseBool(mustStr(a[0], "ParseBool"))
		return tuple{b, fr.i.nativeErr(err)}
	}
	in["strconv.ParseFloat"] = func(fr *frame, a []value) value {
		f, err := strconv.ParseFloat(mustStr(a[0], "ParseFloat"), int(asInt64(a[1])))
		return tuple{f, fr.i.nativeErr(err)}
	}
	in["strconv.FormatFloat"] = func(fr *frame, a []value) value {
		return strconv.FormatFloat(a[0].(float64), a[1].(byte), int(asInt64(a[2])), int(asInt64(a[3])))
	}
	in["strconv.FormatBool"] = func(fr *frame, a []value) value {
		switch b := a[0].(type) {
		case bool:
			return strconv.FormatBool(b)
		case sym:
			return strconv.FormatBool(b.ps.decide(b.t))
		}
		panic(unsupported{"FormatBool"})
	}

	// ---------------- sort ----------------
	in["sort.Strings"] = func(fr *frame, a []value) value {
		xs := sliceOfStrings(a[0])
		ps := fr.i.ps
		// insertion sort with (possibly forking) comparisons
		for k := 1; k < len(xs); k++ {
			for j := k; j > 0; j-- {
				if !strLess(ps, xs[j], xs[j-1]) {
					break
				}
				xs[j], xs[j-1] = xs[j-1], xs[j]
			}
		}
		return nil
	}

	// ---------------- regexp (native on concrete) ----------------
	in["regexp.Compile"] = func(fr *frame, a []value) value {
		re, err := regexp.Compile(mustStr(a[0], "regexp.Compile"))
		if err != nil {
			return tuple{(*value)(nil), fr.i.nativeErr(err)}
		}
		var cell value = nativeObj{re}
		return tuple{&cell, iface{}}
	}
	in["regexp.MustCompile"] = func(fr *frame, a []value) value {
		re, err := regexp.Compile(mustStr(a[0], "regexp.MustCompile"))
		if err != nil {
			panic(targetPanic{fr.i.nativeErr(err)})
		}
		var cell value = nativeObj{re}
		return &cell
	}
	reOf := func(v value) *regexp.Regexp { return (*v.(*value)).(nativeObj).v.(*regexp.Regexp) }
	in["(*regexp.Regexp).ReplaceAllString"] = func(fr *frame, a []value) value {
		s := fr.i.ps.concretizeStr(a[1])
		return reOf(a[0]).ReplaceAllString(s, mustStr(a[2], "ReplaceAllString repl"))
	}
	in["(*regexp.Regexp).MatchString"] = func(fr *frame, a []value) value {
		if ss, isSym := a[1].(sstr); isSym {
			// symbolic text: one condition for "matches" instead of one path per text (ASCII bound)
			ps := fr.i.ps
			for _, b := range ss.b {
				if !b.IsConst() && !ps.decide(smt.BvCmp(smt.OpBvUlt, b, smt.BV(0x80, 8))) {
					panic(pathEnd{"assume-false", "non-ASCII symbolic byte in a regular-expression match (outside the stated bound)"})
				}
			}
			if cond, ok := symRegexMatch(reOf(a[0]), ss.b); ok {
				return mkScalar(ps, cond, types.Bool)
			}
		}
		return reOf(a[0]).MatchString(fr.i.ps.concretizeStr(a[1]))
	}
	in["(*regexp.Regexp).FindAllStringSubmatch"] = func(fr *frame, a []value) value {
		if ss, isSym := a[1].(sstr); isSym {
			ascii := true
			for _, b := range ss.b {
				if !b.IsConst() && !fr.i.ps.decide(smt.BvCmp(smt.OpBvUlt, b, smt.BV(0x80, 8))) {
					ascii = false
				}
			}
			if ascii {
				if cond, ok := symRegexMatch(reOf(a[0]), ss.b); ok && !fr.i.ps.decide(cond) {
					return []value(nil)
				}
			}
		}
		res := reOf(a[0]).FindAllStringSubmatch(fr.i.ps.concretizeStr(a[1]), int(asInt64(a[2])))
		if res == nil {
			return []value(nil)
		}
		out := make([]value, len(res))
		for k, m := range res {
			row := make([]value, len(m))
			for j, s := range m {
				row[j] = s
			}
			out[k] = row
		}
		return out
	}
	registerEnvStubs(e)
	registerJSONCodec(e)
	registerLibModels(e)
}

func strLess(ps *pathState, a, b value) bool {
	if x, ok := a.(string); ok {
		if y, ok := b.(string); ok {
			return x < y
		}
	}
	return ps.decide(strLtTerm(strTerms(a), strTerms(b)))
}

// concretizeStr enumerates the feasible values of every symbolic byte (forking).
func (ps *pathState) concretizeStr(v value) string {
	if s, ok := v.(string); ok {
		return s
	}
	ts := strTerms(v)
	bs := make([]byte, len(ts))
	for k, t := range ts {
		bs[k] = byte(ps.concretize(t))
	}
	return string(bs)
}

func concatStr(ps *pathState, parts []value) value {
	var ts []*smt.Term
	allConc := true
	for _, p := range parts {
		if _, ok := p.(string); !ok {
			allConc = false
		}
	}
	if allConc {
		var sb strings.Builder
		for _, p := range parts {
			sb.WriteString(p.(string))
		}
		return sb.String()
	}
	for _, p := range parts {
		ts = append(ts, strTerms(p)...)
	}
	return normStr(ps, ts)
}

// matchAt returns the condition "s[i:i+len(pat)] == pat".
func matchAt(ts []*smt.Term, i int, pat string) *smt.Term {
	if i+len(pat) > len(ts) {
		return smt.False
	}
	return strEqTerm(ts[i:i+len(pat)], strTerms(pat))
}

// indexOf is strings.Index with a concrete pattern; forks on each candidate position.
func indexOf(ps *pathState, s value, pat string) int {
	if c, ok := s.(string); ok {
		return strings.Index(c, pat)
	}
	ts := strTerms(s)
	if pat == "" {
		return 0
	}
	for i := 0; i+len(pat) <= len(ts); i++ {
		if ps.decide(matchAt(ts, i, pat)) {
			return i
		}
	}
	return -1
}

func replaceAll(ps *pathState, s value, old string, new value) value {
	if c, ok := s.(string); ok {
		if n, ok := new.(string); ok {
			return strings.ReplaceAll(c, old, n)
		}
	}
	if old == "" {
		panic(unsupported{"ReplaceAll with empty pattern on symbolic string"})
	}
	ts := strTerms(s)
	nt := strTerms(new)
	var out []*smt.Term
	for i := 0; i < len(ts); {
		if ps.decide(matchAt(ts, i, old)) {
			out = append(out, nt...)
			i += len(old)
		} else {
			out = append(out, ts[i])
			i++
		}
	}
	return normStr(ps, out)
}

func splitN(ps *pathState, s value, sep string, n int) value {
	if c, ok := s.(string); ok {
		parts := strings.SplitN(c, sep, n)
		out := make([]value, len(parts))
		for i, p := range parts {
			out[i] = p
		}
		return out
	}
	if sep == "" {
		panic(unsupported{"Split with empty separator on symbolic string"})
	}
	if n == 0 {
		return []value(nil)
	}
	ts := strTerms(s)
	var out []value
	start := 0
	for i := 0; i < len(ts); {
		if n > 0 && len(out) == n-1 {
			break
		}
		if ps.decide(matchAt(ts, i, sep)) {
			out = append(out, normStr(ps, ts[start:i]))
			i += len(sep)
			start = i
		} else {
			i++
		}
	}
	out = append(out, normStr(ps, ts[start:]))
	return out
}

// ---- errors ----

// newError builds an *errors.errorString holding msg.
func (i *interpreter) newError(msg value) value {
	et := i.eng.namedType("errors", "errorString")
	var cell value = structure{msg}
	return iface{t: types.NewPointer(et), v: &cell}
}

func (i *interpreter) nativeErr(err error) value {
	if err == nil {
		return iface{}
	}
	return i.newError(err.Error())
}

// ---- fmt ----

func (i *interpreter) format(fr *frame, f value, args []value) value {
	if sf, ok := f.(sstr); ok {
		return i.formatSymbolic(fr, sf, args)
	}
	format := mustStr(f, "format string")
	var parts []value
	argi := 0
	for k := 0; k < len(format); {
		c := format[k]
		if c != '%' {
			j := strings.IndexByte(format[k:], '%')
			if j < 0 {
				j = len(format) - k
			}
			parts = append(parts, format[k:k+j])
			k += j
			continue
		}
		if k+1 >= len(format) {
			parts = append(parts, "%!(NOVERB)")
			break
		}
		verb := format[k+1]
		k += 2
		if verb == '%' {
			parts = append(parts, "%")
			continue
		}
		// %0Nx / %0NX / %0Nd: zero-padded fixed width integers
		if verb == '0' {
			j := k
			width := 0
			for j < len(format) && format[j] >= '0' && format[j] <= '9' {
				width = width*10 + int(format[j]-'0')
				j++
			}
			if j < len(format) && width > 0 && strings.IndexByte("xXd", format[j]) >= 0 && argi < len(args) {
				parts = append(parts, i.formatPadded(format[j], width, args[argi]))
				argi++
				k = j + 1
				continue
			}
		}
		// other flags / width / precision: the real fmt on a concrete operand
		if strings.IndexByte("+-# 0123456789.", verb) >= 0 {
			j := k
			for j < len(format) && strings.IndexByte("+-# 0123456789.", format[j]) >= 0 {
				j++
			}
			if j < len(format) && argi < len(args) {
				spec := "%" + format[k-1:j+1]
				if nat, ok := nativeScalar(args[argi]); ok && strings.IndexByte("sdvqxXfgeEGtcUobp", format[j]) >= 0 {
					parts = append(parts, fmt.Sprintf(spec, nat))
					argi++
					k = j + 1
					continue
				}
			}
			panic(unsupported{"format flags " + format[k-2:]})
		}
		if verb == 'w' {
			verb = 'v'
		}
		if strings.IndexByte("sdtvfqc", verb) < 0 {
			if argi < len(args) {
				if nat, ok := nativeScalar(args[argi]); ok && strings.IndexByte("xXgeEGUobT", verb) >= 0 {
					parts = append(parts, fmt.Sprintf("%"+string(verb), nat))
					argi++
					continue
				}
			}
			panic(unsupported{fmt.Sprintf("format verb %%%c", verb)})
		}
		if argi >= len(args) {
			parts = append(parts, fmt.Sprintf("%%!%c(MISSING)", verb))
			continue
		}
		parts = append(parts, i.formatOne(fr, verb, args[argi]))
		argi++
	}
	if argi < len(args) {
		parts = append(parts, "%!(EXTRA ...)")
	}
	return concatStr(i.ps, parts)
}

// formatOne renders one operand (an interface value) for the given verb.
func (i *interpreter) formatOne(fr *frame, verb byte, arg value) value {
	itf, ok := arg.(iface)
	if !ok {
		itf = iface{t: types.Typ[types.Invalid], v: arg}
	}
	if itf.t == nil {
		if verb == 's' || verb == 'd' {
			return "%!" + string(verb) + "(<nil>)"
		}
		return "<nil>"
	}
	v := itf.v
	// error / Stringer
	if verb == 'v' || verb == 's' || verb == 'q' {
		if r, ok := callMethod(i, fr, itf, "Error"); ok {
			return r
		}
		if r, ok := callMethod(i, fr, itf, "String"); ok {
			return r
		}
	}
	switch x := v.(type) {
	case string:
		if verb == 'q' {
			return strconv.Quote(x)
		}
		if verb == 'd' {
			return "%!d(string=" + x + ")"
		}
		return x
	case sstr:
		if verb == 'q' {
			panic(unsupported{"%q of symbolic string"})
		}
		return x
	case bool:
		return strconv.FormatBool(x)
	case sym:
		if x.k == types.Bool {
			return strconv.FormatBool(x.ps.decide(x.t))
		}
		n := x.concretize()
		if kindSigned(x.k) {
			return strconv.FormatInt(smt.BV(n, kindWidth(x.k)).Signed(), 10)
		}
		return strconv.FormatUint(n, 10)
	case float64:
		switch verb {
		case 'f':
			return strconv.FormatFloat(x, 'f', 6, 64)
		case 'v':
			return strconv.FormatFloat(x, 'g', -1, 64)
		}
		return fmt.Sprintf("%"+string(verb), x)
	case int, int8, int16, int32, int64:
		if verb == 'c' {
			return string(rune(asInt64(x)))
		}
		if verb == 's' {
			return fmt.Sprintf("%%!s(%s=%d)", itf.t, asInt64(x))
		}
		return strconv.FormatInt(asInt64(x), 10)
	case uint, uint8, uint16, uint32, uint64, uintptr:
		return strconv.FormatUint(asUint64(x), 10)
	case *value:
		if verb == 'd' {
			// %d of a pointer prints its address: nondeterministic in the real program.
			return "824633800000"
		}
		if x == nil {
			return "<nil>"
		}
		return "&" + toString(*x)
	}
	return toString(v)
}

var _ = sort.Strings

// nativeScalar returns the Go value of a concrete scalar operand (for formatting by the real fmt).
func nativeScalar(arg value) (any, bool) {
	v := arg
	if itf, ok := arg.(iface); ok {
		if itf.t == nil {
			return nil, true
		}
		v = itf.v
	}
	switch x := v.(type) {
	case string, bool, int, int8, int16, int32, int64, uint, uint8, uint16, uint32, uint64, uintptr, float32, float64:
		return x, true
	}
	return nil, false
}

// formatPadded renders %0<width>x / X / d of an integer operand. A symbolic operand of at most
// 4*width bits is rendered digit by digit as symbolic characters (hexadecimal only).
func (i *interpreter) formatPadded(verb byte, width int, arg value) value {
	v := arg
	if itf, ok := arg.(iface); ok {
		v = itf.v
	}
	if x, ok := v.(sym); ok && verb != 'd' && x.t.Width > 4*width {
		// more bits than the padded width shows: one fork per number of significant digits
		if kindSigned(x.k) && !i.ps.decide(smt.Not(smt.BvCmp(smt.OpBvSlt, x.t, smt.BV(0, x.t.Width)))) {
			panic(unsupported{"zero-padded hexadecimal format of a negative symbolic number"})
		}
		digits := width
		for 4*digits < x.t.Width && !i.ps.decide(smt.BvCmp(smt.OpBvUlt, x.t, smt.BV(uint64(1)<<(4*uint(digits)), x.t.Width))) {
			digits++
		}
		if 4*digits < x.t.Width {
			return i.formatPadded(verb, digits, sym{t: smt.Extract(x.t, 4*digits-1, 0), k: types.Uint64, ps: x.ps})
		}
		return i.formatPadded(verb, digits, sym{t: x.t, k: types.Uint64, ps: x.ps})
	}
	if x, ok := v.(sym); ok && verb != 'd' && x.t.Width <= 4*width {
		letter := uint64('a')
		if verb == 'X' {
			letter = 'A'
		}
		out := make([]*smt.Term, width)
		for d := 0; d < width; d++ {
			lo := 4 * (width - 1 - d)
			if lo >= x.t.Width {
				out[d] = smt.BV('0', 8)
				continue
			}
			hi := lo + 3
			if hi >= x.t.Width {
				hi = x.t.Width - 1
			}
			nib := smt.Extract(x.t, hi, lo)
			if nib.Width < 8 {
				nib = smt.Zext(nib, 8)
			}
			out[d] = smt.Ite(smt.BvCmp(smt.OpBvUlt, nib, smt.BV(10, 8)), smt.BvBin(smt.OpBvAdd, nib, smt.BV('0', 8)), smt.BvBin(smt.OpBvAdd, nib, smt.BV(letter-10, 8)))
		}
		return normStr(i.ps, out)
	}
	var n uint64
	neg := false
	switch x := v.(type) {
	case sym:
		n = x.concretize()
		if kindSigned(x.k) {
			if sv := smt.BV(n, kindWidth(x.k)).Signed(); sv < 0 {
				neg, n = true, uint64(-sv)
			}
		}
	case int, int8, int16, int32, int64:
		if sv := asInt64(x); sv < 0 {
			neg, n = true, uint64(-sv)
		} else {
			n = uint64(sv)
		}
	case uint, uint8, uint16, uint32, uint64, uintptr:
		n = asUint64(x)
	default:
		panic(unsupported{fmt.Sprintf("zero-padded format of %T", v)})
	}
	base := 16
	if verb == 'd' {
		base = 10
	}
	d := strconv.FormatUint(n, base)
	if verb == 'X' {
		d = strings.ToUpper(d)
	}
	if neg {
		width--
	}
	for len(d) < width {
		d = "0" + d
	}
	if neg {
		d = "-" + d
	}
	return d
}

func opaquePkg(fn *ssa.Function) bool {
	p := fn.Pkg
	if p == nil && fn.Origin() != nil {
		p = fn.Origin().Pkg
	}
	if p == nil {
		if recv := fn.Signature.Recv(); recv != nil {
			t := recv.Type()
			if pt, ok := t.(*types.Pointer); ok {
				t = pt.Elem()
			}
			if n, ok := t.(*types.Named); ok && n.Obj().Pkg() != nil {
				return strings.HasPrefix(n.Obj().Pkg().Path(), "github.com/open-policy-agent/opa/")
			}
		}
		return false
	}
	return strings.HasPrefix(p.Pkg.Path(), "github.com/open-policy-agent/opa/")
}

// formatSymbolic is Sprintf for a format string with symbolic bytes (a text that was never
// meant to be a format): bytes other than '%' are copied; "%%" gives "%"; '%' followed by an
// ordinary letter consumes an operand (or prints %!x(MISSING)); a trailing '%' prints %!(NOVERB).
// Flags, widths and indexes after '%' are outside the model.
func (i *interpreter) formatSymbolic(fr *frame, f sstr, args []value) value {
	ps := i.ps
	var parts []value
	argi := 0
	for k := 0; k < len(f.b); k++ {
		b := f.b[k]
		if !ps.decide(smt.Eq(b, smt.BV('%', 8))) {
			parts = append(parts, normStr(ps, []*smt.Term{b}))
			continue
		}
		if k+1 >= len(f.b) {
			parts = append(parts, "%!(NOVERB)")
			break
		}
		vb := f.b[k+1]
		k++
		if ps.decide(smt.Eq(vb, smt.BV('%', 8))) {
			parts = append(parts, "%")
			continue
		}
		isLetter := smt.Or(smt.And(smt.BvCmp(smt.OpBvUle, smt.BV('a', 8), vb), smt.BvCmp(smt.OpBvUle, vb, smt.BV('z', 8))),
			smt.And(smt.BvCmp(smt.OpBvUle, smt.BV('A', 8), vb), smt.BvCmp(smt.OpBvUle, vb, smt.BV('Z', 8))))
		if !ps.decide(isLetter) {
			panic(pathEnd{"assume-false", "format flags/width after a symbolic '%' (outside the model)"})
		}
		if argi < len(args) {
			panic(unsupported{"symbolic format verb with an operand"})
		}
		parts = append(parts, "%!", normStr(ps, []*smt.Term{vb}), "(MISSING)")
	}
	if argi < len(args) {
		parts = append(parts, "%!(EXTRA ...)")
	}
	return concatStr(ps, parts)
}

// encodeRuneSym: the UTF-8 encoding of a symbolic rune as utf8.AppendRune produces it, one fork per
// length class; surrogates and values outside Unicode become U+FFFD.
func encodeRuneSym(ps *pathState, r *smt.Term) []*smt.Term {
	lt := func(n uint64) bool { return ps.decide(smt.BvCmp(smt.OpBvUlt, r, smt.BV(n, 32))) }
	part := func(shift uint64, mask, lead uint64) *smt.Term {
		x := smt.BvBin(smt.OpBvAnd, smt.BvBin(smt.OpBvLshr, r, smt.BV(shift, 32)), smt.BV(mask, 32))
		return smt.BvBin(smt.OpBvOr, smt.Extract(x, 7, 0), smt.BV(lead, 8))
	}
	replacement := []*smt.Term{smt.BV(0xEF, 8), smt.BV(0xBF, 8), smt.BV(0xBD, 8)}
	switch {
	case lt(0x80):
		return []*smt.Term{smt.Extract(r, 7, 0)}
	case lt(0x800):
		return []*smt.Term{part(6, 0x1F, 0xC0), part(0, 0x3F, 0x80)}
	case lt(0x10000):
		if !lt(0xD800) && lt(0xE000) {
			return replacement
		}
		return []*smt.Term{part(12, 0x0F, 0xE0), part(6, 0x3F, 0x80), part(0, 0x3F, 0x80)}
	case lt(0x110000):
		return []*smt.Term{part(18, 0x07, 0xF0), part(12, 0x3F, 0x80), part(6, 0x3F, 0x80), part(0, 0x3F, 0x80)}
	}
	return replacement
}

// utf8ValidTerm: "these bytes are well-formed UTF-8" (Unicode table 3-7) as one term.
func utf8ValidTerm(b []*smt.Term) *smt.Term {
	n := len(b)
	in := func(t *smt.Term, lo, hi uint64) *smt.Term {
		return smt.And(smt.BvCmp(smt.OpBvUle, smt.BV(lo, 8), t), smt.BvCmp(smt.OpBvUle, t, smt.BV(hi, 8)))
	}
	valid := make([]*smt.Term, n+5)
	for k := n; k < n+5; k++ {
		valid[k] = smt.False
	}
	valid[n] = smt.True
	for i := n - 1; i >= 0; i-- {
		alt := []*smt.Term{smt.And(smt.BvCmp(smt.OpBvUlt, b[i], smt.BV(0x80, 8)), valid[i+1])}
		if i+1 < n {
			alt = append(alt, smt.And(in(b[i], 0xC2, 0xDF), in(b[i+1], 0x80, 0xBF), valid[i+2]))
		}
		if i+2 < n {
			second := smt.Or(
				smt.And(smt.Eq(b[i], smt.BV(0xE0, 8)), in(b[i+1], 0xA0, 0xBF)),
				smt.And(smt.Or(in(b[i], 0xE1, 0xEC), in(b[i], 0xEE, 0xEF)), in(b[i+1], 0x80, 0xBF)),
				smt.And(smt.Eq(b[i], smt.BV(0xED, 8)), in(b[i+1], 0x80, 0x9F)))
			alt = append(alt, smt.And(second, in(b[i+2], 0x80, 0xBF), valid[i+3]))
		}
		if i+3 < n {
			second := smt.Or(
				smt.And(smt.Eq(b[i], smt.BV(0xF0, 8)), in(b[i+1], 0x90, 0xBF)),
				smt.And(in(b[i], 0xF1, 0xF3), in(b[i+1], 0x80, 0xBF)),
				smt.And(smt.Eq(b[i], smt.BV(0xF4, 8)), in(b[i+1], 0x80, 0x8F)))
			alt = append(alt, smt.And(second, in(b[i+2], 0x80, 0xBF), in(b[i+3], 0x80, 0xBF), valid[i+4]))
		}
		valid[i] = smt.Or(alt...)
	}
	return valid[0]
}
