package gosym

import (
	"context"
	"sync"

	"github.com/open-policy-agent/opa/ast"
	"github.com/open-policy-agent/opa/rego"
)

func opaBuiltinName(s string) string {
	switch s {
	case "HTTPSend":
		return ast.HTTPSend.Name
	case "WalkBuiltin":
		return ast.WalkBuiltin.Name
	case "OPARuntime":
		return ast.OPARuntime.Name
	case "RegoParseModule":
		return ast.RegoParseModule.Name
	case "NetLookupIPAddr":
		return ast.NetLookupIPAddr.Name
	}
	panic(unsupported{"unknown OPA builtin variable " + s})
}

var regoCache sync.Map

// regoCompiles runs the linked OPA's real parser and compiler on concrete module text.
func regoCompiles(code string) bool {
	if v, ok := regoCache.Load(code); ok {
		return v.(bool)
	}
	_, err := rego.New(rego.Query("data"), rego.Module("m.rego", code)).PrepareForEval(context.Background())
	regoCache.Store(code, err == nil)
	return err == nil
}

// RegoCompileError returns the compile error text ("" when it compiles).
func RegoCompileError(code string) string {
	_, err := rego.New(rego.Query("data"), rego.Module("m.rego", code)).PrepareForEval(context.Background())
	if err != nil {
		return err.Error()
	}
	return ""
}

// OPABuiltinNames lists every built-in registered in the linked OPA.
func OPABuiltinNames() []string {
	var out []string
	for _, b := range ast.Builtins {
		out = append(out, b.Name)
	}
	return out
}

var regoParseCache sync.Map

// regoParseError runs the linked OPA's parser alone ("" when the text parses).
func regoParseError(code string) string {
	if v, ok := regoParseCache.Load(code); ok {
		return v.(string)
	}
	msg := ""
	if _, err := ast.ParseModule("m.rego", code); err != nil {
		msg = err.Error()
	}
	regoParseCache.Store(code, msg)
	return msg
}
