package gosym

import (
	"encoding/json"
	"fmt"
	"go/token"
	"go/types"
	"reflect"
	"strings"
	"unsafe"

	"golang.org/x/tools/go/ssa"

	"verif/smt"
)

func (i *interpreter) initGlobals() {}

// globalCell returns the storage of a global, allocating it on first use.
func (i *interpreter) globalCell(g *ssa.Global) *value {
	if c, ok := i.globals[g]; ok {
		return c
	}
	if c, ok := i.extGlobals[g]; ok {
		return c
	}
	var cell value
	if g.Pkg != nil && !i.eng.isRepoPkg(g.Pkg) {
		// dependency globals are provided by the environment model, per path
		name := g.Pkg.Pkg.Path() + "." + g.Name()
		if prov, ok := externGlobals[name]; ok {
			cell = prov(i, g)
		} else if strings.HasPrefix(g.Name(), "init$guard") {
			cell = false
		} else if interpretable[g.Pkg.Pkg.Path()] {
			// tables and constants of library packages whose code is interpreted (unicode/utf8,
			// strconv, ...): run that package's own initialiser once; they are never written afterwards
			c := new(value)
			*c = zero(mustDeref(g.Type()))
			i.globals[g] = c
			i.initDependency(g.Pkg)
			return c
		} else {
			panic(unsupported{"read of dependency global " + name})
		}
		i.extGlobals[g] = &cell
		return &cell
	}
	cell = zero(mustDeref(g.Type()))
	i.globals[g] = &cell
	if i.ps.gcells != nil && !strings.HasPrefix(g.Name(), "init$guard") {
		i.ps.markReachable(&cell, 0)
	}
	return &cell
}

// ensureInit runs the package initialiser of a repository package once per path.
func (i *interpreter) ensureInit(p *ssa.Package) {
	if p == nil || i.inited[p] || !i.eng.isRepoPkg(p) {
		return
	}
	i.inited[p] = true
	if f := p.Func("init"); f != nil {
		call(i, nil, token.NoPos, f, nil)
	}
}

// initDependency runs the variable initialisers of an interpreted library package (the
// initialisers of the packages it imports are not run: their globals are initialised on demand).
func (i *interpreter) initDependency(p *ssa.Package) {
	if i.inited[p] {
		return
	}
	i.inited[p] = true
	p.Build()
	if f := p.Func("init"); f != nil {
		i.forceInit = f
		call(i, nil, token.NoPos, f, nil)
	}
}

// index returns a concrete, bounds-checked index (a symbolic index is concretised by forking).
func (ps *pathState) index(idx value, n int) int {
	var k int64
	if s, ok := idx.(sym); ok {
		w := s.t.Width
		var inb *smt.Term
		if kindSigned(s.k) {
			inb = smt.And(smt.BvCmp(smt.OpBvSle, smt.BV(0, w), s.t), smt.BvCmp(smt.OpBvSlt, s.t, smt.BV(uint64(n), w)))
		} else if w < 64 && uint64(n) >= uint64(1)<<uint(w) {
			inb = smt.True // every value of the index type is in range
		} else {
			inb = smt.BvCmp(smt.OpBvUlt, s.t, smt.BV(uint64(n), w))
		}
		if !ps.decide(inb) {
			panic(fmt.Sprintf("runtime error: index out of range [symbolic] with length %d", n))
		}
		k = int64(s.concretize())
	} else {
		k = asInt64(idx)
	}
	if k < 0 || k >= int64(n) {
		panic(fmt.Sprintf("runtime error: index out of range [%d] with length %d", k, n))
	}
	return int(k)
}

// selectByteTerm: table[i] as a balanced tree over the bits of i (depth log n; entries beyond n
// repeat the last one).
func selectByteTerm(i *smt.Term, table string) (*smt.Term, bool) {
	n, w := len(table), i.Width
	if n == 0 {
		return nil, false
	}
	bits := 0
	for (1 << uint(bits)) < n {
		bits++
	}
	if bits > w {
		bits = w
	}
	var build func(base, bit int) *smt.Term
	build = func(base, bit int) *smt.Term {
		if bit < 0 {
			k := base
			if k >= n {
				k = n - 1
			}
			return smt.BV(uint64(table[k]), 8)
		}
		lo, hi := build(base, bit-1), build(base|(1<<uint(bit)), bit-1)
		if lo == hi {
			return lo
		}
		return smt.Ite(smt.Eq(smt.Extract(i, bit, bit), smt.BV(1, 1)), hi, lo)
	}
	return build(0, bits-1), true
}

// selectByte: table[idx] for a symbolic idx that is decided to be in range: an if-then-else chain.
func (ps *pathState) selectByte(idx sym, table string) value {
	n := len(table)
	w := idx.t.Width
	var inb *smt.Term
	switch {
	case kindSigned(idx.k):
		inb = smt.And(smt.BvCmp(smt.OpBvSle, smt.BV(0, w), idx.t), smt.BvCmp(smt.OpBvSlt, idx.t, smt.BV(uint64(n), w)))
	case w < 64 && uint64(n) >= uint64(1)<<uint(w):
		inb = smt.True
	default:
		inb = smt.BvCmp(smt.OpBvUlt, idx.t, smt.BV(uint64(n), w))
	}
	if !ps.decide(inb) {
		panic(fmt.Sprintf("runtime error: index out of range [symbolic] with length %d", n))
	}
	t, _ := selectByteTerm(idx.t, table)
	if t.IsConst() {
		return uint8(t.Val)
	}
	return sym{t: t, k: types.Uint8, ps: ps}
}

func sendChecked(ch chan value, v value) {
	defer func() {
		if r := recover(); r != nil {
			panic(targetPanic{iface{t: types.Typ[types.String], v: "send on closed channel"}})
		}
	}()
	ch <- v
}

// ---- slice growth taken from the real runtime --------------------------------

// capAfterAppend asks the running Go runtime which capacity append gives for a
// slice whose elements have the given size / pointer-ness. gosym and the native
// replay are built by the same toolchain as the program under test.
func capAfterAppend(elemSize int64, hasPtr bool, oldLen, oldCap, add int) int {
	if elemSize == 0 {
		return oldLen + add
	}
	var et reflect.Type
	if hasPtr {
		n := int(elemSize) - 8
		if n < 0 {
			n = 0
		}
		et = reflect.StructOf([]reflect.StructField{
			{Name: "P", Type: reflect.TypeOf((*byte)(nil))},
			{Name: "B", Type: reflect.ArrayOf(n, reflect.TypeOf(byte(0)))},
		})
	} else {
		et = reflect.ArrayOf(int(elemSize), reflect.TypeOf(byte(0)))
	}
	st := reflect.SliceOf(et)
	s := reflect.MakeSlice(st, oldLen, oldCap)
	extra := reflect.MakeSlice(st, add, add)
	s = reflect.AppendSlice(s, extra)
	return s.Cap()
}

func typeHasPointers(t types.Type) bool {
	switch t := t.Underlying().(type) {
	case *types.Basic:
		return t.Kind() == types.String || t.Kind() == types.UnsafePointer
	case *types.Array:
		return typeHasPointers(t.Elem())
	case *types.Struct:
		for i := 0; i < t.NumFields(); i++ {
			if typeHasPointers(t.Field(i).Type()) {
				return true
			}
		}
		return false
	}
	return true
}

type growKey struct {
	size      int64
	ptr       bool
	l, c, add int
}

// goAppend implements append with the capacity the compiled program would get.
func goAppend(i *interpreter, elemT types.Type, s []value, add []value) []value {
	if len(add) == 0 {
		return s
	}
	if len(s)+len(add) <= cap(s) {
		n := len(s)
		s = s[:n+len(add)]
		copy(s[n:], add)
		return s
	}
	size := i.sizes.Sizeof(elemT)
	key := growKey{size, typeHasPointers(elemT), len(s), cap(s), len(add)}
	var newCap int
	if c, ok := i.eng.typeCache.Load(key); ok {
		newCap = c.(int)
	} else {
		// reflect.AppendSlice grows with the same growslice as the builtin
		newCap = capAfterAppend(size, key.ptr, len(s), cap(s), len(add))
		i.eng.typeCache.Store(key, newCap)
	}
	ns := make([]value, newCap)
	copy(ns, s)
	copy(ns[len(s):], add)
	for k := len(s) + len(add); k < newCap; k++ {
		ns[k] = zero(elemT)
	}
	return ns[:len(s)+len(add)]
}

// ---- printing ------------------------------------------------------------------

// toStringDeep renders panic values usefully (error / string payloads).
func toStringDeep(v value) string {
	switch v := v.(type) {
	case iface:
		if v.t == nil {
			return "<nil>"
		}
		switch x := v.v.(type) {
		case string:
			return x
		case *value:
			if x != nil {
				if st, ok := (*x).(structure); ok && len(st) >= 1 {
					if s, ok := st[0].(string); ok {
						return s // errors.errorString, fmt.wrapError
					}
				}
			}
		case structure:
			if len(x) >= 1 {
				if s, ok := x[0].(string); ok {
					return s
				}
			}
		}
		return toString(v.v)
	case string:
		return v
	}
	return toString(v)
}

// ---- calling back into interpreted code ----------------------------------------

// callMethod invokes a method by name on an interface value, if it has one.
func callMethod(i *interpreter, fr *frame, recv iface, name string, args ...value) (value, bool) {
	if recv.t == nil {
		return nil, false
	}
	mset := i.prog.MethodSets.MethodSet(recv.t)
	for k := 0; k < mset.Len(); k++ {
		sel := mset.At(k)
		if sel.Obj().Name() == name {
			fn := i.prog.MethodValue(sel)
			if fn == nil {
				return nil, false
			}
			return call(i, fr, token.NoPos, fn, append([]value{recv.v}, args...)), true
		}
	}
	return nil, false
}

// ---- native <-> interpreter conversion ------------------------------------------

// namedType looks up pkgpath.Name in the loaded program.
func (e *Engine) namedType(pkgPath, name string) types.Type {
	p := e.Pkgs[pkgPath]
	if p == nil {
		panic(unsupported{"package not loaded: " + pkgPath})
	}
	m := p.Type(name)
	if m == nil {
		panic(unsupported{"type not found: " + pkgPath + "." + name})
	}
	return m.Type()
}

var anyType = types.NewInterfaceType(nil, nil).Complete()

// fromNative converts a native Go value into the interpreter representation of type t.
func (e *Engine) fromNative(rv reflect.Value, t types.Type, memo map[unsafe.Pointer]*value) value {
	switch ut := t.Underlying().(type) {
	case *types.Basic:
		switch ut.Kind() {
		case types.Bool:
			return rv.Bool()
		case types.Int:
			return int(rv.Int())
		case types.Int8:
			return int8(rv.Int())
		case types.Int16:
			return int16(rv.Int())
		case types.Int32:
			return int32(rv.Int())
		case types.Int64:
			return rv.Int()
		case types.Uint:
			return uint(rv.Uint())
		case types.Uint8:
			return uint8(rv.Uint())
		case types.Uint16:
			return uint16(rv.Uint())
		case types.Uint32:
			return uint32(rv.Uint())
		case types.Uint64:
			return rv.Uint()
		case types.Uintptr:
			return uintptr(rv.Uint())
		case types.Float32:
			return float32(rv.Float())
		case types.Float64:
			return rv.Float()
		case types.String:
			return rv.String()
		}
	case *types.Struct:
		s := make(structure, ut.NumFields())
		for k := 0; k < ut.NumFields(); k++ {
			f := rv.Field(k)
			if !f.CanInterface() {
				// unexported: read through unsafe
				if f.CanAddr() {
					f = reflect.NewAt(f.Type(), unsafe.Pointer(f.UnsafeAddr())).Elem()
				} else {
					s[k] = zero(ut.Field(k).Type())
					continue
				}
			}
			s[k] = e.fromNative(f, ut.Field(k).Type(), memo)
		}
		return s
	case *types.Pointer:
		if rv.IsNil() {
			return (*value)(nil)
		}
		key := unsafe.Pointer(rv.Pointer())
		if c, ok := memo[key]; ok {
			return c
		}
		cell := new(value)
		memo[key] = cell
		*cell = e.fromNative(rv.Elem(), ut.Elem(), memo)
		return cell
	case *types.Slice:
		if rv.IsNil() {
			return []value(nil)
		}
		out := make([]value, rv.Len())
		for k := range out {
			out[k] = e.fromNative(rv.Index(k), ut.Elem(), memo)
		}
		return out
	case *types.Array:
		out := make(array, rv.Len())
		for k := range out {
			out[k] = e.fromNative(rv.Index(k), ut.Elem(), memo)
		}
		return out
	case *types.Map:
		if rv.IsNil() {
			return (*omap)(nil)
		}
		m := makeMap(ut.Key(), 0).(*omap)
		keys := rv.MapKeys()
		sortReflectKeys(keys)
		for _, k := range keys {
			m.insert(e.fromNative(k, ut.Key(), memo), e.fromNative(rv.MapIndex(k), ut.Elem(), memo))
		}
		return m
	case *types.Interface:
		if rv.Kind() == reflect.Interface {
			if rv.IsNil() {
				return iface{}
			}
			rv = rv.Elem()
		}
		dt := e.dynType(rv)
		return iface{t: dt, v: e.fromNative(rv, dt, memo)}
	}
	panic(unsupported{fmt.Sprintf("fromNative: %v <- %v", t, rv.Type())})
}

func sortReflectKeys(keys []reflect.Value) {
	if len(keys) == 0 || keys[0].Kind() != reflect.String {
		return
	}
	for i := 1; i < len(keys); i++ {
		for j := i; j > 0 && keys[j].String() < keys[j-1].String(); j-- {
			keys[j], keys[j-1] = keys[j-1], keys[j]
		}
	}
}

// dynType maps the dynamic Go type of a JSON-like native value to a types.Type.
func (e *Engine) dynType(rv reflect.Value) types.Type {
	rt := rv.Type()
	if rt.PkgPath() != "" {
		return e.namedType(rt.PkgPath(), rt.Name())
	}
	switch rt.Kind() {
	case reflect.Bool:
		return types.Typ[types.Bool]
	case reflect.Int:
		return types.Typ[types.Int]
	case reflect.Int64:
		return types.Typ[types.Int64]
	case reflect.Float64:
		return types.Typ[types.Float64]
	case reflect.String:
		return types.Typ[types.String]
	case reflect.Map:
		return types.NewMap(e.dynTypeOfType(rt.Key()), e.dynTypeOfType(rt.Elem()))
	case reflect.Slice:
		return types.NewSlice(e.dynTypeOfType(rt.Elem()))
	}
	panic(unsupported{"dynType of " + rt.String()})
}

func (e *Engine) dynTypeOfType(rt reflect.Type) types.Type {
	if rt.PkgPath() != "" && rt.Name() != "" {
		return e.namedType(rt.PkgPath(), rt.Name())
	}
	switch rt.Kind() {
	case reflect.Interface:
		if rt.NumMethod() == 0 {
			return anyType
		}
	case reflect.Bool:
		return types.Typ[types.Bool]
	case reflect.Int:
		return types.Typ[types.Int]
	case reflect.Float64:
		return types.Typ[types.Float64]
	case reflect.String:
		return types.Typ[types.String]
	case reflect.Map:
		return types.NewMap(e.dynTypeOfType(rt.Key()), e.dynTypeOfType(rt.Elem()))
	case reflect.Slice:
		return types.NewSlice(e.dynTypeOfType(rt.Elem()))
	case reflect.Struct:
		if rt.NumField() == 0 {
			return types.NewStruct(nil, nil)
		}
	}
	panic(unsupported{"dynTypeOfType of " + rt.String()})
}

// toNativeJSON converts an interpreter value holding JSON-like data (any tree of
// map[string]any, []any, string, bool, numbers, nested typed maps/slices) to native Go.
func toNativeJSON(v value) any {
	switch v := v.(type) {
	case iface:
		if v.t == nil {
			return nil
		}
		if isJSONNumber(v.t) {
			if s, ok := v.v.(string); ok {
				return json.Number(s)
			}
		}
		return toNativeJSON(v.v)
	case *omap:
		if v == nil {
			return map[string]any(nil)
		}
		out := map[string]any{}
		for _, i := range v.liveIndices() {
			k, ok := v.keys[i].(string)
			if !ok {
				panic(unsupported{fmt.Sprintf("toNativeJSON: map key %T", v.keys[i])})
			}
			out[k] = toNativeJSON(v.vals[i])
		}
		return out
	case []value:
		out := make([]any, len(v))
		for i := range v {
			out[i] = toNativeJSON(v[i])
		}
		return out
	case structure:
		out := make([]any, len(v))
		for i := range v {
			out[i] = toNativeJSON(v[i])
		}
		return out
	case string, bool, int, int64, float64, nil:
		return v
	case sym, sstr:
		panic(unsupported{"symbolic value passed to a native-only library function"})
	}
	panic(unsupported{fmt.Sprintf("toNativeJSON: %T", v)})
}

// ---- write tracking (frame conditions) ------------------------------------------

// markReachable records every storage cell and map reachable from v.
func (ps *pathState) markReachable(v value, depth int) {
	if depth > 200 {
		return
	}
	switch v := v.(type) {
	case *value:
		if v == nil || ps.gcells[v] {
			return
		}
		ps.gcells[v] = true
		ps.markAggregate(v, depth)
	case structure:
		for k := range v {
			ps.gcells[&v[k]] = true
			ps.markReachable(v[k], depth+1)
		}
	case array:
		for k := range v {
			ps.gcells[&v[k]] = true
			ps.markReachable(v[k], depth+1)
		}
	case []value:
		full := v[:cap(v)]
		for k := range full {
			if ps.gcells[&full[k]] {
				return
			}
			ps.gcells[&full[k]] = true
			ps.markReachable(full[k], depth+1)
		}
	case iface:
		ps.markReachable(v.v, depth+1)
	case *omap:
		if v == nil || ps.gmaps[v] {
			return
		}
		ps.gmaps[v] = true
		for _, i := range v.liveIndices() {
			ps.markReachable(v.vals[i], depth+1)
		}
	case *closure:
		for _, e := range v.Env {
			ps.markReachable(e, depth+1)
		}
	}
}

func (ps *pathState) markAggregate(c *value, depth int) {
	ps.markReachable(*c, depth+1)
}

// snapshotGlobals records what is reachable from the repository's package-level variables.
func (i *interpreter) snapshotGlobals() {
	ps := i.ps
	ps.gcells = map[*value]bool{}
	ps.gmaps = map[*omap]bool{}
	for g, cell := range i.globals {
		if g.Pkg != nil && i.eng.isRepoPkg(g.Pkg) && !strings.Contains(g.Pkg.Pkg.Path(), "zzverif") && !strings.HasPrefix(g.Name(), "init$guard") {
			ps.markReachable(cell, 0)
		}
	}
}

// startTracking makes the harness-visible write log start now. Objects allocated
// after package initialisation but stored into package state since then are included.
func (i *interpreter) startTracking() {
	i.snapshotGlobals()
	i.ps.trackW = true
}

func (ps *pathState) noteWrite(what string) {
	ps.dirty = true
	if !ps.trackW || ps.locked > 0 {
		return // not tracked, or performed while holding a mutex
	}
	if len(ps.writes) < 50 {
		ps.writes = append(ps.writes, what+" at "+ps.curPos())
	} else {
		ps.writes = append(ps.writes, "")
	}
}
