package gosym

import (
	"fmt"
	"go/types"
	"os"
	"path/filepath"
	"sort"
	"strings"

	"golang.org/x/tools/go/packages"
	"golang.org/x/tools/go/ssa"
	"golang.org/x/tools/go/ssa/ssautil"
)

// LoadOptions describes what to load.
type LoadOptions struct {
	RepoDir    string            // /repo
	HarnessDir string            // /verif/harness : files are overlaid at RepoDir/<relative path>
	ExtraFiles map[string][]byte // additional overlay files (absolute virtual path -> content)
	Patterns   []string
}

// BuildOverlay maps every file below harnessDir to the same relative path below repoDir.
func BuildOverlay(repoDir, harnessDir string) (map[string][]byte, []string, error) {
	ov := map[string][]byte{}
	dirs := map[string]bool{}
	err := filepath.Walk(harnessDir, func(p string, info os.FileInfo, err error) error {
		if err != nil {
			return err
		}
		if info.IsDir() || !strings.HasSuffix(p, ".go") {
			return nil
		}
		rel, _ := filepath.Rel(harnessDir, p)
		b, err := os.ReadFile(p)
		if err != nil {
			return err
		}
		target := filepath.Join(repoDir, rel)
		ov[target] = b
		dirs["./"+filepath.Dir(rel)] = true
		return nil
	})
	var ds []string
	for d := range dirs {
		ds = append(ds, d)
	}
	sort.Strings(ds)
	return ov, ds, err
}

// Load type-checks the repository (with the harness overlay and -tags verif)
// and builds SSA for it. Function bodies of dependency packages are built lazily.
func Load(opt LoadOptions) (*Engine, error) {
	ov, dirs, err := BuildOverlay(opt.RepoDir, opt.HarnessDir)
	if err != nil {
		return nil, err
	}
	for k, v := range opt.ExtraFiles {
		ov[k] = v
	}
	cfg := &packages.Config{
		Mode:       packages.LoadAllSyntax | packages.NeedModule,
		Dir:        opt.RepoDir,
		Overlay:    ov,
		BuildFlags: []string{"-tags=verif"},
		Env:        append(os.Environ(), "GOFLAGS=-mod=mod", "GOPROXY=off", "GOSUMDB=off", "GOTOOLCHAIN=local", "CGO_ENABLED=0"),
	}
	patterns := opt.Patterns
	if len(patterns) == 0 {
		patterns = append([]string{"./cmd/...", "./internal/...", "./pkg/..."}, dirs...)
	}
	// A harness file that no longer type-checks against the tree (a function it calls changed its
	// signature, a helper it uses sits in a file that was dropped) is replaced by an empty file and the
	// load is repeated: its harnesses are reported as not runnable, the others still run.
	var pkgs []*packages.Package
	dropped := map[string][]string{}
	for round := 0; ; round++ {
		pkgs, err = packages.Load(cfg, patterns...)
		if err != nil {
			return nil, err
		}
		var errs []string
		bad := map[string][]string{}
		foreign := false
		packages.Visit(pkgs, nil, func(p *packages.Package) {
			for _, e := range p.Errors {
				errs = append(errs, e.Error())
				file := e.Pos
				if k := strings.Index(file, ":"); k > 0 {
					file = file[:k]
				}
				if _, isHarness := ov[file]; isHarness && strings.HasPrefix(filepath.Base(file), "zz_verif_") {
					bad[file] = append(bad[file], e.Error())
				} else {
					foreign = true
				}
			}
		})
		if len(errs) == 0 {
			break
		}
		if foreign || len(bad) == 0 || round > 6 {
			if len(errs) > 10 {
				errs = errs[:10]
			}
			return nil, fmt.Errorf("load errors:\n%s", strings.Join(errs, "\n"))
		}
		for file, es := range bad {
			dropped[file] = es
			ov[file] = emptyHarnessFile(ov[file])
		}
	}
	prog, _ := ssautil.AllPackages(pkgs, ssa.InstantiateGenerics|ssa.SanityCheckFunctions&0)
	e := &Engine{Prog: prog, Pkgs: map[string]*ssa.Package{}, Cfg: DefaultConfig(), Fset: prog.Fset, Dropped: dropped}
	e.Sizes = types.SizesFor("gc", "amd64")
	// module path
	for _, p := range pkgs {
		if p.Module != nil {
			e.ModPath = p.Module.Path
			break
		}
	}
	for _, p := range prog.AllPackages() {
		e.Pkgs[p.Pkg.Path()] = p
	}
	for _, p := range prog.AllPackages() {
		if e.isRepoPkg(p) {
			p.Build()
		}
	}
	if rt := prog.ImportedPackage("runtime"); rt != nil {
		if t := rt.Type("errorString"); t != nil {
			e.rtErrStr = t.Object().Type()
		}
	}
	e.intr = map[string]intrinsic{}
	registerIntrinsics(e)
	return e, nil
}


// emptyHarnessFile keeps the build constraint and the package clause of a harness file.
func emptyHarnessFile(src []byte) []byte {
	var out []string
	for _, line := range strings.Split(string(src), "\n") {
		t := strings.TrimSpace(line)
		if strings.HasPrefix(t, "//") || t == "" {
			out = append(out, line)
			continue
		}
		if strings.HasPrefix(t, "package ") {
			out = append(out, line)
		}
		break
	}
	return []byte(strings.Join(out, "\n") + "\n")
}

// EmptyHarnessFile is the empty replacement of the harness file mapped to the given repository path.
func EmptyHarnessFile(realOrVirtual string) []byte {
	b, err := os.ReadFile(realOrVirtual)
	if err != nil {
		return []byte("//go:build verif\n\npackage " + filepath.Base(filepath.Dir(realOrVirtual)) + "\n")
	}
	return emptyHarnessFile(b)
}
