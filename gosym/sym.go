package gosym

import (
	"fmt"
	"go/token"
	"go/types"
	"strings"
	"unicode/utf8"

	"verif/smt"
)

func mustDeref(t types.Type) types.Type {
	if p, ok := t.Underlying().(*types.Pointer); ok {
		return p.Elem()
	}
	panic(fmt.Sprintf("mustDeref: %v is not a pointer", t))
}

// sym is a symbolic scalar: Bool (kind types.Bool) or an integer kind as a
// bit-vector of the kind's width.
type sym struct {
	t  *smt.Term
	k  types.BasicKind
	ps *pathState
}

// sstr is a string (or, transiently, the content of a []byte) of concrete
// length whose bytes are BV8 terms.
type sstr struct {
	b  []*smt.Term
	ps *pathState
}

func isSymV(v value) bool {
	switch v.(type) {
	case sym, sstr:
		return true
	}
	return false
}

func kindWidth(k types.BasicKind) int {
	switch k {
	case types.Bool:
		return 0
	case types.Int8, types.Uint8:
		return 8
	case types.Int16, types.Uint16:
		return 16
	case types.Int32, types.Uint32:
		return 32
	case types.Int, types.Int64, types.Uint, types.Uint64, types.Uintptr:
		return 64
	}
	panic(fmt.Sprintf("kindWidth: unsupported kind %v", k))
}

func kindSigned(k types.BasicKind) bool {
	switch k {
	case types.Int, types.Int8, types.Int16, types.Int32, types.Int64:
		return true
	}
	return false
}

func kindOfValue(v value) types.BasicKind {
	switch v := v.(type) {
	case sym:
		return v.k
	case bool:
		return types.Bool
	case int:
		return types.Int
	case int8:
		return types.Int8
	case int16:
		return types.Int16
	case int32:
		return types.Int32
	case int64:
		return types.Int64
	case uint:
		return types.Uint
	case uint8:
		return types.Uint8
	case uint16:
		return types.Uint16
	case uint32:
		return types.Uint32
	case uint64:
		return types.Uint64
	case uintptr:
		return types.Uintptr
	}
	return types.Invalid
}

// termOf lifts a concrete scalar to a term (or returns the sym's term).
func termOf(v value) *smt.Term {
	switch v := v.(type) {
	case sym:
		return v.t
	case bool:
		return smt.Bool(v)
	}
	k := kindOfValue(v)
	if k == types.Invalid {
		panic(unsupported{fmt.Sprintf("termOf(%T)", v)})
	}
	if kindSigned(k) {
		return smt.BV(uint64(asInt64(v)), kindWidth(k))
	}
	return smt.BV(asUint64(v), kindWidth(k))
}

// mkScalar wraps a term as a value of kind k, folding constants to native values.
func mkScalar(ps *pathState, t *smt.Term, k types.BasicKind) value {
	if t.IsConst() {
		return constOfKind(t, k)
	}
	return sym{t: t, k: k, ps: ps}
}

func constOfKind(t *smt.Term, k types.BasicKind) value {
	switch k {
	case types.Bool:
		return t.Val != 0
	case types.Int:
		return int(t.Signed())
	case types.Int8:
		return int8(t.Signed())
	case types.Int16:
		return int16(t.Signed())
	case types.Int32:
		return int32(t.Signed())
	case types.Int64:
		return int64(t.Signed())
	case types.Uint:
		return uint(t.Val)
	case types.Uint8:
		return uint8(t.Val)
	case types.Uint16:
		return uint16(t.Val)
	case types.Uint32:
		return uint32(t.Val)
	case types.Uint64:
		return uint64(t.Val)
	case types.Uintptr:
		return uintptr(t.Val)
	}
	panic(fmt.Sprintf("constOfKind %v", k))
}

func psOf(vs ...value) *pathState {
	for _, v := range vs {
		switch v := v.(type) {
		case sym:
			return v.ps
		case sstr:
			return v.ps
		}
	}
	return nil
}

// concretize forks over the feasible values of s and returns the one of this path.
func (s sym) concretize() uint64 {
	return s.ps.concretize(s.t)
}

func (s sym) asUnsignedSym() (value, bool) {
	if !kindSigned(s.k) {
		return s, true
	}
	w := kindWidth(s.k)
	neg := s.ps.decide(smt.BvCmp(smt.OpBvSlt, s.t, smt.BV(0, w)))
	var uk types.BasicKind
	switch s.k {
	case types.Int:
		uk = types.Uint
	case types.Int8:
		uk = types.Uint8
	case types.Int16:
		uk = types.Uint16
	case types.Int32:
		uk = types.Uint32
	default:
		uk = types.Uint64
	}
	return sym{t: s.t, k: uk, ps: s.ps}, !neg
}

// ---- strings ----

func (s sstr) describe() string {
	var sb strings.Builder
	sb.WriteString("sstr[")
	for i, b := range s.b {
		if i > 0 {
			sb.WriteByte(' ')
		}
		if b.IsConst() {
			fmt.Fprintf(&sb, "%q", rune(b.Val))
		} else {
			sb.WriteString(b.String())
		}
	}
	sb.WriteString("]")
	return sb.String()
}

// norm returns a Go string when every byte is constant, otherwise an sstr.
func (s sstr) norm(b []*smt.Term) value {
	return normStr(s.ps, b)
}

func normStr(ps *pathState, b []*smt.Term) value {
	all := true
	for _, x := range b {
		if !x.IsConst() {
			all = false
			break
		}
	}
	if all {
		bs := make([]byte, len(b))
		for i, x := range b {
			bs[i] = byte(x.Val)
		}
		return string(bs)
	}
	cp := make([]*smt.Term, len(b))
	copy(cp, b)
	return sstr{b: cp, ps: ps}
}

func (s sstr) byteVal(b *smt.Term) value {
	if b.IsConst() {
		return uint8(b.Val)
	}
	return sym{t: b, k: types.Uint8, ps: s.ps}
}

// strTerms returns the byte terms of a string value (string or sstr).
func strTerms(v value) []*smt.Term {
	switch v := v.(type) {
	case string:
		out := make([]*smt.Term, len(v))
		for i := 0; i < len(v); i++ {
			out[i] = smt.BV(uint64(v[i]), 8)
		}
		return out
	case sstr:
		return v.b
	}
	panic(fmt.Sprintf("strTerms(%T)", v))
}

func isStrV(v value) bool {
	switch v.(type) {
	case string, sstr:
		return true
	}
	return false
}

func strEqTerm(a, b []*smt.Term) *smt.Term {
	if len(a) != len(b) {
		return smt.False
	}
	cs := make([]*smt.Term, 0, len(a))
	for i := range a {
		cs = append(cs, smt.Eq(a[i], b[i]))
	}
	return smt.And(cs...)
}

// strLtTerm: lexicographic a < b on bytes.
func strLtTerm(a, b []*smt.Term) *smt.Term {
	// lt(i) = i==len(a)? (i<len(b)) : i==len(b)? false : a[i]<b[i] || (a[i]==b[i] && lt(i+1))
	var rec func(i int) *smt.Term
	rec = func(i int) *smt.Term {
		if i == len(a) {
			return smt.Bool(i < len(b))
		}
		if i == len(b) {
			return smt.False
		}
		return smt.Or(smt.BvCmp(smt.OpBvUlt, a[i], b[i]), smt.And(smt.Eq(a[i], b[i]), rec(i+1)))
	}
	return rec(0)
}

// symEqualsDecide compares two values of which at least one is symbolic and
// forks on the outcome (used for composite comparisons and map keys).
func symEqualsDecide(x, y value) bool {
	ps := psOf(x, y)
	if isStrV(x) && isStrV(y) {
		return ps.decide(strEqTerm(strTerms(x), strTerms(y)))
	}
	return ps.decide(smt.Eq(termOf(x), termOf(y)))
}

func symBinop(op token.Token, t types.Type, x, y value) value {
	ps := psOf(x, y)
	if isStrV(x) || isStrV(y) {
		a, b := strTerms(x), strTerms(y)
		switch op {
		case token.ADD:
			return normStr(ps, append(append([]*smt.Term{}, a...), b...))
		case token.EQL:
			return mkScalar(ps, strEqTerm(a, b), types.Bool)
		case token.NEQ:
			return mkScalar(ps, smt.Not(strEqTerm(a, b)), types.Bool)
		case token.LSS:
			return mkScalar(ps, strLtTerm(a, b), types.Bool)
		case token.GTR:
			return mkScalar(ps, strLtTerm(b, a), types.Bool)
		case token.LEQ:
			return mkScalar(ps, smt.Not(strLtTerm(b, a)), types.Bool)
		case token.GEQ:
			return mkScalar(ps, smt.Not(strLtTerm(a, b)), types.Bool)
		}
		panic(unsupported{"string binop " + op.String()})
	}
	kx, ky := kindOfValue(x), kindOfValue(y)
	if kx == types.Invalid || ky == types.Invalid {
		panic(unsupported{fmt.Sprintf("symbolic binop %s on %T,%T", op, x, y)})
	}
	a, b := termOf(x), termOf(y)
	if kx == types.Bool {
		switch op {
		case token.EQL:
			return mkScalar(ps, smt.Eq(a, b), types.Bool)
		case token.NEQ:
			return mkScalar(ps, smt.Not(smt.Eq(a, b)), types.Bool)
		case token.LAND, token.AND:
			return mkScalar(ps, smt.And(a, b), types.Bool)
		case token.LOR, token.OR:
			return mkScalar(ps, smt.Or(a, b), types.Bool)
		}
		panic(unsupported{"bool binop " + op.String()})
	}
	signed := kindSigned(kx)
	w := kindWidth(kx)
	switch op {
	case token.SHL, token.SHR:
		// shift count may have another (unsigned or signed) kind
		cnt := b
		if ky != kx {
			if kindSigned(ky) {
				if ps.decide(smt.BvCmp(smt.OpBvSlt, b, smt.BV(0, b.Width))) {
					panic("runtime error: negative shift amount")
				}
			}
			if b.Width < w {
				cnt = smt.Zext(b, w)
			} else if b.Width > w {
				// saturate: count >= w behaves like w
				big := smt.BvCmp(smt.OpBvUle, smt.BV(uint64(w), b.Width), b)
				cnt = smt.Ite(big, smt.BV(uint64(w), w), smt.Extract(b, w-1, 0))
			}
		}
		if op == token.SHL {
			return mkScalar(ps, smt.BvBin(smt.OpBvShl, a, cnt), kx)
		}
		if signed {
			return mkScalar(ps, smt.BvBin(smt.OpBvAshr, a, cnt), kx)
		}
		return mkScalar(ps, smt.BvBin(smt.OpBvLshr, a, cnt), kx)
	}
	if kx != ky {
		panic(unsupported{fmt.Sprintf("binop %s kinds %v/%v", op, kx, ky)})
	}
	switch op {
	case token.ADD:
		return mkScalar(ps, smt.BvBin(smt.OpBvAdd, a, b), kx)
	case token.SUB:
		return mkScalar(ps, smt.BvBin(smt.OpBvSub, a, b), kx)
	case token.MUL:
		return mkScalar(ps, smt.BvBin(smt.OpBvMul, a, b), kx)
	case token.QUO, token.REM:
		if ps.decide(smt.Eq(b, smt.BV(0, w))) {
			panic("runtime error: integer divide by zero")
		}
		var o smt.Op
		switch {
		case op == token.QUO && signed:
			o = smt.OpBvSdiv
		case op == token.QUO:
			o = smt.OpBvUdiv
		case signed:
			o = smt.OpBvSrem
		default:
			o = smt.OpBvUrem
		}
		return mkScalar(ps, smt.BvBin(o, a, b), kx)
	case token.AND:
		return mkScalar(ps, smt.BvBin(smt.OpBvAnd, a, b), kx)
	case token.OR:
		return mkScalar(ps, smt.BvBin(smt.OpBvOr, a, b), kx)
	case token.XOR:
		return mkScalar(ps, smt.BvBin(smt.OpBvXor, a, b), kx)
	case token.AND_NOT:
		return mkScalar(ps, smt.BvBin(smt.OpBvAnd, a, smt.BvNot(b)), kx)
	case token.EQL:
		return mkScalar(ps, smt.Eq(a, b), types.Bool)
	case token.NEQ:
		return mkScalar(ps, smt.Not(smt.Eq(a, b)), types.Bool)
	case token.LSS:
		if signed {
			return mkScalar(ps, smt.BvCmp(smt.OpBvSlt, a, b), types.Bool)
		}
		return mkScalar(ps, smt.BvCmp(smt.OpBvUlt, a, b), types.Bool)
	case token.LEQ:
		if signed {
			return mkScalar(ps, smt.BvCmp(smt.OpBvSle, a, b), types.Bool)
		}
		return mkScalar(ps, smt.BvCmp(smt.OpBvUle, a, b), types.Bool)
	case token.GTR:
		if signed {
			return mkScalar(ps, smt.BvCmp(smt.OpBvSlt, b, a), types.Bool)
		}
		return mkScalar(ps, smt.BvCmp(smt.OpBvUlt, b, a), types.Bool)
	case token.GEQ:
		if signed {
			return mkScalar(ps, smt.BvCmp(smt.OpBvSle, b, a), types.Bool)
		}
		return mkScalar(ps, smt.BvCmp(smt.OpBvUle, b, a), types.Bool)
	}
	panic(unsupported{"symbolic binop " + op.String()})
}

func symUnop(op token.Token, x value) value {
	s, ok := x.(sym)
	if !ok {
		panic(unsupported{fmt.Sprintf("symbolic unop %s on %T", op, x)})
	}
	switch op {
	case token.NOT:
		return mkScalar(s.ps, smt.Not(s.t), types.Bool)
	case token.SUB:
		return mkScalar(s.ps, smt.BvNeg(s.t), s.k)
	case token.XOR:
		return mkScalar(s.ps, smt.BvNot(s.t), s.k)
	}
	panic(unsupported{"symbolic unop " + op.String()})
}

// symConv handles conversions whose operand is symbolic. ok=false means
// "not symbolic, use the concrete path".
func symConv(utDst, utSrc types.Type, x value) (value, bool) {
	switch x := x.(type) {
	case sym:
		db, ok := utDst.(*types.Basic)
		if !ok {
			panic(unsupported{fmt.Sprintf("conversion of symbolic scalar to %v", utDst)})
		}
		if db.Kind() == types.String {
			// string(rune): only single ASCII byte supported
			w := x.t.Width
			if x.ps.decide(smt.BvCmp(smt.OpBvUlt, x.t, smt.BV(0x80, w))) {
				return normStr(x.ps, []*smt.Term{smt.Extract(x.t, 7, 0)}), true
			}
			panic(unsupported{"string(rune) of non-ASCII symbolic rune"})
		}
		if db.Info()&types.IsInteger == 0 {
			panic(unsupported{fmt.Sprintf("conversion of symbolic integer to %v", db)})
		}
		dk := db.Kind()
		dw := kindWidth(dk)
		var t *smt.Term
		if kindSigned(x.k) {
			t = smt.Sext(x.t, dw)
		} else {
			t = smt.Zext(x.t, dw)
		}
		return mkScalar(x.ps, t, dk), true
	case sstr:
		switch d := utDst.(type) {
		case *types.Basic:
			if d.Kind() == types.String {
				return x, true
			}
		case *types.Slice:
			if d.Elem().Underlying().(*types.Basic).Kind() == types.Byte {
				res := make([]value, len(x.b))
				for i, b := range x.b {
					res[i] = x.byteVal(b)
				}
				return res, true
			}
			// []rune(s): ASCII only
			res := make([]value, len(x.b))
			for i, b := range x.b {
				if !b.IsConst() {
					if !x.ps.decide(smt.BvCmp(smt.OpBvUlt, b, smt.BV(0x80, 8))) {
						panic(unsupported{"[]rune of non-ASCII symbolic byte"})
					}
					res[i] = sym{t: smt.Zext(b, 32), k: types.Int32, ps: x.ps}
				} else {
					if b.Val >= 0x80 {
						panic(unsupported{"[]rune of mixed symbolic/non-ASCII string"})
					}
					res[i] = int32(b.Val)
				}
			}
			return res, true
		}
		panic(unsupported{fmt.Sprintf("conversion of symbolic string to %v", utDst)})
	case []value:
		// []byte -> string with symbolic bytes
		if sl, ok := utSrc.(*types.Slice); ok {
			if db, ok := utDst.(*types.Basic); ok && db.Kind() == types.String {
				if eb, ok := sl.Elem().Underlying().(*types.Basic); ok && eb.Kind() == types.Byte {
					var ps *pathState
					any := false
					for _, e := range x {
						if s, ok := e.(sym); ok {
							any = true
							ps = s.ps
						}
					}
					if !any {
						return nil, false
					}
					ts := make([]*smt.Term, len(x))
					for i, e := range x {
						ts[i] = termOf(e)
					}
					return normStr(ps, ts), true
				}
			}
		}
	}
	return nil, false
}

// sstrIter ranges over a symbolic string: UTF-8 decoding as utf8.DecodeRuneInString does it, forking
// on the class of each byte (lead byte of a 1-4 byte sequence, continuation in the accepted range,
// anything else: U+FFFD and one byte consumed).
type sstrIter struct {
	s  sstr
	ps *pathState
	i  int
}

func (it *sstrIter) next() tuple {
	if it.i >= len(it.s.b) {
		return tuple{false, nil, nil}
	}
	idx := it.i
	b0 := it.s.b[idx]
	ps := it.ps
	inRange := func(b *smt.Term, lo, hi uint64) *smt.Term {
		return smt.And(smt.BvCmp(smt.OpBvUle, smt.BV(lo, 8), b), smt.BvCmp(smt.OpBvUle, b, smt.BV(hi, 8)))
	}
	is := func(c *smt.Term) bool {
		if c.IsTrue() {
			return true
		}
		if c.IsFalse() {
			return false
		}
		return ps.decide(c)
	}
	bits := func(b *smt.Term, mask uint64, shift uint64) *smt.Term {
		return smt.BvBin(smt.OpBvShl, smt.Zext(smt.BvBin(smt.OpBvAnd, b, smt.BV(mask, 8)), 32), smt.BV(shift, 32))
	}
	mk := func(t *smt.Term, size int) tuple {
		it.i += size
		if t.IsConst() {
			return tuple{true, idx, int32(t.Val)}
		}
		return tuple{true, idx, sym{t: t, k: types.Int32, ps: ps}}
	}
	bad := func() tuple { return mk(smt.BV(0xFFFD, 32), 1) }
	// the decoding of utf8.DecodeRuneInString, one fork per class of bytes
	if is(smt.BvCmp(smt.OpBvUlt, b0, smt.BV(0x80, 8))) {
		return mk(smt.Zext(b0, 32), 1)
	}
	rest := it.s.b[idx+1:]
	cont := func(k int) bool { return len(rest) > k && is(inRange(rest[k], 0x80, 0xBF)) }
	or3 := func(a, b, c *smt.Term) *smt.Term {
		return smt.BvBin(smt.OpBvOr, smt.BvBin(smt.OpBvOr, a, b), c)
	}
	switch {
	case is(inRange(b0, 0xC2, 0xDF)):
		if !cont(0) {
			return bad()
		}
		return mk(smt.BvBin(smt.OpBvOr, bits(b0, 0x1F, 6), bits(rest[0], 0x3F, 0)), 2)
	case is(inRange(b0, 0xE0, 0xEF)):
		if len(rest) < 2 {
			return bad()
		}
		lo, hi := uint64(0x80), uint64(0xBF)
		if is(smt.Eq(b0, smt.BV(0xE0, 8))) {
			lo = 0xA0
		} else if is(smt.Eq(b0, smt.BV(0xED, 8))) {
			hi = 0x9F
		}
		if !is(inRange(rest[0], lo, hi)) || !cont(1) {
			return bad()
		}
		return mk(or3(bits(b0, 0x0F, 12), bits(rest[0], 0x3F, 6), bits(rest[1], 0x3F, 0)), 3)
	case is(inRange(b0, 0xF0, 0xF4)):
		if len(rest) < 3 {
			return bad()
		}
		lo, hi := uint64(0x80), uint64(0xBF)
		if is(smt.Eq(b0, smt.BV(0xF0, 8))) {
			lo = 0x90
		} else if is(smt.Eq(b0, smt.BV(0xF4, 8))) {
			hi = 0x8F
		}
		if !is(inRange(rest[0], lo, hi)) || !cont(1) || !cont(2) {
			return bad()
		}
		return mk(smt.BvBin(smt.OpBvOr, or3(bits(b0, 0x07, 18), bits(rest[0], 0x3F, 12), bits(rest[1], 0x3F, 6)), bits(rest[2], 0x3F, 0)), 4)
	}
	return bad()
}

// SelfTestRuneIter compares the symbolic UTF-8 decoder of range-over-string with the runtime's on
// concrete byte strings pushed through the same code (constant terms): every string of up to two
// bytes, and strings of three and four bytes over the bytes where the decoding rules change.
func SelfTestRuneIter() (checked int, mismatch string) {
	edges := []byte{0x00, 0x41, 0x7F, 0x80, 0x8F, 0x90, 0x9F, 0xA0, 0xBF, 0xC0, 0xC1, 0xC2, 0xDF, 0xE0, 0xE1, 0xEC, 0xED, 0xEE, 0xEF, 0xF0, 0xF1, 0xF3, 0xF4, 0xF5, 0xFF}
	var all []byte
	for b := 0; b < 256; b++ {
		all = append(all, byte(b))
	}
	check := func(bs []byte) string {
		ts := make([]*smt.Term, len(bs))
		for k, b := range bs {
			ts[k] = smt.BV(uint64(b), 8)
		}
		it := &sstrIter{s: sstr{b: ts}, ps: nil}
		for i, r := range string(bs) {
			got := it.next()
			if got[0] != true || got[1] != i || got[2] != int32(r) {
				return fmt.Sprintf("rune decoding of % x at %d: got %v, runtime %d", bs, i, got, r)
			}
		}
		if got := it.next(); got[0] != false {
			return fmt.Sprintf("rune decoding of % x does not end where the runtime's does", bs)
		}
		checked++
		return ""
	}
	var rec func(prefix []byte, n int, alphabet []byte) string
	rec = func(prefix []byte, n int, alphabet []byte) string {
		if n == 0 {
			return check(prefix)
		}
		for _, b := range alphabet {
			if m := rec(append(append([]byte{}, prefix...), b), n-1, alphabet); m != "" {
				return m
			}
		}
		return ""
	}
	for n, alphabet := range [][]byte{nil, all, all, edges, edges} {
		if m := rec(nil, n, alphabet); m != "" {
			return checked, m
		}
	}
	return checked, ""
}

// SelfTestUTF8Valid compares the validity formula with utf8.Valid on the byte strings of
// SelfTestRuneIter's shape (all strings of up to two bytes, edge bytes for three and four).
func SelfTestUTF8Valid() (checked int, mismatch string) {
	edges := []byte{0x00, 0x41, 0x7F, 0x80, 0x8F, 0x90, 0x9F, 0xA0, 0xBF, 0xC0, 0xC1, 0xC2, 0xDF, 0xE0, 0xE1, 0xEC, 0xED, 0xEE, 0xEF, 0xF0, 0xF1, 0xF3, 0xF4, 0xF5, 0xFF}
	var all []byte
	for b := 0; b < 256; b++ {
		all = append(all, byte(b))
	}
	var rec func(prefix []byte, n int, alphabet []byte) string
	rec = func(prefix []byte, n int, alphabet []byte) string {
		if n == 0 {
			ts := make([]*smt.Term, len(prefix))
			for k, b := range prefix {
				ts[k] = smt.BV(uint64(b), 8)
			}
			got := utf8ValidTerm(ts)
			if !(got.IsTrue() || got.IsFalse()) || got.IsTrue() != utf8.Valid(prefix) {
				return fmt.Sprintf("UTF-8 validity of % x: formula %v, runtime %v", prefix, got, utf8.Valid(prefix))
			}
			checked++
			return ""
		}
		for _, b := range alphabet {
			if m := rec(append(append([]byte{}, prefix...), b), n-1, alphabet); m != "" {
				return m
			}
		}
		return ""
	}
	for n, alphabet := range [][]byte{nil, all, all, edges, edges} {
		if m := rec(nil, n, alphabet); m != "" {
			return checked, m
		}
	}
	return checked, ""
}

// SelfTestSelectByte: the term for table[i] with a symbolic i evaluates to the table's byte for every
// index, for tables of several lengths and index widths.
func SelfTestSelectByte() (checked int, mismatch string) {
	tables := []string{"0123456789abcdef", "ab", "xyz", "0123456789", strings.Repeat("q", 200) + "Z"}
	for _, table := range tables {
		for _, w := range []int{8, 32, 64} {
			v := smt.Var(fmt.Sprintf("sb_i_%d", w), w)
			term, ok := selectByteTerm(v, table)
			if !ok {
				return checked, "select term not built"
			}
			for k := 0; k < len(table); k++ {
				got := smt.Eval(term, map[string]uint64{v.Name: uint64(k)}, map[*smt.Term]uint64{})
				if byte(got) != table[k] {
					return checked, fmt.Sprintf("table %q index %d width %d: term gives %d", table[:4], k, w, got)
				}
				checked++
			}
		}
	}
	return checked, ""
}
