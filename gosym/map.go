package gosym

import "go/types"

// omap is the interpreter's representation of every Go map: insertion-ordered,
// deterministic, and able to hold keys with symbolic components (those are
// compared with equals(), which forks on symbolic equality).
type omap struct {
	kt      types.Type
	keys    []value
	vals    []value
	dead    []bool
	n       int
	buckets map[int][]int // concrete keys only
	symKeys []int         // indices of keys containing symbolic parts
}

func makeMap(kt types.Type, reserve int64) value {
	return &omap{kt: kt, buckets: map[int][]int{}}
}

func hasSym(v value) bool {
	switch v := v.(type) {
	case sym, sstr:
		return true
	case structure:
		for _, e := range v {
			if hasSym(e) {
				return true
			}
		}
	case array:
		for _, e := range v {
			if hasSym(e) {
				return true
			}
		}
	case iface:
		return hasSym(v.v)
	}
	return false
}

func (m *omap) find(k value) int {
	if hasSym(k) {
		for i := range m.keys {
			if !m.dead[i] && equals(m.kt, m.keys[i], k) {
				return i
			}
		}
		return -1
	}
	h := hash(m.kt, m.kt, k)
	for _, i := range m.buckets[h] {
		if !m.dead[i] && equals(m.kt, m.keys[i], k) {
			return i
		}
	}
	for _, i := range m.symKeys {
		if !m.dead[i] && equals(m.kt, m.keys[i], k) {
			return i
		}
	}
	return -1
}

func (m *omap) lookup(k value) (value, bool) {
	if m == nil {
		return nil, false
	}
	if i := m.find(k); i >= 0 {
		return m.vals[i], true
	}
	return nil, false
}

func (m *omap) insert(k, v value) {
	if m == nil {
		panic("assignment to entry in nil map")
	}
	if i := m.find(k); i >= 0 {
		m.vals[i] = v
		return
	}
	i := len(m.keys)
	m.keys = append(m.keys, k)
	m.vals = append(m.vals, v)
	m.dead = append(m.dead, false)
	m.n++
	if hasSym(k) {
		m.symKeys = append(m.symKeys, i)
	} else {
		h := hash(m.kt, m.kt, k)
		m.buckets[h] = append(m.buckets[h], i)
	}
}

func (m *omap) delete(k value) {
	if m == nil {
		return
	}
	if i := m.find(k); i >= 0 {
		m.dead[i] = true
		m.n--
	}
}

func (m *omap) len() int {
	if m == nil {
		return 0
	}
	return m.n
}

// liveIndices returns the indices of live entries in insertion order.
func (m *omap) liveIndices() []int {
	if m == nil {
		return nil
	}
	var out []int
	for i := range m.keys {
		if !m.dead[i] {
			out = append(out, i)
		}
	}
	return out
}

type omapIter struct {
	m     *omap
	order []int
	pos   int
}

func (it *omapIter) next() tuple {
	for it.pos < len(it.order) {
		i := it.order[it.pos]
		it.pos++
		if it.m.dead[i] {
			continue
		}
		return tuple{true, it.m.keys[i], it.m.vals[i]}
	}
	return tuple{false, nil, nil}
}
