// Copyright 2013 The Go Authors. All rights reserved.
// Use of this source code is governed by a BSD-style
// license that can be found in the LICENSE file.

// Package ssa/interp defines an interpreter for the SSA
// representation of Go programs.
//
// This interpreter is provided as an adjunct for testing the SSA
// construction algorithm.  Its purpose is to provide a minimal
// metacircular implementation of the dynamic semantics of each SSA
// instruction.  It is not, and will never be, a production-quality Go
// interpreter.
//
// The following is a partial list of Go features that are currently
// unsupported or incomplete in the interpreter.
//
// * Unsafe operations, including all uses of unsafe.Pointer, are
// impossible to support given the "boxed" value representation we
// have chosen.
//
// * The reflect package is only partially implemented.
//
// * The "testing" package is no longer supported because it
// depends on low-level details that change too often.
//
// * "sync/atomic" operations are not atomic due to the "boxed" value
// representation: it is not possible to read, modify and write an
// interface value atomically. As a consequence, Mutexes are currently
// broken.
//
// * recover is only partially implemented.  Also, the interpreter
// makes no attempt to distinguish target panics from interpreter
// crashes.
//
// * the sizes of the int, uint and uintptr types in the target
// program are assumed to be the same as those of the interpreter
// itself.
//
// * all values occupy space, even those of types defined by the spec
// to have zero size, e.g. struct{}.  This can cause asymptotic
// performance degradation.
//
// * os.Exit is implemented using panic, causing deferred functions to
// run.
package gosym // import "golang.org/x/tools/go/ssa/interp"

import (
	"fmt"
	"go/token"
	"go/types"
	"log"
	"os"
	"reflect"
	"runtime"
	"slices"
	"strings"
	_ "unsafe"

	"golang.org/x/tools/go/ssa"
)

type continuation int

const (
	kNext continuation = iota
	kReturn
	kJump
)

// Mode is a bitmask of options affecting the interpreter.
type Mode uint

const (
	DisableRecover Mode = 1 << iota // Disable recover() in target programs; show interpreter crash instead.
	EnableTracing                   // Print a trace of all instructions as they are interpreted.
)

type methodSet map[string]*ssa.Function

// State shared between all interpreted goroutines.
type interpreter struct {
	osArgs             []value                // the value of os.Args
	prog               *ssa.Program           // the SSA program
	globals            map[*ssa.Global]*value // addresses of global variables (immutable)
	mode               Mode                   // interpreter options
	reflectPackage     *ssa.Package           // the fake reflect package
	errorMethods       methodSet              // the method set of reflect.error, which implements the error interface.
	rtypeMethods       methodSet              // the method set of rtype, which implements the reflect.Type interface.
	runtimeErrorString types.Type             // the runtime.errorString type
	sizes              types.Sizes            // the effective type-sizing function
	goroutines         int32                  // atomically updated
	ps                 *pathState
	eng                *Engine
	fnsSeen            map[string]bool
	intrSeen           map[string]bool
	inited             map[*ssa.Package]bool
	forceInit          *ssa.Function // the dependency initialiser initDependency is about to run
	depth              int           // current call depth of the interpreted program
	extGlobals         map[*ssa.Global]*value
	curFrame           *frame
	curInstr           ssa.Instruction
}

type deferred struct {
	fn    value
	args  []value
	instr *ssa.Defer
	tail  *deferred
}

type frame struct {
	i                *interpreter
	caller           *frame
	fn               *ssa.Function
	block, prevBlock *ssa.BasicBlock
	env              map[ssa.Value]value // dynamic values of SSA variables
	locals           []value
	defers           *deferred
	result           value
	panicking        bool
	panic            interface{}
	phitemps         []value // temporaries for parallel phi assignment
}

func (fr *frame) get(key ssa.Value) value {
	switch key := key.(type) {
	case nil:
		// Hack; simplifies handling of optional attributes
		// such as ssa.Slice.{Low,High}.
		return nil
	case *ssa.Function, *ssa.Builtin:
		return key
	case *ssa.Const:
		return constValue(key)
	case *ssa.Global:
		return fr.i.globalCell(key)
	}
	if r, ok := fr.env[key]; ok {
		return r
	}
	panic(fmt.Sprintf("get: no value for %T: %v", key, key.Name()))
}

// runDefer runs a deferred call d.
// It always returns normally, but may set or clear fr.panic.
func (fr *frame) runDefer(d *deferred) {
	if fr.i.mode&EnableTracing != 0 {
		fmt.Fprintf(os.Stderr, "%s: invoking deferred function call\n",
			fr.i.prog.Fset.Position(d.instr.Pos()))
	}
	var ok bool
	defer func() {
		if !ok {
			// Deferred call created a new state of panic.
			fr.panicking = true
			fr.panic = recover()
		}
	}()
	call(fr.i, fr, d.instr.Pos(), d.fn, d.args)
	ok = true
}

// runDefers executes fr's deferred function calls in LIFO order.
//
// On entry, fr.panicking indicates a state of panic; if
// true, fr.panic contains the panic value.
//
// On completion, if a deferred call started a panic, or if no
// deferred call recovered from a previous state of panic, then
// runDefers itself panics after the last deferred call has run.
//
// If there was no initial state of panic, or it was recovered from,
// runDefers returns normally.
func (fr *frame) runDefers() {
	for d := fr.defers; d != nil; d = d.tail {
		fr.runDefer(d)
	}
	fr.defers = nil
	if fr.panicking {
		panic(fr.panic) // new panic, or still panicking
	}
}

// lookupMethod returns the method set for type typ, which may be one
// of the interpreter's fake types.
func lookupMethod(i *interpreter, typ types.Type, meth *types.Func) *ssa.Function {
	return i.prog.LookupMethod(typ, meth.Pkg(), meth.Name())
}

// visitInstr interprets a single ssa.Instruction within the activation
// record frame.  It returns a continuation value indicating where to
// read the next instruction from.
func visitInstr(fr *frame, instr ssa.Instruction) continuation {
	switch instr := instr.(type) {
	case *ssa.DebugRef:
		// no-op

	case *ssa.UnOp:
		fr.env[instr] = unop(instr, fr.get(instr.X))

	case *ssa.BinOp:
		fr.env[instr] = binop(instr.Op, instr.X.Type(), fr.get(instr.X), fr.get(instr.Y))

	case *ssa.Call:
		fn, args := prepareCall(fr, &instr.Call)
		fr.env[instr] = call(fr.i, fr, instr.Pos(), fn, args)

	case *ssa.ChangeInterface:
		fr.env[instr] = fr.get(instr.X)

	case *ssa.ChangeType:
		fr.env[instr] = fr.get(instr.X) // (can't fail)

	case *ssa.Convert:
		fr.env[instr] = conv(instr.Type(), instr.X.Type(), fr.get(instr.X))

	case *ssa.SliceToArrayPointer:
		fr.env[instr] = sliceToArrayPointer(instr.Type(), instr.X.Type(), fr.get(instr.X))

	case *ssa.MakeInterface:
		fr.env[instr] = iface{t: instr.X.Type(), v: fr.get(instr.X)}

	case *ssa.Extract:
		fr.env[instr] = fr.get(instr.Tuple).(tuple)[instr.Index]

	case *ssa.Slice:
		fr.env[instr] = slice(fr.get(instr.X), fr.get(instr.Low), fr.get(instr.High), fr.get(instr.Max))

	case *ssa.Return:
		switch len(instr.Results) {
		case 0:
		case 1:
			fr.result = fr.get(instr.Results[0])
		default:
			var res []value
			for _, r := range instr.Results {
				res = append(res, fr.get(r))
			}
			fr.result = tuple(res)
		}
		fr.block = nil
		return kReturn

	case *ssa.RunDefers:
		fr.runDefers()

	case *ssa.Panic:
		panic(targetPanic{fr.get(instr.X)})

	case *ssa.Send:
		ch := fr.get(instr.Chan).(chan value)
		if ch == nil || (len(ch) == cap(ch)) {
			// single-threaded execution: a send that cannot proceed blocks forever
			fr.i.ps.violation("BLOCK:send", "send on a full or nil channel would block forever", nil)
			panic(pathEnd{"ok", "blocked"})
		}
		sendChecked(ch, fr.get(instr.X))

	case *ssa.Store:
		addr := fr.get(instr.Addr).(*value)
		if fr.i.ps.gcells != nil {
			if g, ok := instr.Addr.(*ssa.Global); ok && fr.i.eng.isRepoPkg(g.Pkg) && !strings.Contains(g.Pkg.Pkg.Path(), "zzverif") {
				fr.i.ps.noteWrite("store to package variable " + g.String())
			} else if fr.i.ps.gcells[addr] {
				fr.i.ps.noteWrite("store into state reachable from a package variable")
			}
		}
		store(mustDeref(instr.Addr.Type()), addr, fr.get(instr.Val))

	case *ssa.If:
		succ := 1
		switch c := fr.get(instr.Cond).(type) {
		case bool:
			if c {
				succ = 0
			}
		case sym:
			if fr.i.ps.decide(c.t) {
				succ = 0
			}
		default:
			panic(fmt.Sprintf("If on %T", c))
		}
		fr.prevBlock, fr.block = fr.block, fr.block.Succs[succ]
		return kJump

	case *ssa.Jump:
		fr.prevBlock, fr.block = fr.block, fr.block.Succs[0]
		return kJump

	case *ssa.Defer:
		fn, args := prepareCall(fr, &instr.Call)
		defers := &fr.defers
		if into := fr.get(instr.DeferStack); into != nil {
			defers = into.(**deferred)
		}
		*defers = &deferred{
			fn:    fn,
			args:  args,
			instr: instr,
			tail:  *defers,
		}

	case *ssa.Go:
		// goroutines are run cooperatively: each to completion, at the next synchronisation point of
		// its creator (WaitGroup.Wait, the end of the harness), in an order that is the executor's
		// choice while schedule exploration is on (no preemption: interleavings inside a goroutine's
		// body are the business of the write-set lemma)
		fn, args := prepareCall(fr, &instr.Call)
		fr.i.ps.goroutines = append(fr.i.ps.goroutines, func() {
			fr.i.ps.inGoroutine++
			defer func() { fr.i.ps.inGoroutine-- }()
			call(fr.i, nil, instr.Pos(), fn, args)
		})

	case *ssa.MakeChan:
		fr.env[instr] = make(chan value, asInt64(fr.get(instr.Size)))

	case *ssa.Alloc:
		var addr *value
		if instr.Heap {
			// new
			addr = new(value)
			fr.env[instr] = addr
		} else {
			// local
			addr = fr.env[instr].(*value)
		}
		*addr = zero(mustDeref(instr.Type()))

	case *ssa.MakeSlice:
		slice := make([]value, asInt64(fr.get(instr.Cap)))
		tElt := instr.Type().Underlying().(*types.Slice).Elem()
		for i := range slice {
			slice[i] = zero(tElt)
		}
		fr.env[instr] = slice[:asInt64(fr.get(instr.Len))]

	case *ssa.MakeMap:
		var reserve int64
		if instr.Reserve != nil {
			reserve = asInt64(fr.get(instr.Reserve))
		}
		if !fitsInt(reserve, fr.i.sizes) {
			panic(fmt.Sprintf("ssa.MakeMap.Reserve value %d does not fit in int", reserve))
		}
		fr.env[instr] = makeMap(instr.Type().Underlying().(*types.Map).Key(), reserve)

	case *ssa.Range:
		fr.env[instr] = rangeIter(fr, fr.get(instr.X), instr.X.Type())

	case *ssa.Next:
		fr.env[instr] = fr.get(instr.Iter).(iter).next()

	case *ssa.FieldAddr:
		fr.env[instr] = &(*fr.get(instr.X).(*value)).(structure)[instr.Field]

	case *ssa.Field:
		fr.env[instr] = fr.get(instr.X).(structure)[instr.Field]

	case *ssa.IndexAddr:
		x := fr.get(instr.X)
		idx := fr.get(instr.Index)
		switch x := x.(type) {
		case []value:
			fr.env[instr] = &x[fr.i.ps.index(idx, len(x))]
		case *value: // *array
			a := (*x).(array)
			fr.env[instr] = &a[fr.i.ps.index(idx, len(a))]
		default:
			panic(fmt.Sprintf("unexpected x type in IndexAddr: %T", x))
		}

	case *ssa.Index:
		x := fr.get(instr.X)
		idx := fr.get(instr.Index)

		switch x := x.(type) {
		case array:
			fr.env[instr] = x[fr.i.ps.index(idx, len(x))]
		case string:
			if si, ok := idx.(sym); ok && len(x) > 0 && len(x) <= 256 {
				// a symbolic index into a constant string (a digit table): the byte is a term over the index
				// (bounds decided once), not one path per index value
				fr.env[instr] = fr.i.ps.selectByte(si, x)
				break
			}
			fr.env[instr] = x[fr.i.ps.index(idx, len(x))]
		case sstr:
			fr.env[instr] = x.byteVal(x.b[fr.i.ps.index(idx, len(x.b))])
		default:
			panic(fmt.Sprintf("unexpected x type in Index: %T", x))
		}

	case *ssa.Lookup:
		fr.env[instr] = lookup(instr, fr.get(instr.X), fr.get(instr.Index))

	case *ssa.MapUpdate:
		m := fr.get(instr.Map)
		key := fr.get(instr.Key)
		v := fr.get(instr.Value)
		switch m := m.(type) {
		case *omap:
			if fr.i.ps.gmaps != nil && fr.i.ps.gmaps[m] {
				fr.i.ps.noteWrite("update of a map reachable from a package variable")
			}
			m.insert(key, v)
		default:
			panic(fmt.Sprintf("illegal map type: %T", m))
		}

	case *ssa.TypeAssert:
		fr.env[instr] = typeAssert(fr.i, instr, fr.get(instr.X).(iface))

	case *ssa.MakeClosure:
		var bindings []value
		for _, binding := range instr.Bindings {
			bindings = append(bindings, fr.get(binding))
		}
		fr.env[instr] = &closure{instr.Fn.(*ssa.Function), bindings}

	case *ssa.Phi:
		log.Fatal("unreachable") // phis are processed at block entry

	case *ssa.Select:
		var cases []reflect.SelectCase
		if !instr.Blocking {
			cases = append(cases, reflect.SelectCase{
				Dir: reflect.SelectDefault,
			})
		}
		for _, state := range instr.States {
			var dir reflect.SelectDir
			if state.Dir == types.RecvOnly {
				dir = reflect.SelectRecv
			} else {
				dir = reflect.SelectSend
			}
			var send reflect.Value
			if state.Send != nil {
				send = reflect.ValueOf(fr.get(state.Send))
			}
			cases = append(cases, reflect.SelectCase{
				Dir:  dir,
				Chan: reflect.ValueOf(fr.get(state.Chan)),
				Send: send,
			})
		}
		chosen, recv, recvOk := reflect.Select(cases)
		if !instr.Blocking {
			chosen-- // default case should have index -1.
		}
		r := tuple{chosen, recvOk}
		for i, st := range instr.States {
			if st.Dir == types.RecvOnly {
				var v value
				if i == chosen && recvOk {
					// No need to copy since send makes an unaliased copy.
					v = recv.Interface().(value)
				} else {
					v = zero(st.Chan.Type().Underlying().(*types.Chan).Elem())
				}
				r = append(r, v)
			}
		}
		fr.env[instr] = r

	default:
		panic(fmt.Sprintf("unexpected instruction: %T", instr))
	}

	// if val, ok := instr.(ssa.Value); ok {
	// 	fmt.Println(toString(fr.env[val])) // debugging
	// }

	return kNext
}

// prepareCall determines the function value and argument values for a
// function call in a Call, Go or Defer instruction, performing
// interface method lookup if needed.
func prepareCall(fr *frame, call *ssa.CallCommon) (fn value, args []value) {
	v := fr.get(call.Value)
	if call.Method == nil {
		// Function call.
		fn = v
	} else {
		// Interface method invocation.
		recv := v.(iface)
		if recv.t == nil {
			panic("method invoked on nil interface")
		}
		if f := lookupMethod(fr.i, recv.t, call.Method); f == nil {
			// Unreachable in well-typed programs.
			panic(fmt.Sprintf("method set for dynamic type %v does not contain %s", recv.t, call.Method))
		} else {
			fn = f
		}
		args = append(args, recv.v)
	}
	for _, arg := range call.Args {
		args = append(args, fr.get(arg))
	}
	return
}

// call interprets a call to a function (function, builtin or closure)
// fn with arguments args, returning its result.
// callpos is the position of the callsite.
func call(i *interpreter, caller *frame, callpos token.Pos, fn value, args []value) value {
	switch fn := fn.(type) {
	case *ssa.Function:
		if fn == nil {
			panic("call of nil function") // nil of func type
		}
		return callSSA(i, caller, callpos, fn, args, nil)
	case *closure:
		return callSSA(i, caller, callpos, fn.Fn, args, fn.Env)
	case *ssa.Builtin:
		return callBuiltin(caller, callpos, fn, args)
	}
	panic(fmt.Sprintf("cannot call %T", fn))
}

func loc(fset *token.FileSet, pos token.Pos) string {
	if pos == token.NoPos {
		return ""
	}
	return " at " + fset.Position(pos).String()
}

// callSSA interprets a call to function fn with arguments args,
// and lexical environment env, returning its result.
// callpos is the position of the callsite.
func callSSA(i *interpreter, caller *frame, callpos token.Pos, fn *ssa.Function, args []value, env []value) value {
	if i.mode&EnableTracing != 0 {
		fset := fn.Prog.Fset
		// TODO(adonovan): fix: loc() lies for external functions.
		fmt.Fprintf(os.Stderr, "Entering %s%s.\n", fn, loc(fset, fn.Pos()))
		suffix := ""
		if caller != nil {
			suffix = ", resuming " + caller.fn.String() + loc(fset, callpos)
		}
		defer fmt.Fprintf(os.Stderr, "Leaving %s%s.\n", fn, suffix)
	}
	fr := &frame{
		i:      i,
		caller: caller, // for panic/recover
		fn:     fn,
	}
	if r, handled := i.callIntrinsic(fr, fn, args); handled {
		return r
	}
	// unbounded recursion ends a Go program with "fatal error: stack overflow", which no recover
	// can intercept; the bound stands for the 1 GB stack (frames of the code under test are small)
	i.depth++
	defer func() { i.depth-- }()
	if i.depth > maxCallDepth {
		panic(fatalError{"fatal error: stack overflow (call depth > " + fmt.Sprint(maxCallDepth) + " in " + fn.String() + ")"})
	}
	if fn.Blocks == nil {
		panic(unsupported{"no code for function: " + fn.String()})
	}
	i.fnsSeen[fn.String()] = true

	// generic function body?
	if fn.TypeParams().Len() > 0 && len(fn.TypeArgs()) == 0 {
		panic("interp requires ssa.BuilderMode to include InstantiateGenerics to execute generics")
	}

	fr.env = make(map[ssa.Value]value)
	fr.block = fn.Blocks[0]
	fr.locals = make([]value, len(fn.Locals))
	for i, l := range fn.Locals {
		fr.locals[i] = zero(mustDeref(l.Type()))
		fr.env[l] = &fr.locals[i]
	}
	for i, p := range fn.Params {
		fr.env[p] = args[i]
	}
	for i, fv := range fn.FreeVars {
		fr.env[fv] = env[i]
	}
	for fr.block != nil {
		runFrame(fr)
	}
	// Destroy the locals to avoid accidental use after return.
	for i := range fn.Locals {
		fr.locals[i] = bad{}
	}
	return fr.result
}

// runFrame executes SSA instructions starting at fr.block and
// continuing until a return, a panic, or a recovered panic.
//
// After a panic, runFrame panics.
//
// After a normal return, fr.result contains the result of the call
// and fr.block is nil.
//
// A recovered panic in a function without named return parameters
// (NRPs) becomes a normal return of the zero value of the function's
// result type.
//
// After a recovered panic in a function with NRPs, fr.result is
// undefined and fr.block contains the block at which to resume
// control.
func runFrame(fr *frame) {
	defer func() {
		if fr.block == nil {
			return // normal return
		}
		if fr.i.mode&DisableRecover != 0 {
			return // let interpreter crash
		}
		fr.panicking = true
		fr.panic = recover()
		switch fr.panic.(type) {
		case pathEnd, unsupported, exitPanic, fatalError:
			panic(fr.panic) // engine control flow / fatal runtime errors: never visible to the target
		}
		if fr.i.ps.panicSite == "" {
			fr.i.ps.panicSite = fr.fn.String()
		}
		if fr.i.mode&EnableTracing != 0 {
			fmt.Fprintf(os.Stderr, "Panicking: %T %v.\n", fr.panic, fr.panic)
		}
		fr.runDefers()
		fr.block = fr.fn.Recover
	}()

	for {
		if fr.i.mode&EnableTracing != 0 {
			fmt.Fprintf(os.Stderr, ".%s:\n", fr.block)
		}

		nonPhis := executePhis(fr)
		for _, instr := range nonPhis {
			if fr.i.mode&EnableTracing != 0 {
				if v, ok := instr.(ssa.Value); ok {
					fmt.Fprintln(os.Stderr, "\t", v.Name(), "=", instr)
				} else {
					fmt.Fprintln(os.Stderr, "\t", instr)
				}
			}
			fr.i.curFrame, fr.i.curInstr = fr, instr
			fr.i.ps.steps++
			if fr.i.ps.steps > fr.i.eng.Cfg.MaxSteps {
				panic(pathEnd{"bound", fmt.Sprintf("more than %d instructions on one path", fr.i.eng.Cfg.MaxSteps)})
			}
			if visitInstr(fr, instr) == kReturn {
				return
			}
			// Inv: kNext (continue) or kJump (last instr)
		}
	}
}

// executePhis executes the phi-nodes at the start of the current
// block and returns the non-phi instructions.
func executePhis(fr *frame) []ssa.Instruction {
	firstNonPhi := -1
	for i, instr := range fr.block.Instrs {
		if _, ok := instr.(*ssa.Phi); !ok {
			firstNonPhi = i
			break
		}
	}
	// Inv: 0 <= firstNonPhi; every block contains a non-phi.

	nonPhis := fr.block.Instrs[firstNonPhi:]
	if firstNonPhi > 0 {
		phis := fr.block.Instrs[:firstNonPhi]
		// Execute parallel assignment of phis.
		//
		// See "the swap problem" in Briggs et al's "Practical Improvements
		// to the Construction and Destruction of SSA Form" for discussion.
		predIndex := slices.Index(fr.block.Preds, fr.prevBlock)
		fr.phitemps = fr.phitemps[:0]
		for _, phi := range phis {
			phi := phi.(*ssa.Phi)
			if fr.i.mode&EnableTracing != 0 {
				fmt.Fprintln(os.Stderr, "\t", phi.Name(), "=", phi)
			}
			fr.phitemps = append(fr.phitemps, fr.get(phi.Edges[predIndex]))
		}
		for i, phi := range phis {
			fr.env[phi.(*ssa.Phi)] = fr.phitemps[i]
		}
	}
	return nonPhis
}

// doRecover implements the recover() built-in.
func doRecover(caller *frame) value {
	// recover() must be exactly one level beneath the deferred
	// function (two levels beneath the panicking function) to
	// have any effect.  Thus we ignore both "defer recover()" and
	// "defer f() -> g() -> recover()".
	if caller.i.mode&DisableRecover == 0 &&
		caller != nil && !caller.panicking &&
		caller.caller != nil && caller.caller.panicking {
		caller.caller.panicking = false
		p := caller.caller.panic
		caller.caller.panic = nil
		caller.i.ps.recoveredSite, caller.i.ps.panicSite = caller.i.ps.panicSite, ""

		// TODO(adonovan): support runtime.Goexit.
		switch p := p.(type) {
		case targetPanic:
			// The target program explicitly called panic().
			return p.v
		case runtime.Error:
			// The interpreter encountered a runtime error.
			return iface{caller.i.runtimeErrorString, p.Error()}
		case string:
			// The interpreter explicitly called panic().
			return iface{caller.i.runtimeErrorString, p}
		default:
			panic(fmt.Sprintf("unexpected panic type %T in target call to recover()", p))
		}
	}
	return iface{}
}

// maxCallDepth bounds the recursion depth of the interpreted program.
const maxCallDepth = 2000

// fatalError is a runtime failure that ends the process and cannot be recovered (stack overflow).
type fatalError struct{ msg string }
