package gosym

import (
	"bytes"
	"encoding/json"
	"fmt"
	"go/types"
	"reflect"
	"strings"
)

// Typed model of encoding/json.Marshal / Unmarshal for the interpreter's values: the value is
// converted to a native tree (structs by their json names, json.Number kept literal), encoded and
// decoded by the real encoding/json, and converted back guided by the destination's static type.
// Symbolic strings travel as placeholder tokens and are restored after decoding.

type jsonCodec struct {
	eng    *Engine
	ps     *pathState
	tokens map[string]value
}

func (c *jsonCodec) token(v value) string {
	t := fmt.Sprintf("\x01sym%d\x01", len(c.tokens))
	c.tokens[t] = v
	return t
}

func jsonFieldName(st *types.Struct, k int) (name string, omitEmpty, skip bool) {
	f := st.Field(k)
	if !f.Exported() {
		return "", false, true
	}
	name = f.Name()
	tag := reflect.StructTag(st.Tag(k)).Get("json")
	if tag == "-" {
		return "", false, true
	}
	if tag != "" {
		parts := strings.Split(tag, ",")
		if parts[0] != "" {
			name = parts[0]
		}
		for _, o := range parts[1:] {
			if o == "omitempty" {
				omitEmpty = true
			}
		}
	}
	return name, omitEmpty, false
}

func isJSONNumber(t types.Type) bool {
	n, ok := t.(*types.Named)
	return ok && n.Obj().Pkg() != nil && n.Obj().Pkg().Path() == "encoding/json" && n.Obj().Name() == "Number"
}

// toNative converts v (of static type t; dynamic types are taken from interface values).
func (c *jsonCodec) toNative(v value, t types.Type) any {
	if itf, ok := v.(iface); ok {
		if itf.t == nil {
			return nil
		}
		return c.toNative(itf.v, itf.t)
	}
	if t != nil && isJSONNumber(t) {
		if s, ok := v.(string); ok {
			return json.Number(s)
		}
	}
	switch x := v.(type) {
	case nil:
		return nil
	case string:
		return x
	case sstr:
		return c.token(x)
	case sym:
		panic(unsupported{"json.Marshal of a symbolic scalar"})
	case bool, int, int8, int16, int32, int64, uint, uint8, uint16, uint32, uint64, float32, float64:
		return x
	case *value:
		if x == nil {
			return nil
		}
		var et types.Type
		if t != nil {
			if pt, ok := t.Underlying().(*types.Pointer); ok {
				et = pt.Elem()
			}
		}
		return c.toNative(*x, et)
	case *omap:
		if x == nil {
			return nil
		}
		var et types.Type
		if t != nil {
			if mt, ok := t.Underlying().(*types.Map); ok {
				et = mt.Elem()
			}
		}
		out := map[string]any{}
		for _, i := range x.liveIndices() {
			k, ok := x.keys[i].(string)
			if !ok {
				panic(unsupported{fmt.Sprintf("json.Marshal: map key %T", x.keys[i])})
			}
			out[k] = c.toNative(x.vals[i], et)
		}
		return out
	case []value:
		var et types.Type
		if t != nil {
			if st, ok := t.Underlying().(*types.Slice); ok {
				et = st.Elem()
			}
		}
		if x == nil {
			return nil
		}
		out := make([]any, len(x))
		for i := range x {
			out[i] = c.toNative(x[i], et)
		}
		return out
	case array:
		out := make([]any, len(x))
		for i := range x {
			out[i] = c.toNative(x[i], nil)
		}
		return out
	case structure:
		st, ok := t.Underlying().(*types.Struct)
		if t == nil || !ok {
			panic(unsupported{"json.Marshal of a struct of unknown type"})
		}
		var out orderedObject
		for k := 0; k < st.NumFields(); k++ {
			name, omit, skip := jsonFieldName(st, k)
			if skip {
				continue
			}
			n := c.toNative(x[k], st.Field(k).Type())
			if omit && isEmptyJSON(n) {
				continue
			}
			out = append(out, orderedField{name, n})
		}
		return out
	}
	panic(unsupported{fmt.Sprintf("json.Marshal: %T", v)})
}

// orderedObject is a JSON object whose members keep the struct's field order.
type orderedField struct {
	name string
	val  any
}
type orderedObject []orderedField

func (o orderedObject) MarshalJSON() ([]byte, error) {
	var bb bytes.Buffer
	bb.WriteByte('{')
	for k, f := range o {
		if k > 0 {
			bb.WriteByte(',')
		}
		nb, _ := json.Marshal(f.name)
		bb.Write(nb)
		bb.WriteByte(':')
		vb, err := json.Marshal(f.val)
		if err != nil {
			return nil, err
		}
		bb.Write(vb)
	}
	bb.WriteByte('}')
	return bb.Bytes(), nil
}

func isEmptyJSON(n any) bool {
	switch x := n.(type) {
	case orderedObject:
		return false
	case nil:
		return true
	case string:
		return x == ""
	case bool:
		return !x
	case map[string]any:
		return len(x) == 0
	case []any:
		return len(x) == 0
	case int:
		return x == 0
	case int64:
		return x == 0
	case float64:
		return x == 0
	}
	return false
}

// fromNativeJSON converts a decoded JSON tree into a value of static type t.
func (c *jsonCodec) fromNativeJSON(n any, t types.Type) value {
	switch ut := t.Underlying().(type) {
	case *types.Interface:
		return c.generic(n)
	case *types.Pointer:
		if n == nil {
			return (*value)(nil)
		}
		cell := new(value)
		*cell = c.fromNativeJSON(n, ut.Elem())
		return cell
	case *types.Slice:
		arr, ok := n.([]any)
		if !ok {
			return []value(nil)
		}
		out := make([]value, len(arr))
		for i := range arr {
			out[i] = c.fromNativeJSON(arr[i], ut.Elem())
		}
		return out
	case *types.Map:
		m, ok := n.(map[string]any)
		if !ok {
			return (*omap)(nil)
		}
		om := makeMap(ut.Key(), 0).(*omap)
		for _, k := range sortedKeys(m) {
			om.insert(c.restoreKey(k), c.fromNativeJSON(m[k], ut.Elem()))
		}
		return om
	case *types.Struct:
		out := zero(t).(structure)
		m, ok := n.(map[string]any)
		if !ok {
			return out
		}
		for k := 0; k < ut.NumFields(); k++ {
			name, _, skip := jsonFieldName(ut, k)
			if skip {
				continue
			}
			for mk, mv := range m {
				if strings.EqualFold(mk, name) {
					out[k] = c.fromNativeJSON(mv, ut.Field(k).Type())
				}
			}
		}
		return out
	case *types.Basic:
		switch {
		case ut.Info()&types.IsString != 0:
			s, _ := n.(string)
			return c.restore(s)
		case ut.Info()&types.IsBoolean != 0:
			b, _ := n.(bool)
			return b
		case ut.Info()&types.IsNumeric != 0:
			f, _ := n.(float64)
			return convertFloat(f, ut.Kind())
		}
	}
	panic(unsupported{"json.Unmarshal into " + t.String()})
}

func convertFloat(f float64, k types.BasicKind) value {
	switch k {
	case types.Int:
		return int(f)
	case types.Int8:
		return int8(f)
	case types.Int16:
		return int16(f)
	case types.Int32:
		return int32(f)
	case types.Int64:
		return int64(f)
	case types.Uint:
		return uint(f)
	case types.Uint8:
		return uint8(f)
	case types.Uint16:
		return uint16(f)
	case types.Uint32:
		return uint32(f)
	case types.Uint64:
		return uint64(f)
	case types.Float32:
		return float32(f)
	}
	return f
}

func sortedKeys(m map[string]any) []string {
	ks := make([]string, 0, len(m))
	for k := range m {
		ks = append(ks, k)
	}
	sortStrings(ks)
	return ks
}

func sortStrings(a []string) {
	for i := 1; i < len(a); i++ {
		for j := i; j > 0 && a[j] < a[j-1]; j-- {
			a[j], a[j-1] = a[j-1], a[j]
		}
	}
}

func (c *jsonCodec) restoreKey(k string) value {
	if v, ok := c.tokens[k]; ok {
		return v
	}
	return k
}

func (c *jsonCodec) restore(s string) value {
	if v, ok := c.tokens[s]; ok {
		return v
	}
	if strings.Contains(s, "\x01sym") {
		panic(unsupported{"json round trip altered a symbolic string"})
	}
	return s
}

// generic is what Unmarshal stores into an interface{}: maps, slices, float64, string, bool, nil.
func (c *jsonCodec) generic(n any) value {
	strT := types.Typ[types.String]
	switch x := n.(type) {
	case nil:
		return iface{}
	case string:
		return iface{t: strT, v: c.restore(x)}
	case bool:
		return iface{t: types.Typ[types.Bool], v: x}
	case float64:
		return iface{t: types.Typ[types.Float64], v: x}
	case json.Number:
		return iface{t: c.eng.namedType("encoding/json", "Number"), v: string(x)}
	case []any:
		out := make([]value, len(x))
		for i := range x {
			out[i] = c.generic(x[i])
		}
		return iface{t: types.NewSlice(anyType), v: out}
	case map[string]any:
		om := makeMap(strT, 0).(*omap)
		for _, k := range sortedKeys(x) {
			om.insert(c.restoreKey(k), c.generic(x[k]))
		}
		return iface{t: types.NewMap(strT, anyType), v: om}
	}
	panic(unsupported{fmt.Sprintf("json.Unmarshal: %T", n)})
}

func bytesValue(b []byte) []value {
	out := make([]value, len(b))
	for i, c := range b {
		out[i] = c
	}
	return out
}

func registerJSONCodec(e *Engine) {
	in := e.intr
	codecOf := func(ps *pathState) *jsonCodec {
		if c, ok := ps.store["json.codec"].(*jsonCodec); ok {
			return c
		}
		c := &jsonCodec{ps: ps, eng: e, tokens: map[string]value{}}
		ps.store["json.codec"] = c
		return c
	}
	symbolicTextMarshal := in["encoding/json.Marshal"] // escapes a symbolic string byte by byte
	in["encoding/json.Marshal"] = func(fr *frame, a []value) value {
		if itf, ok := a[0].(iface); ok && symbolicTextMarshal != nil {
			if _, isSym := itf.v.(sstr); isSym {
				return symbolicTextMarshal(fr, a)
			}
		}
		c := codecOf(fr.i.ps)
		n := c.toNative(a[0], nil)
		var bb bytes.Buffer
		enc := json.NewEncoder(&bb)
		enc.SetEscapeHTML(true)
		if err := enc.Encode(n); err != nil {
			return tuple{[]value(nil), fr.i.nativeErr(err)}
		}
		return tuple{bytesValue(bytes.TrimRight(bb.Bytes(), "\n")), iface{}}
	}
	in["encoding/json.Unmarshal"] = func(fr *frame, a []value) value {
		c := codecOf(fr.i.ps)
		raw := make([]byte, 0, len(a[0].([]value)))
		for _, b := range a[0].([]value) {
			cb, ok := b.(uint8)
			if !ok {
				panic(unsupported{"json.Unmarshal of symbolic bytes"})
			}
			raw = append(raw, cb)
		}
		dst, ok := a[1].(iface)
		if !ok || dst.t == nil {
			return errIface(fr.i, "json: Unmarshal(nil)")
		}
		pt, isPtr := dst.t.Underlying().(*types.Pointer)
		if !isPtr {
			return errIface(fr.i, "json: Unmarshal(non-pointer)")
		}
		var n any
		if err := json.Unmarshal(raw, &n); err != nil {
			return fr.i.nativeErr(err)
		}
		*(dst.v.(*value)) = c.fromNativeJSON(n, pt.Elem())
		return iface{}
	}
}
