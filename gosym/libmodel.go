package gosym

import (
	"bytes"
	"encoding/json"
	"fmt"
	"go/token"
	"go/types"
	"regexp"
	"strings"

	"golang.org/x/tools/go/ssa"

	"verif/smt"
)

// Models of further standard-library calls that a change to the repository might introduce.
// They keep a run conclusive (a call the executor cannot follow ends the path as "unsupported",
// which a check reports as INCONCLUSIVE). Synchronisation primitives count as synchronised
// accesses for the write-set lemma; pure functions run natively on concrete operands.

func truth(ps *pathState, v value) bool {
	switch b := v.(type) {
	case bool:
		return b
	case sym:
		return ps.decide(b.t)
	}
	panic(unsupported{fmt.Sprintf("boolean expected, got %T", v)})
}

func strList(ss []string) value {
	if ss == nil {
		return []value(nil)
	}
	out := make([]value, len(ss))
	for k, s := range ss {
		out[k] = s
	}
	return out
}

func intList(xs []int) value {
	if xs == nil {
		return []value(nil)
	}
	out := make([]value, len(xs))
	for k, x := range xs {
		out[k] = x
	}
	return out
}

func registerLibModels(e *Engine) {
	in := e.intr
	externGlobals["internal/cpu.X86"] = func(i *interpreter, g *ssa.Global) value { return zero(mustDeref(g.Type())) }
	delete(in, "context.Background")
	for _, p := range []string{"context", "internal/filepathlite", "path", "path/filepath", "maps", "iter", "io", "bufio", "unicode/utf16", "encoding/hex", "container/list", "container/heap", "html"} {
		interpretable[p] = true
	}

	// ---------- sync ----------
	in["(*sync.Once).Do"] = func(fr *frame, a []value) value {
		st := (*a[0].(*value)).(structure)
		done, ok := st[0].(structure) // atomic.Uint32{_ noCopy; v uint32}
		if !ok {
			panic(unsupported{"sync.Once layout"})
		}
		last := len(done) - 1
		if asUint64(done[last]) != 0 {
			return nil
		}
		done[last] = uint32(1)
		fr.i.ps.atomics++
		// f runs under the Once's lock
		fr.i.ps.locked++
		defer func() { fr.i.ps.locked-- }()
		call(fr.i, fr, 0, a[1], nil)
		return nil
	}
	lock := func(fr *frame, a []value) value { fr.i.ps.locked++; return nil }
	unlock := func(fr *frame, a []value) value { fr.i.ps.locked--; return nil }
	in["(*sync.RWMutex).Lock"], in["(*sync.RWMutex).RLock"] = lock, lock
	in["(*sync.RWMutex).Unlock"], in["(*sync.RWMutex).RUnlock"] = unlock, unlock
	in["(*sync.Mutex).TryLock"] = func(fr *frame, a []value) value { fr.i.ps.locked++; return true }
	syncMap := func(fr *frame, p value) *omap {
		key := fmt.Sprintf("syncmap:%p", p.(*value))
		if m, ok := fr.i.ps.store[key].(*omap); ok {
			return m
		}
		m := makeMap(anyType, 0).(*omap)
		fr.i.ps.store[key] = m
		return m
	}
	in["(*sync.Map).Store"] = func(fr *frame, a []value) value {
		fr.i.ps.atomics++
		syncMap(fr, a[0]).insert(a[1], a[2])
		return nil
	}
	in["(*sync.Map).Load"] = func(fr *frame, a []value) value {
		fr.i.ps.atomics++
		if v, ok := syncMap(fr, a[0]).lookup(a[1]); ok {
			return tuple{v, true}
		}
		return tuple{iface{}, false}
	}
	in["(*sync.Map).LoadOrStore"] = func(fr *frame, a []value) value {
		fr.i.ps.atomics++
		m := syncMap(fr, a[0])
		if v, ok := m.lookup(a[1]); ok {
			return tuple{v, true}
		}
		m.insert(a[1], a[2])
		return tuple{a[2], false}
	}
	in["(*sync.Map).Delete"] = func(fr *frame, a []value) value {
		fr.i.ps.atomics++
		syncMap(fr, a[0]).delete(a[1])
		return nil
	}
	in["(*sync/atomic.Value).Store"] = func(fr *frame, a []value) value {
		fr.i.ps.atomics++
		st := (*a[0].(*value)).(structure)
		st[0] = a[1]
		return nil
	}
	in["(*sync/atomic.Value).Load"] = func(fr *frame, a []value) value {
		fr.i.ps.atomics++
		st := (*a[0].(*value)).(structure)
		if v, ok := st[0].(iface); ok {
			return v
		}
		return iface{}
	}
	in["(*sync/atomic.Bool).Store"] = func(fr *frame, a []value) value {
		fr.i.ps.atomics++
		st := (*a[0].(*value)).(structure)
		if truth(fr.i.ps, a[1]) {
			st[len(st)-1] = uint32(1)
		} else {
			st[len(st)-1] = uint32(0)
		}
		return nil
	}
	in["(*sync/atomic.Bool).Load"] = func(fr *frame, a []value) value {
		fr.i.ps.atomics++
		st := (*a[0].(*value)).(structure)
		return asUint64(st[len(st)-1]) != 0
	}
	cas := func(fr *frame, p *value, old, nw value) value {
		fr.i.ps.atomics++
		if truth(fr.i.ps, binop(token.EQL, types.Typ[types.Int64], *p, old)) {
			*p = nw
			fr.i.ps.dirty = fr.i.ps.dirty || fr.i.ps.gcells[p]
			if fr.i.ps.gcells[p] && fr.i.ps.trackW {
				fr.i.ps.resets = append(fr.i.ps.resets, "atomic compare-and-swap on package-level state at "+fr.i.ps.curPos())
			}
			return true
		}
		return false
	}
	for _, t := range []string{"Int64", "Int32", "Uint64", "Uint32"} {
		in["sync/atomic.CompareAndSwap"+t] = func(fr *frame, a []value) value { return cas(fr, a[0].(*value), a[1], a[2]) }
		in["(*sync/atomic."+t+").CompareAndSwap"] = func(fr *frame, a []value) value {
			st := (*a[0].(*value)).(structure)
			return cas(fr, &st[len(st)-1], a[1], a[2])
		}
	}

	// ---------- WaitGroup over cooperative goroutines ----------
	in["(*sync.WaitGroup).Add"] = func(fr *frame, a []value) value { return nil }
	in["(*sync.WaitGroup).Done"] = func(fr *frame, a []value) value { return nil }
	in["(*sync.WaitGroup).Wait"] = func(fr *frame, a []value) value {
		if fr.i.ps.inGoroutine > 0 {
			panic(unsupported{"WaitGroup.Wait inside a goroutine (cooperative scheduling)"})
		}
		fr.i.ps.runGoroutines()
		return nil
	}

	// ---------- error wrapping ----------
	unwrapOnce := func(fr *frame, e iface) []iface {
		r, ok := callMethod(fr.i, fr, e, "Unwrap")
		if !ok {
			return nil
		}
		switch x := r.(type) {
		case iface:
			if x.t != nil {
				return []iface{x}
			}
		case []value:
			var out []iface
			for _, y := range x {
				if yi, ok := y.(iface); ok && yi.t != nil {
					out = append(out, yi)
				}
			}
			return out
		}
		return nil
	}
	var walk func(fr *frame, e iface, visit func(iface) bool) bool
	walk = func(fr *frame, e iface, visit func(iface) bool) bool {
		if e.t == nil {
			return false
		}
		if visit(e) {
			return true
		}
		for _, in := range unwrapOnce(fr, e) {
			if walk(fr, in, visit) {
				return true
			}
		}
		return false
	}
	in["fmt.Errorf"] = func(fr *frame, a []value) value {
		args := sliceOfStrings(a[1])
		msg := fr.i.format(fr, a[0], args)
		if f, ok := a[0].(string); ok && strings.Contains(f, "%w") {
			// the operand of the first %w verb
			argi := 0
			for k := 0; k+1 < len(f); k++ {
				if f[k] != '%' {
					continue
				}
				if f[k+1] == '%' {
					k++
					continue
				}
				if f[k+1] == 'w' {
					break
				}
				argi++
			}
			if argi < len(args) {
				if inner, ok := args[argi].(iface); ok && inner.t != nil {
					named := fr.i.eng.namedType("fmt", "wrapError")
					st := zero(named).(structure)
					st[0], st[1] = msg, inner
					var cell value = st
					return iface{t: types.NewPointer(named), v: &cell}
				}
			}
		}
		return fr.i.newError(msg)
	}
	in["(*fmt.wrapError).Error"] = func(fr *frame, a []value) value { return (*a[0].(*value)).(structure)[0] }
	in["(*fmt.wrapError).Unwrap"] = func(fr *frame, a []value) value { return (*a[0].(*value)).(structure)[1] }
	sameErr := func(x, y iface) bool {
		if x.t == nil || y.t == nil || !types.Identical(x.t, y.t) {
			return false
		}
		px, ok1 := x.v.(*value)
		py, ok2 := y.v.(*value)
		if ok1 && ok2 {
			return px == py
		}
		if ok1 || ok2 {
			return false
		}
		if _, isStruct := x.t.Underlying().(*types.Struct); isStruct || types.Comparable(x.t) {
			return equals(x.t, x.v, y.v)
		}
		return false
	}
	in["errors.Is"] = func(fr *frame, a []value) value {
		x, y := a[0].(iface), a[1].(iface)
		if x.t == nil || y.t == nil {
			return x.t == nil && y.t == nil
		}
		return walk(fr, x, func(e iface) bool {
			if sameErr(e, y) {
				return true
			}
			if r, ok := callMethod(fr.i, fr, e, "Is", value(y)); ok {
				return truth(fr.i.ps, r)
			}
			return false
		})
	}
	in["errors.As"] = func(fr *frame, a []value) value {
		errv, tgt := a[0].(iface), a[1].(iface)
		if tgt.t == nil {
			panic(targetPanic{iface{t: types.Typ[types.String], v: "errors: target cannot be nil"}})
		}
		pt, ok := tgt.t.Underlying().(*types.Pointer)
		if !ok || errv.t == nil {
			return false
		}
		want := pt.Elem()
		return walk(fr, errv, func(e iface) bool {
			if types.Identical(e.t, want) {
				*tgt.v.(*value) = e.v
				return true
			}
			if it, isIface := want.Underlying().(*types.Interface); isIface && types.Implements(e.t, it) {
				*tgt.v.(*value) = e
				return true
			}
			return false
		})
	}
	in["errors.Unwrap"] = func(fr *frame, a []value) value {
		e := a[0].(iface)
		if e.t == nil {
			return iface{}
		}
		if r, ok := callMethod(fr.i, fr, e, "Unwrap"); ok {
			if x, isErr := r.(iface); isErr {
				return x
			}
		}
		return iface{}
	}

	// ---------- sort with a callback ----------
	sortSlice := func(fr *frame, a []value) value {
		xs, _ := a[0].(iface).v.([]value)
		for i := 1; i < len(xs); i++ {
			for j := i; j > 0; j-- {
				if !truth(fr.i.ps, call(fr.i, fr, 0, a[1], []value{j, j - 1})) {
					break
				}
				xs[j], xs[j-1] = xs[j-1], xs[j]
			}
		}
		return nil
	}
	in["sort.Slice"], in["sort.SliceStable"] = sortSlice, sortSlice
	in["sort.SliceIsSorted"] = func(fr *frame, a []value) value {
		xs, _ := a[0].(iface).v.([]value)
		for i := len(xs) - 1; i > 0; i-- {
			if truth(fr.i.ps, call(fr.i, fr, 0, a[1], []value{i, i - 1})) {
				return false
			}
		}
		return true
	}

	// ---------- fmt ----------
	sprint := func(fr *frame, args []value, ln bool) value {
		var parts []value
		prevString := false
		for k, x := range args {
			itf, _ := x.(iface)
			isStr := isStrV(itf.v)
			if k > 0 && (ln || (!isStr && !prevString)) {
				parts = append(parts, " ")
			}
			parts = append(parts, fr.i.formatOne(fr, 'v', x))
			prevString = isStr
		}
		if ln {
			parts = append(parts, "\n")
		}
		return concatStr(fr.i.ps, parts)
	}
	in["fmt.Sprint"] = func(fr *frame, a []value) value { return sprint(fr, sliceOfStrings(a[0]), false) }
	in["fmt.Sprintln"] = func(fr *frame, a []value) value { return sprint(fr, sliceOfStrings(a[0]), true) }
	writeVia := func(fr *frame, w value, text value) value {
		if isFileW(w) {
			ts := strTerms(text)
			return in["(*os.File).Write"](fr, []value{w.(iface).v, termsToBytes(fr.i.ps, ts)})
		}
		// the writer's own Write method: works for *os.File, *bytes.Buffer, *strings.Builder, bufio.Writer ...
		ts := strTerms(text)
		bs := make([]value, len(ts))
		for k, t := range ts {
			bs[k] = sstr{ps: fr.i.ps}.byteVal(t)
		}
		if r, ok := callMethod(fr.i, fr, w.(iface), "Write", value(bs)); ok {
			return r
		}
		panic(unsupported{"fmt.Fprint to a writer without Write"})
	}
	fileFprintf := in["fmt.Fprintf"]
	isFile := func(w value) bool {
		if itf, ok := w.(iface); ok {
			if p, ok := itf.v.(*value); ok && p != nil {
				if n, ok := (*p).(nativeObj); ok {
					_, isFH := n.v.(*fileHandle)
					return isFH
				}
			}
		}
		return false
	}
	in["fmt.Fprintf"] = func(fr *frame, a []value) value {
		if isFile(a[0]) {
			return fileFprintf(fr, a)
		}
		return writeVia(fr, a[0], fr.i.format(fr, a[1], sliceOfStrings(a[2])))
	}
	in["fmt.Fprint"] = func(fr *frame, a []value) value { return writeVia(fr, a[0], sprint(fr, sliceOfStrings(a[1]), false)) }
	in["fmt.Fprintln"] = func(fr *frame, a []value) value { return writeVia(fr, a[0], sprint(fr, sliceOfStrings(a[1]), true)) }
	in["fmt.Print"] = func(fr *frame, a []value) value {
		ts := strTerms(sprint(fr, sliceOfStrings(a[0]), false))
		fr.i.ps.env().stdout = append(fr.i.ps.env().stdout, ts...)
		return tuple{len(ts), iface{}}
	}

	// ---------- regexp (native on concrete text) ----------
	reOf := func(v value) *regexp.Regexp { return (*v.(*value)).(nativeObj).v.(*regexp.Regexp) }
	cs := func(fr *frame, v value) string { return fr.i.ps.concretizeStr(v) }
	// on symbolic text the Find family first decides, with one condition, whether there is a match at
	// all; only texts that do match are then enumerated (the positions depend on the bytes)
	noMatch := func(fr *frame, re *regexp.Regexp, text value) bool {
		ss, isSym := text.(sstr)
		if !isSym {
			return false
		}
		ps := fr.i.ps
		for _, b := range ss.b {
			if !b.IsConst() && !ps.decide(smt.BvCmp(smt.OpBvUlt, b, smt.BV(0x80, 8))) {
				panic(pathEnd{"assume-false", "non-ASCII symbolic byte in a regular-expression match (outside the stated bound)"})
			}
		}
		cond, ok := symRegexMatch(re, ss.b)
		return ok && !ps.decide(cond)
	}
	in["(*regexp.Regexp).FindStringSubmatch"] = func(fr *frame, a []value) value {
		if noMatch(fr, reOf(a[0]), a[1]) {
			return []value(nil)
		}
		return strList(reOf(a[0]).FindStringSubmatch(cs(fr, a[1])))
	}
	in["(*regexp.Regexp).FindString"] = func(fr *frame, a []value) value {
		if noMatch(fr, reOf(a[0]), a[1]) {
			return ""
		}
		return reOf(a[0]).FindString(cs(fr, a[1]))
	}
	in["(*regexp.Regexp).FindAllString"] = func(fr *frame, a []value) value {
		if noMatch(fr, reOf(a[0]), a[1]) {
			return []value(nil)
		}
		return strList(reOf(a[0]).FindAllString(cs(fr, a[1]), int(asInt64(a[2]))))
	}
	in["(*regexp.Regexp).FindStringIndex"] = func(fr *frame, a []value) value {
		if noMatch(fr, reOf(a[0]), a[1]) {
			return []value(nil)
		}
		return intList(reOf(a[0]).FindStringIndex(cs(fr, a[1])))
	}
	in["(*regexp.Regexp).FindStringSubmatchIndex"] = func(fr *frame, a []value) value {
		if noMatch(fr, reOf(a[0]), a[1]) {
			return []value(nil)
		}
		return intList(reOf(a[0]).FindStringSubmatchIndex(cs(fr, a[1])))
	}
	in["(*regexp.Regexp).FindAllStringIndex"] = func(fr *frame, a []value) value {
		if noMatch(fr, reOf(a[0]), a[1]) {
			return []value(nil)
		}
		res := reOf(a[0]).FindAllStringIndex(cs(fr, a[1]), int(asInt64(a[2])))
		if res == nil {
			return []value(nil)
		}
		out := make([]value, len(res))
		for k, r := range res {
			out[k] = intList(r)
		}
		return out
	}
	in["(*regexp.Regexp).ReplaceAllLiteralString"] = func(fr *frame, a []value) value {
		return reOf(a[0]).ReplaceAllLiteralString(cs(fr, a[1]), cs(fr, a[2]))
	}
	in["(*regexp.Regexp).ReplaceAllStringFunc"] = func(fr *frame, a []value) value {
		return reOf(a[0]).ReplaceAllStringFunc(cs(fr, a[1]), func(m string) string {
			return cs(fr, call(fr.i, fr, 0, a[2], []value{m}))
		})
	}
	in["(*regexp.Regexp).Split"] = func(fr *frame, a []value) value { return strList(reOf(a[0]).Split(cs(fr, a[1]), int(asInt64(a[2])))) }
	in["(*regexp.Regexp).String"] = func(fr *frame, a []value) value { return reOf(a[0]).String() }
	in["(*regexp.Regexp).NumSubexp"] = func(fr *frame, a []value) value { return reOf(a[0]).NumSubexp() }
	in["(*regexp.Regexp).SubexpNames"] = func(fr *frame, a []value) value { return strList(reOf(a[0]).SubexpNames()) }
	in["(*regexp.Regexp).Match"] = func(fr *frame, a []value) value {
		return reOf(a[0]).Match([]byte(cs(fr, bytesToStr(fr.i.ps, a[1]))))
	}
	in["regexp.QuoteMeta"] = func(fr *frame, a []value) value { return regexp.QuoteMeta(cs(fr, a[0])) }
	in["regexp.MatchString"] = func(fr *frame, a []value) value {
		ok, err := regexp.MatchString(cs(fr, a[0]), cs(fr, a[1]))
		return tuple{ok, fr.i.nativeErr(err)}
	}

	// ---------- internal/bytealg (assembly in the real runtime) ----------
	indexByte := func(ps *pathState, ts []*smt.Term, c value) int {
		ct := termOf(c)
		for k, t := range ts {
			if ps.decide(smt.Eq(t, ct)) {
				return k
			}
		}
		return -1
	}
	byteTerms := func(v value) []*smt.Term {
		bs, _ := v.([]value)
		ts := make([]*smt.Term, len(bs))
		for k, b := range bs {
			ts[k] = termOf(b)
		}
		return ts
	}
	in["internal/bytealg.IndexByteString"] = func(fr *frame, a []value) value { return indexByte(fr.i.ps, strTerms(a[0]), a[1]) }
	in["internal/bytealg.IndexByte"] = func(fr *frame, a []value) value { return indexByte(fr.i.ps, byteTerms(a[0]), a[1]) }
	countByte := func(ps *pathState, ts []*smt.Term, c value) int {
		ct := termOf(c)
		n := 0
		for _, t := range ts {
			if ps.decide(smt.Eq(t, ct)) {
				n++
			}
		}
		return n
	}
	in["internal/bytealg.CountString"] = func(fr *frame, a []value) value { return countByte(fr.i.ps, strTerms(a[0]), a[1]) }
	in["internal/bytealg.Count"] = func(fr *frame, a []value) value { return countByte(fr.i.ps, byteTerms(a[0]), a[1]) }
	in["internal/bytealg.IndexString"] = func(fr *frame, a []value) value {
		return indexOf(fr.i.ps, a[0], fr.i.ps.concretizeStr(a[1]))
	}
	in["internal/bytealg.Index"] = func(fr *frame, a []value) value {
		return indexOf(fr.i.ps, bytesToStr(fr.i.ps, a[0]), fr.i.ps.concretizeStr(bytesToStr(fr.i.ps, a[1])))
	}
	in["internal/bytealg.Equal"] = func(fr *frame, a []value) value {
		return mkScalar(fr.i.ps, strEqTerm(byteTerms(a[0]), byteTerms(a[1])), types.Bool)
	}
	in["internal/bytealg.MakeNoZero"] = func(fr *frame, a []value) value {
		out := make([]value, int(asInt64(a[0])))
		for k := range out {
			out[k] = uint8(0)
		}
		return out
	}

	// ---------- os environment ----------
	envOf := func(fr *frame) map[string]string {
		if m, ok := fr.i.ps.store["os.env"].(map[string]string); ok {
			return m
		}
		m := map[string]string{}
		fr.i.ps.store["os.env"] = m
		return m
	}
	in["os.Getenv"] = func(fr *frame, a []value) value { return envOf(fr)[mustStr(a[0], "Getenv")] }
	in["os.LookupEnv"] = func(fr *frame, a []value) value {
		v, ok := envOf(fr)[mustStr(a[0], "LookupEnv")]
		return tuple{v, ok}
	}
	in["os.Setenv"] = func(fr *frame, a []value) value {
		envOf(fr)[mustStr(a[0], "Setenv")] = mustStr(a[1], "Setenv value")
		return iface{}
	}

	// ---------- time ----------
	in["time.Since"] = func(fr *frame, a []value) value {
		now := in["time.Now"](fr, nil).(structure)
		return in["(time.Time).Sub"](fr, []value{now, a[0]})
	}
	in["(time.Duration).Milliseconds"] = func(fr *frame, a []value) value { return asInt64(a[0]) / 1e6 }
	in["(time.Duration).Nanoseconds"] = func(fr *frame, a []value) value { return a[0] }
	in["(time.Duration).Seconds"] = func(fr *frame, a []value) value { return float64(asInt64(a[0])) / 1e9 }

	// ---------- encoding/json extras ----------
	in["encoding/json.MarshalIndent"] = func(fr *frame, a []value) value {
		r := in["encoding/json.Marshal"](fr, a[:1]).(tuple)
		if e, _ := r[1].(iface); e.t != nil {
			return r
		}
		raw := make([]byte, 0)
		for _, b := range r[0].([]value) {
			raw = append(raw, b.(uint8))
		}
		var bb bytes.Buffer
		if err := json.Indent(&bb, raw, mustStr(a[1], "MarshalIndent prefix"), mustStr(a[2], "MarshalIndent indent")); err != nil {
			return tuple{[]value(nil), fr.i.nativeErr(err)}
		}
		return tuple{bytesValue(bb.Bytes()), iface{}}
	}
	in["encoding/json.Valid"] = func(fr *frame, a []value) value {
		return json.Valid([]byte(fr.i.ps.concretizeStr(bytesToStr(fr.i.ps, a[0]))))
	}

	// ---------- OPA parser entry points: the linked OPA's real parser on concrete module text ----------
	const astPkg = "github.com/open-policy-agent/opa/ast"
	const regoPkgL = "github.com/open-policy-agent/opa/rego"
	type parsedModule struct{ code value }
	parse := func(fr *frame, code value) (value, value) {
		text := fr.i.ps.concretizeStr(code)
		if msg := regoParseError(text); msg != "" {
			return (*value)(nil), iface{t: fr.i.eng.namedType(astPkg, "Errors"), v: []value{}}
		}
		var cell value = nativeObj{parsedModule{code}}
		return &cell, iface{}
	}
	in[astPkg+".ParseModule"] = func(fr *frame, a []value) value {
		m, err := parse(fr, a[1])
		return tuple{m, err}
	}
	in[astPkg+".ParseModuleWithOpts"] = in[astPkg+".ParseModule"]
	mustParse := func(fr *frame, code value) value {
		m, err := parse(fr, code)
		if e := err.(iface); e.t != nil {
			panic(targetPanic{e})
		}
		return m
	}
	in[astPkg+".MustParseModule"] = func(fr *frame, a []value) value { return mustParse(fr, a[0]) }
	in[astPkg+".MustParseModuleWithOpts"] = func(fr *frame, a []value) value { return mustParse(fr, a[0]) }
	// a parsed module handed to rego.New is the same option as its text
	in[regoPkgL+".ParsedModule"] = func(fr *frame, a []value) value {
		if p, ok := a[0].(*value); ok && p != nil {
			if n, ok := (*p).(nativeObj); ok {
				if pm, ok := n.v.(parsedModule); ok {
					return mkRegoOpt(regoOpt{"module", "parsed.rego", pm.code})
				}
			}
		}
		return mkRegoOpt(regoOpt{"other:ParsedModule", nil, nil})
	}

	// ---------- maps (runtime-linked helper) ----------
	in["maps.clone"] = func(fr *frame, a []value) value {
		itf, _ := a[0].(iface)
		m, _ := itf.v.(*omap)
		if m == nil {
			return a[0]
		}
		cp := makeMap(m.kt, 0).(*omap)
		for _, i := range m.liveIndices() {
			cp.insert(m.keys[i], m.vals[i])
		}
		return iface{t: itf.t, v: cp}
	}
	_ = strings.Contains
	_ = types.Bool
}

// bytesToStr views a []byte value as a (possibly symbolic) string.
func bytesToStr(ps *pathState, v value) value {
	bs, _ := v.([]value)
	ts := make([]*smt.Term, len(bs))
	for k, b := range bs {
		ts[k] = termOf(b)
	}
	return normStr(ps, ts)
}

func isFileW(w value) bool {
	if itf, ok := w.(iface); ok {
		if p, ok := itf.v.(*value); ok && p != nil {
			if n, ok := (*p).(nativeObj); ok {
				_, isFH := n.v.(*fileHandle)
				return isFH
			}
		}
	}
	return false
}

func termsToBytes(ps *pathState, ts []*smt.Term) value {
	bs := make([]value, len(ts))
	for k, t := range ts {
		bs[k] = sstr{ps: ps}.byteVal(t)
	}
	return bs
}
