package gosym

import (
	"bytes"
	"encoding/json"
	"fmt"
	opautil "github.com/open-policy-agent/opa/util"
	"go/token"
	"go/types"
	"hash/crc32"
	"hash/fnv"
	"io"
	"reflect"
	"strconv"
	"strings"
	"time"
	"unicode"
	"unsafe"

	"golang.org/x/tools/go/ssa"
	"gopkg.in/yaml.v3"

	"verif/smt"
)

type scheduler struct{}

// ---- environment model state (per path) ---------------------------------------

type fileState struct {
	exists   bool
	readonly bool
	content  []*smt.Term
}

type fileHandle struct {
	f      *fileState
	off    int
	app    bool
	std    int // 1 stdout, 2 stderr
	closed bool
}

type envModel struct {
	files    map[string]*fileState
	stdout   []*smt.Term
	stderr   []*smt.Term
	exitCode int
	exited   bool
	args     []value
	clockN   int
	lastT    *smt.Term
	stubsOn  map[string]bool
	errNotEx value
	logs     []string
}

func (ps *pathState) env() *envModel {
	if e, ok := ps.store["env"]; ok {
		return e.(*envModel)
	}
	e := &envModel{files: map[string]*fileState{}, exitCode: -1, stubsOn: map[string]bool{}}
	ps.store["env"] = e
	return e
}

func (ps *pathState) newFlag(name string) value {
	if sc, ok := ps.store["scope"].(string); ok && sc != "" {
		name = sc + "." + name
	}
	if shared, _ := ps.store["scopeShared"].(bool); shared {
		// a scope that stands for one input (the same document, the same profile text): every
		// consultation of the same stage outcome gets the same answer
		if f, ok := ps.flags[name]; ok {
			return f
		}
	}
	name = ps.uniq(name)
	v := ps.newVar("flag_"+name, 0)
	ps.inputs = append(ps.inputs, &Input{Name: "flag:" + name, Kind: "bool", Terms: []*smt.Term{v}})
	s := sym{t: v, k: types.Bool, ps: ps}
	ps.flags[name] = s
	return s
}

func (ps *pathState) flagDecide(name string) bool {
	if ps.noFaults {
		return false
	}
	f := ps.newFlag(name).(sym)
	return ps.decide(f.t)
}

func (i *interpreter) zeroOf(pkg, name string) value {
	return zero(i.eng.namedType(pkg, name))
}

func errIface(i *interpreter, msg string) value { return i.newError(msg) }

// ioSentinel returns this path's value of io.<name>.
func (i *interpreter) ioSentinel(name string) value {
	key := "io.sentinel." + name
	if v, ok := i.ps.store[key]; ok {
		return v
	}
	v := i.newError(map[string]string{"EOF": "EOF", "ErrUnexpectedEOF": "unexpected EOF", "ErrShortWrite": "short write", "ErrClosedPipe": "io: read/write on closed pipe"}[name])
	i.ps.store[key] = v
	return v
}

func registerEnvStubs(e *Engine) {
	in := e.intr
	const regoPkg = "github.com/open-policy-agent/opa/rego"
	const ldPkg = "github.com/piprate/json-gold/ld"

	// ---------- harness-side environment API ----------
	in["zz.Scope"] = func(fr *frame, a []value) value {
		fr.i.ps.store["scope"] = mustStr(a[0], "Scope")
		fr.i.ps.store["scopeShared"] = false
		return nil
	}
	in["zz.ScopeShared"] = func(fr *frame, a []value) value {
		fr.i.ps.store["scope"] = mustStr(a[0], "ScopeShared")
		fr.i.ps.store["scopeShared"] = true
		return nil
	}
	in["zz.Faults"] = func(fr *frame, a []value) value { fr.i.ps.noFaults = !a[0].(bool); return nil }
	in["zz.PanicSite"] = func(fr *frame, a []value) value { return normSite(fr.i.ps.recoveredSite) }
	in["zz.StubOn"] = func(fr *frame, a []value) value {
		fr.i.ps.env().stubsOn[mustStr(a[0], "StubOn")] = true
		return nil
	}
	in["zz.SetArgs"] = func(fr *frame, a []value) value {
		env := fr.i.ps.env()
		env.args = append([]value{}, sliceOfStrings(a[0])...)
		return nil
	}
	in["zz.FSPut"] = func(fr *frame, a []value) value {
		env := fr.i.ps.env()
		env.files[mustStr(a[0], "FSPut path")] = &fileState{exists: true, content: append([]*smt.Term{}, strTerms(a[1])...), readonly: a[2].(bool)}
		return nil
	}
	in["zz.FSGet"] = func(fr *frame, a []value) value {
		env := fr.i.ps.env()
		f := env.files[mustStr(a[0], "FSGet path")]
		if f == nil || !f.exists {
			return tuple{"", false}
		}
		return tuple{normStr(fr.i.ps, f.content), true}
	}
	in["zz.Stdout"] = func(fr *frame, a []value) value { return normStr(fr.i.ps, fr.i.ps.env().stdout) }
	in["zz.Stderr"] = func(fr *frame, a []value) value { return normStr(fr.i.ps, fr.i.ps.env().stderr) }
	in["zz.ExitCode"] = func(fr *frame, a []value) value { return fr.i.ps.env().exitCode }
	in["zz.Log"] = func(fr *frame, a []value) value {
		out := []value{}
		for _, l := range fr.i.ps.env().logs {
			out = append(out, l)
		}
		return out
	}
	in["zz.LastEncoded"] = func(fr *frame, a []value) value {
		if v, ok := fr.i.ps.store["encoded"]; ok {
			return v
		}
		return iface{}
	}
	in["zz.RegoCompiles"] = func(fr *frame, a []value) value {
		// a module text that depends on symbolic inputs is enumerated (the compiler runs natively)
		return regoCompiles(fr.i.ps.concretizeStr(a[0]))
	}

	// ---------- library-level stubs (enabled per path with StubOn) ----------
	in["zz.SetLibResult"] = func(fr *frame, a []value) value {
		fr.i.ps.store["lib."+mustStr(a[0], "SetLibResult name")] = []value{a[1], a[2]}
		return nil
	}
	libRes := func(fr *frame, name string) (value, bool) {
		r, ok := fr.i.ps.store["lib."+name].([]value)
		if !ok {
			panic(unsupported{"library stub " + name + " enabled without SetLibResult"})
		}
		fail := false
		switch f := r[1].(type) {
		case bool:
			fail = f
		case sym:
			fail = f.ps.decide(f.t)
		}
		return r[0], fail
	}
	mp := e.ModPath
	e.repoStubs = map[string]intrinsic{
		mp + "/internal/validator.Validate": func(fr *frame, a []value) value {
			text, fail := libRes(fr, "validator.Validate")
			if fail {
				// which error: any error value, or one of the decoder's sentinels (truncated / empty data)
				kind := fr.i.ps.choose(3)
				fr.i.ps.inputs = append(fr.i.ps.inputs, &Input{Name: fr.i.ps.uniq("libErrKind"), Kind: "choice", Conc: int64(kind)})
				switch kind {
				case 1:
					return tuple{"", fr.i.ioSentinel("ErrUnexpectedEOF")}
				case 2:
					return tuple{"", fr.i.ioSentinel("EOF")}
				}
				return tuple{"", errIface(fr.i, "stub: library failure")}
			}
			// the library's answer is a function of the texts it is given
			return tuple{concatStr(fr.i.ps, []value{text, "#P=", a[0], "#D=", a[1]}), iface{}}
		},
		mp + "/internal/validator.GenerateRego": func(fr *frame, a []value) value {
			text, fail := libRes(fr, "validator.GenerateRego")
			if fail {
				return tuple{(*value)(nil), errIface(fr.i, "stub: library failure")}
			}
			ru := fr.i.zeroOf(mp+"/internal/generator", "RegoUnit").(structure)
			ru[2] = concatStr(fr.i.ps, []value{text, "#P=", a[0]})
			var cell value = ru
			return tuple{&cell, iface{}}
		},
		mp + "/internal/validator.ProcessInput": func(fr *frame, a []value) value {
			text, fail := libRes(fr, "validator.ProcessInput")
			if fail {
				return tuple{iface{}, errIface(fr.i, "stub: library failure")}
			}
			return tuple{iface{t: types.Typ[types.String], v: concatStr(fr.i.ps, []value{text, "#D=", a[0]})}, iface{}}
		},
		mp + "/internal/validator.Encode": func(fr *frame, a []value) value {
			text, _ := libRes(fr, "validator.Encode")
			// ... and so is the encoding of what it is asked to encode
			if itf, ok := a[0].(iface); ok && isStrV(itf.v) {
				return concatStr(fr.i.ps, []value{text, "#E=", itf.v})
			}
			return text
		},
		mp + "/internal/validator.ProcessProfile": func(fr *frame, a []value) value {
			_, fail := libRes(fr, "validator.ProcessProfile")
			if fail {
				return tuple{(*value)(nil), errIface(fr.i, "stub: library failure")}
			}
			var cell value = fr.i.zeroOf(regoPkg, "PreparedEvalQuery")
			return tuple{&cell, iface{}}
		},
	}

	// ---------- os / io ----------
	externGlobals["os.Args"] = func(i *interpreter, g *ssa.Global) value {
		return append([]value{}, i.ps.env().args...)
	}
	externGlobals["os.ErrNotExist"] = func(i *interpreter, g *ssa.Global) value {
		env := i.ps.env()
		if env.errNotEx == nil {
			env.errNotEx = i.newError("file does not exist")
		}
		return env.errNotEx
	}
	// sentinel errors of package io: one value per path, so that errors.Is / == see identity
	for _, name := range []string{"EOF", "ErrUnexpectedEOF", "ErrShortWrite", "ErrClosedPipe"} {
		name := name
		externGlobals["io."+name] = func(i *interpreter, g *ssa.Global) value { return i.ioSentinel(name) }
	}
	externGlobals["os.Stderr"] = func(i *interpreter, g *ssa.Global) value {
		var cell value = nativeObj{&fileHandle{std: 2}}
		return &cell
	}
	externGlobals["os.Stdout"] = func(i *interpreter, g *ssa.Global) value {
		var cell value = nativeObj{&fileHandle{std: 1}}
		return &cell
	}
	externGlobals["time.UTC"] = func(i *interpreter, g *ssa.Global) value {
		var cell value = nativeObj{time.UTC}
		return &cell
	}
	in["os.Exit"] = func(fr *frame, a []value) value {
		env := fr.i.ps.env()
		env.exitCode = int(asInt64(a[0]))
		env.exited = true
		// visible to the harness (which recovers it), like a process ending here
		panic(targetPanic{iface{t: types.Typ[types.String], v: "os.Exit"}})
	}
	readFile := func(fr *frame, a []value) value {
		env := fr.i.ps.env()
		f := env.files[mustStr(a[0], "ReadFile path")]
		if f == nil || !f.exists {
			return tuple{[]value(nil), errIface(fr.i, "open: no such file or directory")}
		}
		out := make([]value, len(f.content))
		for k, b := range f.content {
			out[k] = sstr{ps: fr.i.ps}.byteVal(b)
		}
		return tuple{out, iface{}}
	}
	in["io/ioutil.ReadFile"] = readFile
	in["os.ReadFile"] = readFile
	in["os.Stat"] = func(fr *frame, a []value) value {
		env := fr.i.ps.env()
		f := env.files[mustStr(a[0], "Stat path")]
		if f == nil || !f.exists {
			if env.errNotEx == nil {
				env.errNotEx = fr.i.newError("file does not exist")
			}
			return tuple{iface{}, env.errNotEx}
		}
		return tuple{iface{}, iface{}}
	}
	in["errors.Is"] = func(fr *frame, a []value) value {
		x, y := a[0].(iface), a[1].(iface)
		if x.t == nil || y.t == nil {
			return x.t == nil && y.t == nil
		}
		px, ok1 := x.v.(*value)
		py, ok2 := y.v.(*value)
		return ok1 && ok2 && px == py
	}
	const (
		oWRONLY = 1
		oRDWR   = 2
		oAPPEND = 0x400
		oCREATE = 0x40
		oTRUNC  = 0x200
	)
	openFile := func(fr *frame, path string, flag int) value {
		env := fr.i.ps.env()
		f := env.files[path]
		if f == nil || !f.exists {
			if flag&oCREATE == 0 {
				return tuple{(*value)(nil), errIface(fr.i, "open "+path+": no such file or directory")}
			}
			f = &fileState{exists: true}
			env.files[path] = f
		} else if f.readonly && flag&(oWRONLY|oRDWR) != 0 {
			return tuple{(*value)(nil), errIface(fr.i, "open "+path+": permission denied")}
		}
		if flag&oTRUNC != 0 {
			f.content = nil
		}
		var cell value = nativeObj{&fileHandle{f: f, app: flag&oAPPEND != 0}}
		return tuple{&cell, iface{}}
	}
	in["os.OpenFile"] = func(fr *frame, a []value) value {
		return openFile(fr, mustStr(a[0], "OpenFile path"), int(asInt64(a[1])))
	}
	in["os.Create"] = func(fr *frame, a []value) value {
		return openFile(fr, mustStr(a[0], "Create path"), oRDWR|oCREATE|oTRUNC)
	}
	in["os.Open"] = func(fr *frame, a []value) value {
		return openFile(fr, mustStr(a[0], "Open path"), 0)
	}
	handleOf := func(v value) *fileHandle { return (*v.(*value)).(nativeObj).v.(*fileHandle) }
	writeTo := func(fr *frame, h *fileHandle, ts []*smt.Term) {
		env := fr.i.ps.env()
		switch h.std {
		case 1:
			env.stdout = append(env.stdout, ts...)
			return
		case 2:
			env.stderr = append(env.stderr, ts...)
			return
		}
		if h.app {
			h.off = len(h.f.content)
		}
		for k, b := range ts {
			if h.off+k < len(h.f.content) {
				h.f.content[h.off+k] = b
			} else {
				h.f.content = append(h.f.content, b)
			}
		}
		h.off += len(ts)
	}
	in["(*os.File).WriteString"] = func(fr *frame, a []value) value {
		ts := strTerms(a[1])
		writeTo(fr, handleOf(a[0]), ts)
		return tuple{len(ts), iface{}}
	}
	bytesTerms := func(v value) []*smt.Term {
		buf, _ := v.([]value)
		ts := make([]*smt.Term, 0, len(buf))
		for _, b := range buf {
			ts = append(ts, termOf(b))
		}
		return ts
	}
	in["(*os.File).Read"] = func(fr *frame, a []value) value {
		h := handleOf(a[0])
		buf, _ := a[1].([]value)
		if h.std != 0 {
			return tuple{0, fr.i.ioSentinel("EOF")}
		}
		if h.off >= len(h.f.content) {
			return tuple{0, fr.i.ioSentinel("EOF")}
		}
		n := 0
		for n < len(buf) && h.off < len(h.f.content) {
			buf[n] = sstr{ps: fr.i.ps}.byteVal(h.f.content[h.off])
			n++
			h.off++
		}
		return tuple{n, iface{}}
	}
	in["(*os.File).Write"] = func(fr *frame, a []value) value {
		ts := bytesTerms(a[1])
		writeTo(fr, handleOf(a[0]), ts)
		return tuple{len(ts), iface{}}
	}
	// os.WriteFile = OpenFile(O_WRONLY|O_CREATE|O_TRUNC) + Write + Close
	writeFile := func(fr *frame, a []value) value {
		r := openFile(fr, mustStr(a[0], "WriteFile path"), oWRONLY|oCREATE|oTRUNC).(tuple)
		if e := r[1].(iface); e.t != nil {
			return e
		}
		writeTo(fr, handleOf(r[0]), bytesTerms(a[1]))
		return iface{}
	}
	in["os.WriteFile"] = writeFile
	in["io/ioutil.WriteFile"] = writeFile
	in["(*os.File).Sync"] = func(fr *frame, a []value) value { return iface{} }
	in["(*os.File).Close"] = func(fr *frame, a []value) value { return iface{} }
	in["fmt.Println"] = func(fr *frame, a []value) value {
		var parts []value
		for k, x := range sliceOfStrings(a[0]) {
			if k > 0 {
				parts = append(parts, " ")
			}
			parts = append(parts, fr.i.formatOne(fr, 'v', x))
		}
		parts = append(parts, "\n")
		ts := strTerms(concatStr(fr.i.ps, parts))
		fr.i.ps.env().stdout = append(fr.i.ps.env().stdout, ts...)
		return tuple{len(ts), iface{}}
	}
	in["fmt.Printf"] = func(fr *frame, a []value) value {
		ts := strTerms(fr.i.format(fr, a[0], sliceOfStrings(a[1])))
		fr.i.ps.env().stdout = append(fr.i.ps.env().stdout, ts...)
		return tuple{len(ts), iface{}}
	}
	in["fmt.Fprintf"] = func(fr *frame, a []value) value {
		w := a[0].(iface)
		ts := strTerms(fr.i.format(fr, a[1], sliceOfStrings(a[2])))
		writeTo(fr, handleOf(w.v), ts)
		return tuple{len(ts), iface{}}
	}

	// ---------- time ----------
	in["time.Now"] = func(fr *frame, a []value) value {
		ps := fr.i.ps
		env := ps.env()
		t := fr.i.zeroOf("time", "Time").(structure)
		name := ps.uniq("clock")
		v := ps.newVar(name, 64)
		ps.inputs = append(ps.inputs, &Input{Name: name, Kind: "int", Terms: []*smt.Term{v}, Width: 64})
		// the wall clock reads some instant of the present (after 2020-09-13), never before an earlier reading
		const present = uint64(1_600_000_000) * 1_000_000_000
		lo := smt.BV(present, 64)
		if env.lastT != nil {
			lo = env.lastT
		}
		// arbitrary non-decreasing instants (nanoseconds, bounded so that differences cannot wrap)
		ps.assertPC(smt.And(smt.BvCmp(smt.OpBvSle, lo, v), smt.BvCmp(smt.OpBvSle, v, smt.BV(present+1<<40, 64))))
		ps.model = nil
		env.lastT = v
		env.clockN++
		t[1] = sym{t: v, k: types.Int64, ps: ps}
		return t
	}
	in["(time.Time).Sub"] = func(fr *frame, a []value) value {
		t, u := a[0].(structure), a[1].(structure)
		return binopKind(fr.i.ps, smt.OpBvSub, t[1], u[1], types.Int64)
	}
	// A time.Time is modelled as (marker, unix nanoseconds, location): marker 1 = calendar time
	// (concrete instant), 0 = a stubbed clock reading (symbolic instant).
	locOf := func(v value) *time.Location {
		if p, ok := v.(*value); ok && p != nil {
			if n, ok := (*p).(nativeObj); ok {
				if l, ok := n.v.(*time.Location); ok {
					return l
				}
			}
		}
		return time.UTC
	}
	locVal := func(l *time.Location) value {
		var cell value = nativeObj{l}
		return &cell
	}
	mkTime := func(fr *frame, nt time.Time) structure {
		t := fr.i.zeroOf("time", "Time").(structure)
		t[0] = uint64(1)
		t[1] = nt.UnixNano()
		t[2] = locVal(nt.Location())
		return t
	}
	nativeTime := func(t structure) (time.Time, bool) {
		x, ok := t[1].(int64)
		if !ok {
			return time.Time{}, false
		}
		return time.Unix(0, x).In(locOf(t[2])), true
	}
	in["time.FixedZone"] = func(fr *frame, a []value) value {
		return locVal(time.FixedZone(mustStr(a[0], "FixedZone name"), int(asInt64(a[1]))))
	}
	in["time.Date"] = func(fr *frame, a []value) value {
		nt := time.Date(int(asInt64(a[0])), time.Month(asInt64(a[1])), int(asInt64(a[2])), int(asInt64(a[3])), int(asInt64(a[4])), int(asInt64(a[5])), int(asInt64(a[6])), locOf(a[7]))
		return mkTime(fr, nt)
	}
	in["time.Parse"] = func(fr *frame, a []value) value {
		nt, err := time.Parse(mustStr(a[0], "Parse layout"), mustStr(a[1], "Parse value"))
		if err != nil {
			return tuple{fr.i.zeroOf("time", "Time"), errIface(fr.i, err.Error())}
		}
		return tuple{mkTime(fr, nt), iface{}}
	}
	// Round / Truncate / Add on a concrete instant: the runtime's own arithmetic
	for _, m := range []string{"Round", "Truncate", "Add"} {
		m := m
		in["(time.Time)."+m] = func(fr *frame, a []value) value {
			nt, ok := nativeTime(a[0].(structure))
			d, isConc := a[1].(int64)
			if !ok || !isConc {
				panic(unsupported{"time.Time." + m + " of a symbolic instant or duration"})
			}
			switch m {
			case "Round":
				nt = nt.Round(time.Duration(d))
			case "Truncate":
				nt = nt.Truncate(time.Duration(d))
			default:
				nt = nt.Add(time.Duration(d))
			}
			return mkTime(fr, nt)
		}
	}
	in["(time.Time).UTC"] = func(fr *frame, a []value) value {
		t := append(structure{}, a[0].(structure)...)
		t[2] = locVal(time.UTC)
		return t
	}
	in["(time.Time).In"] = func(fr *frame, a []value) value {
		t := append(structure{}, a[0].(structure)...)
		t[2] = locVal(locOf(a[1]))
		return t
	}
	in["(time.Time).Equal"] = func(fr *frame, a []value) value {
		x, y := a[0].(structure)[1], a[1].(structure)[1]
		if xi, ok := x.(int64); ok {
			if yi, ok := y.(int64); ok {
				return xi == yi
			}
		}
		return mkScalar(fr.i.ps, smt.Eq(termOf(x), termOf(y)), types.Bool)
	}
	in["(time.Time).Unix"] = func(fr *frame, a []value) value {
		if nt, ok := nativeTime(a[0].(structure)); ok {
			return nt.Unix()
		}
		panic(unsupported{"time.Unix of a symbolic instant"})
	}
	in["(time.Time).UnixNano"] = func(fr *frame, a []value) value { return a[0].(structure)[1] }
	in["(time.Time).Format"] = func(fr *frame, a []value) value {
		t := a[0].(structure)
		layout := mustStr(a[1], "Format layout")
		if nt, ok := nativeTime(t); ok {
			return nt.Format(layout)
		}
		if x, ok := t[1].(sym); ok && x.t.Op == smt.OpVar {
			// a stubbed clock reading: Format is an injective uninterpreted function of (instant, layout)
			if layout == time.RFC3339 {
				return "<<time:" + x.t.Name + ">>"
			}
			return "<<time:" + x.t.Name + ":" + layout + ">>"
		}
		panic(unsupported{"time.Format of a computed symbolic instant"})
	}
	in["(time.Duration).Microseconds"] = func(fr *frame, a []value) value { return asInt64(a[0]) / 1000 }
	in["context.Background"] = func(fr *frame, a []value) value { return iface{} }

	// ---------- encoding/json ----------
	in["encoding/json.NewDecoder"] = func(fr *frame, a []value) value {
		var cell value = nativeObj{&jsonDecoder{reader: a[0]}}
		return &cell
	}
	// More: for readable data there is exactly one top-level value; for unreadable data the answer
	// is arbitrary (no more bytes, a stray closing bracket, or garbage that looks like a value)
	in["(*encoding/json.Decoder).More"] = func(fr *frame, a []value) value {
		dec := (*a[0].(*value)).(nativeObj).v.(*jsonDecoder)
		if dec.native != nil {
			// concrete text: the real decoder's answer (false before a closing bracket or at the end)
			return dec.native.More()
		}
		if dec.docs > 0 && !dec.bad {
			// abstract text after its document: nothing, unless the environment chose trailing text - which
			// More only sees when it does not start with a closing bracket
			if fr.i.ps.flagDecide("decode.trailing") {
				return fr.i.ps.choose(2) == 1
			}
			return false
		}
		if dec.unreadable(fr.i.ps) {
			ps := fr.i.ps
			name := "decode.more"
			if sc, ok := ps.store["scope"].(string); ok && sc != "" {
				name = sc + "." + name
			}
			c := ps.choose(2)
			ps.inputs = append(ps.inputs, &Input{Name: ps.uniq(name), Kind: "choice", Conc: int64(c)})
			return c == 1
		}
		return dec.docs == 0
	}
	// Token after the document: the real decoder's answer for concrete text; for the abstract data text
	// the end of input, unless the environment chose text after the document (fault flag decode.trailing)
	in["(*encoding/json.Decoder).Token"] = func(fr *frame, a []value) value {
		dec := (*a[0].(*value)).(nativeObj).v.(*jsonDecoder)
		if dec.native != nil {
			_, err := dec.native.Token()
			if err == io.EOF {
				return tuple{iface{}, fr.i.ioSentinel("EOF")}
			}
			if err != nil {
				return tuple{iface{}, fr.i.nativeErr(err)}
			}
			return tuple{iface{t: types.Typ[types.String], v: "<<token>>"}, iface{}}
		}
		if dec.docs == 0 {
			return tuple{iface{}, errIface(fr.i, "stub: invalid character looking for beginning of value")}
		}
		if fr.i.ps.flagDecide("decode.trailing") {
			if fr.i.ps.choose(2) == 0 {
				return tuple{iface{t: types.Typ[types.String], v: "<<token>>"}, iface{}}
			}
			return tuple{iface{}, errIface(fr.i, "stub: invalid character after top-level value")}
		}
		return tuple{iface{}, fr.i.ioSentinel("EOF")}
	}
	// Buffered: what the decoder has read from its source and not yet consumed - the real decoder's
	// answer for concrete text (it reads in growing chunks, so text far behind the document may not be
	// in it), the rest of the text for the abstract one
	in["(*encoding/json.Decoder).Buffered"] = func(fr *frame, a []value) value {
		dec := (*a[0].(*value)).(nativeObj).v.(*jsonDecoder)
		rest := ""
		if dec.native != nil {
			b, _ := io.ReadAll(dec.native.Buffered())
			rest = string(b)
		} else if dec.docs > 0 && fr.i.ps.flagDecide("decode.trailing") {
			rest = " <<trailing text>>"
		}
		bt := fr.i.eng.namedType("bytes", "Buffer")
		buf := zero(bt).(structure)
		bs := make([]value, len(rest))
		for k := 0; k < len(rest); k++ {
			bs[k] = rest[k]
		}
		setField(bt, buf, "buf", bs)
		var cell value = buf
		return iface{t: types.NewPointer(bt), v: &cell}
	}
	in["hash/crc32.ChecksumIEEE"] = func(fr *frame, a []value) value {
		bs, _ := a[0].([]value)
		raw := make([]byte, len(bs))
		for k, b := range bs {
			c, ok := b.(uint8)
			if !ok {
				panic(unsupported{"crc32 of symbolic bytes"})
			}
			raw[k] = c
		}
		return crc32.ChecksumIEEE(raw)
	}
	in["(*encoding/json.Decoder).UseNumber"] = func(fr *frame, a []value) value {
		(*a[0].(*value)).(nativeObj).v.(*jsonDecoder).useNumber = true
		return nil
	}
	in["(*encoding/json.Decoder).Decode"] = func(fr *frame, a []value) value {
		ps := fr.i.ps
		ps.env().logs = append(ps.env().logs, "json.Decode")
		// what the decoder reads: the unread content of its reader (a *bytes.Buffer in this code base)
		dec := (*a[0].(*value)).(nativeObj).v.(*jsonDecoder)
		var content value = "<<unknown reader>>"
		var bufCell *value
		if r, ok := dec.reader.(iface); ok {
			if p, ok := r.v.(*value); ok && p != nil {
				if st, ok := (*p).(structure); ok && len(st) >= 2 {
					if _, isBuf := st[0].([]value); isBuf || st[0] == nil {
						bufCell = p
						content = bufferContent(fr.i.ps, st)
					}
				}
			}
		}
		if r, ok := dec.reader.(iface); ok && bufCell == nil {
			// a *strings.Reader{s, i, prevRune}
			if p, ok := r.v.(*value); ok && p != nil {
				if st, ok := (*p).(structure); ok && len(st) == 3 {
					if str, ok := st[0].(string); ok {
						off := int(asInt64(st[1]))
						if off <= len(str) {
							content = str[off:]
						}
					}
				}
			}
		}
		// concrete text holding a JSON value is decoded by the real decoder: no environment choice
		if text, ok := content.(string); ok && !dec.decided && !strings.HasPrefix(text, "<<") {
			nd := dec.native
			if nd == nil {
				nd = json.NewDecoder(strings.NewReader(text))
				if dec.useNumber {
					nd.UseNumber()
				}
				dec.native = nd
			}
			var n any
			err := nd.Decode(&n)
			if err == nil {
				if dst, ok := a[1].(iface); ok && dst.t != nil {
					if pt, isPtr := dst.t.Underlying().(*types.Pointer); isPtr {
						c := &jsonCodec{ps: ps, eng: fr.i.eng, tokens: map[string]value{}}
						*(dst.v.(*value)) = c.fromNativeJSON(n, pt.Elem())
						if bufCell != nil {
							drainBuffer(bufCell)
						}
						dec.docs++
						return iface{}
					}
				}
			} else if dec.docs == 0 {
				// concrete text from which no JSON value can be read: the real decoder's verdict
				if bufCell != nil {
					drainBuffer(bufCell)
				}
				dec.decided, dec.bad = true, true
				return fr.i.nativeErr(err)
			}
		}
		if dec.unreadable(ps) || dec.docs > 0 {
			// a failed Decode has consumed an arbitrary part of the input: all of it, or nothing
			if bufCell != nil && ps.choose(2) == 0 {
				drainBuffer(bufCell)
			}
			return errIface(fr.i, "stub: invalid character looking for beginning of value")
		}
		if bufCell != nil {
			drainBuffer(bufCell)
		}
		dec.docs++
		// the decoded document is an uninterpreted function of the text that was read
		dst := a[1].(iface).v.(*value)
		*dst = iface{t: types.Typ[types.String], v: concatStr(ps, []value{"<<json:", content, ">>"})}
		return iface{}
	}
	in["encoding/json.Marshal"] = func(fr *frame, a []value) value {
		if itf, ok := a[0].(iface); ok {
			if ss, ok := itf.v.(sstr); ok {
				ts := jsonEscapeSym(fr.i.ps, ss.b)
				out := make([]value, len(ts))
				for k, t := range ts {
					out[k] = ss.byteVal(t)
				}
				return tuple{out, iface{}}
			}
		}
		b, err := json.Marshal(toNativeJSON(a[0]))
		if err != nil {
			return tuple{[]value(nil), fr.i.nativeErr(err)}
		}
		out := make([]value, len(b))
		for k := range b {
			out[k] = b[k]
		}
		return tuple{out, iface{}}
	}

	// ---------- json-gold ----------
	in[ldPkg+".NewJsonLdProcessor"] = func(fr *frame, a []value) value {
		var cell value = nativeObj{"ld.Processor"}
		return &cell
	}
	in[ldPkg+".NewJsonLdOptions"] = func(fr *frame, a []value) value {
		var cell value = nativeObj{"ld.Options"}
		return &cell
	}
	in["(*"+ldPkg+".JsonLdProcessor).Flatten"] = func(fr *frame, a []value) value {
		ps := fr.i.ps
		ps.env().logs = append(ps.env().logs, "ld.Flatten")
		if ps.flagDecide("flatten.err") {
			// the processor reports most problems as *ld.JsonLdError and a few (e.g. a scalar
			// as the content of a named graph) as plain errors: the kind is the solver's choice
			if ps.flagDecide("flatten.plain") {
				return tuple{iface{}, errIface(fr.i, "stub: expected map or list to GenerateNodeMap")}
			}
			// ... and on some invalid contexts (a non-boolean @protected) the processor panics
			if ps.flagDecide("flatten.panic") {
				panic(targetPanic{iface{t: types.Typ[types.String], v: "interface conversion: interface {} is float64, not bool"}})
			}
			named := fr.i.eng.namedType(ldPkg, "JsonLdError")
			st := zero(named).(structure)
			st[0] = "invalid local context"
			var cell value = st
			return tuple{iface{}, iface{t: types.NewPointer(named), v: &cell}}
		}
		if g, ok := ps.store["flatten.result"]; ok {
			return tuple{g, iface{}}
		}
		// a document without nodes ({} , [], a bare @context) flattens to an empty list
		if ps.flagDecide("flatten.empty") {
			return tuple{iface{t: types.NewSlice(anyType), v: []value{}}, iface{}}
		}
		if doc, ok := a[1].(iface); ok && doc.t == nil {
			// the processor flattens a null document to an empty list of nodes
			return tuple{iface{t: types.NewSlice(anyType), v: []value{}}, iface{}}
		}
		// default: a graph with a single typed node
		mt := types.NewMap(types.Typ[types.String], anyType)
		node := makeMap(types.Typ[types.String], 0).(*omap)
		node.insert("@id", iface{t: types.Typ[types.String], v: "n1"})
		node.insert("@type", iface{t: types.Typ[types.String], v: "http://example.org/C"})
		if doc, ok := a[1].(iface); ok {
			if tok, isStr := doc.v.(string); isStr {
				node.insert("http://verif/doc", iface{t: types.Typ[types.String], v: tok})
			} else if tok, isSym := doc.v.(sstr); isSym {
				node.insert("http://verif/doc", iface{t: types.Typ[types.String], v: tok})
			}
		}
		nodes := []value{iface{t: mt, v: node}}
		// a well-formed JSON-LD document need not be a well-formed model: here a source map whose lexical
		// entry is a reference to something that is not a node of the document (the repository's own
		// indexing fails on it, after both library stages succeeded)
		if ps.flagDecide("flatten.odd") {
			sm := makeMap(types.Typ[types.String], 0).(*omap)
			sm.insert("@id", iface{t: types.Typ[types.String], v: "sm1"})
			sm.insert("@type", iface{t: types.Typ[types.String], v: "http://a.ml/vocabularies/document-source-maps#SourceMap"})
			ref := makeMap(types.Typ[types.String], 0).(*omap)
			ref.insert("@id", iface{t: types.Typ[types.String], v: "missing"})
			sm.insert("http://a.ml/vocabularies/document-source-maps#lexical", iface{t: mt, v: ref})
			nodes = append(nodes, iface{t: mt, v: sm})
		}
		top := makeMap(types.Typ[types.String], 0).(*omap)
		top.insert("@graph", iface{t: types.NewSlice(anyType), v: nodes})
		return tuple{iface{t: mt, v: top}, iface{}}
	}
	in["("+ldPkg+".JsonLdError).Error"] = func(fr *frame, a []value) value { return "stub: invalid local context" }
	in["(*"+ldPkg+".JsonLdError).Error"] = func(fr *frame, a []value) value { return "stub: invalid local context" }
	in["zz.SetFlattenResult"] = func(fr *frame, a []value) value {
		fr.i.ps.store["flatten.result"] = a[0]
		return nil
	}

	// ---------- OPA ----------
	mkOpt := mkRegoOpt
	in["(github.com/open-policy-agent/opa/ast.Errors).Error"] = func(fr *frame, a []value) value { return "stub: rego compile error" }
	in[regoPkg+".Query"] = func(fr *frame, a []value) value { return mkOpt(regoOpt{"query", a[0], nil}) }
	in[regoPkg+".Module"] = func(fr *frame, a []value) value { return mkOpt(regoOpt{"module", a[0], a[1]}) }
	in[regoPkg+".UnsafeBuiltins"] = func(fr *frame, a []value) value { return mkOpt(regoOpt{"unsafe", a[0], nil}) }
	in[regoPkg+".EvalInput"] = func(fr *frame, a []value) value { return mkOpt(regoOpt{"input", a[0], nil}) }
	in[regoPkg+".New"] = func(fr *frame, a []value) value {
		var opts []regoOpt
		for _, o := range sliceOfStrings(a[0]) {
			opts = append(opts, o.(*closure).Env[0].(nativeObj).v.(regoOpt))
		}
		ps := fr.i.ps
		n, _ := ps.store["rego.New.count"].(int)
		ps.store["rego.New.count"] = n + 1
		rec := map[string]value{}
		var kinds []value
		for _, o := range opts {
			kinds = append(kinds, o.kind)
		}
		rec["kinds"] = kinds
		for _, o := range opts {
			switch o.kind {
			case "query":
				rec["query"] = o.a
			case "module":
				rec["module.name"] = o.a
				rec["module.code"] = o.b
			case "unsafe":
				rec["unsafe"] = o.a
			}
		}
		ps.store[fmt.Sprintf("rego.New.%d", n)] = rec
		var cell value = nativeObj{rec}
		return &cell
	}
	in["zz.RegoNewCount"] = func(fr *frame, a []value) value {
		n, _ := fr.i.ps.store["rego.New.count"].(int)
		return n
	}
	in["zz.RegoNewOption"] = func(fr *frame, a []value) value {
		rec, _ := fr.i.ps.store[fmt.Sprintf("rego.New.%d", asInt64(a[0]))].(map[string]value)
		v, ok := rec[mustStr(a[1], "RegoNewOption key")]
		if !ok {
			return iface{}
		}
		switch x := v.(type) {
		case string, sstr:
			return iface{t: types.Typ[types.String], v: x}
		case *omap:
			keys := []value{}
			for _, i := range x.liveIndices() {
				keys = append(keys, x.keys[i])
			}
			return iface{t: types.NewSlice(types.Typ[types.String]), v: keys}
		case []value:
			return iface{t: types.NewSlice(types.Typ[types.String]), v: x}
		}
		return iface{}
	}
	in["(*"+regoPkg+".Rego).PrepareForEval"] = func(fr *frame, a []value) value {
		ps := fr.i.ps
		ps.env().logs = append(ps.env().logs, "rego.PrepareForEval")
		pq := fr.i.zeroOf(regoPkg, "PreparedEvalQuery").(structure)
		if ps.flagDecide("compile.err") {
			// compilation problems are reported as ast.Errors by the engine: here one error located in the
			// module and the marker the engine appends when it stops at its error limit, which has no location
			const astPkg = "github.com/open-policy-agent/opa/ast"
			mkErr := func(code, msg string, located bool) value {
				et := fr.i.eng.namedType(astPkg, "Error")
				e := zero(et).(structure)
				setField(et, e, "Code", code)
				setField(et, e, "Message", msg)
				if located {
					lt := fr.i.eng.namedType(astPkg, "Location")
					l := zero(lt).(structure)
					setField(lt, l, "File", "stub.rego")
					setField(lt, l, "Row", int(3))
					setField(lt, l, "Col", int(1))
					var lc value = l
					setField(et, e, "Location", &lc)
				}
				var cell value = e
				return &cell
			}
			errs := []value{mkErr("rego_unsafe_var_error", "stub: var x is unsafe", true), mkErr("rego_compile_error", "error limit reached", false)}
			return tuple{pq, iface{t: fr.i.eng.namedType(astPkg, "Errors"), v: errs}}
		}
		// remember which Rego object this query came from
		inner := pq[0].(structure)
		inner[0] = a[0]
		return tuple{pq, iface{}}
	}
	in["("+regoPkg+".PreparedEvalQuery).Eval"] = func(fr *frame, a []value) value {
		ps := fr.i.ps
		ps.env().logs = append(ps.env().logs, "rego.Eval")
		rsT := fr.i.eng.namedType(regoPkg, "ResultSet")
		if ps.flagDecide("eval.err") {
			return tuple{zero(rsT), errIface(fr.i, "stub: eval error")}
		}
		if ps.flagDecide("eval.empty") {
			return tuple{[]value{}, iface{}}
		}
		var rv value
		if r, ok := ps.store["eval.result"]; ok {
			rv = deepCopyJSON(r)
		} else {
			mt := types.NewMap(types.Typ[types.String], anyType)
			m := makeMap(types.Typ[types.String], 0).(*omap)
			// the result is a function of the module the query was prepared from: its profile name line
			// (what the real module answers for report.profile) identifies it
			m.insert("profile", iface{t: types.Typ[types.String], v: evalModuleIdentity(a[0])})
			for _, l := range []string{"violation", "warning", "info"} {
				m.insert(l, iface{t: types.NewSlice(anyType), v: []value{}})
			}
			// the result is an uninterpreted function of the input: one violation that quotes the
			// document marker found in the normalised input (if any)
			if marker := evalInputMarker(a); marker != nil {
				r := makeMap(types.Typ[types.String], 0).(*omap)
				r.insert("@type", iface{t: types.NewSlice(anyType), v: []value{iface{t: types.Typ[types.String], v: "shacl:ValidationResult"}}})
				r.insert("sourceShapeName", iface{t: types.Typ[types.String], v: "stub"})
				r.insert("focusNode", iface{t: types.Typ[types.String], v: "n1"})
				r.insert("resultMessage", iface{t: types.Typ[types.String], v: marker})
				// one trace entry quoting a number of the document the way the engine hands numbers
				// over: a json.Number holding the literal as written (not in canonical form)
				tv := makeMap(types.Typ[types.String], 0).(*omap)
				tv.insert("@type", iface{t: types.NewSlice(anyType), v: []value{iface{t: types.Typ[types.String], v: "validation:TraceValue"}}})
				tv.insert("negated", iface{t: types.Typ[types.Bool], v: false})
				tv.insert("actual", iface{t: fr.i.eng.namedType("encoding/json", "Number"), v: "12.50"})
				tr := makeMap(types.Typ[types.String], 0).(*omap)
				tr.insert("@type", iface{t: types.NewSlice(anyType), v: []value{iface{t: types.Typ[types.String], v: "validation:TraceMessage"}}})
				tr.insert("component", iface{t: types.Typ[types.String], v: "stub"})
				tr.insert("resultPath", iface{t: types.Typ[types.String], v: "stub"})
				tr.insert("traceValue", iface{t: mt, v: tv})
				r.insert("trace", iface{t: types.NewSlice(anyType), v: []value{iface{t: mt, v: tr}}})
				m.insert("violation", iface{t: types.NewSlice(anyType), v: []value{iface{t: mt, v: r}}})
			}
			rv = iface{t: mt, v: m}
		}
		ev := fr.i.zeroOf(regoPkg, "ExpressionValue").(structure)
		ev[0] = rv
		var evCell value = ev
		res := fr.i.zeroOf(regoPkg, "Result").(structure)
		res[0] = []value{&evCell}
		return tuple{[]value{res}, iface{}}
	}
	in["zz.SetEvalResult"] = func(fr *frame, a []value) value {
		fr.i.ps.store["eval.result"] = a[0]
		return nil
	}
	for _, b := range []string{"HTTPSend", "WalkBuiltin", "OPARuntime", "RegoParseModule", "NetLookupIPAddr"} {
		b := b
		externGlobals["github.com/open-policy-agent/opa/ast."+b] = func(i *interpreter, g *ssa.Global) value {
			bt := i.zeroOf("github.com/open-policy-agent/opa/ast", "Builtin").(structure)
			bt[0] = opaBuiltinName(b)
			var cell value = bt
			return &cell
		}
	}

	// ---------- other decoders of a whole text into *any (native on concrete text; on the abstract
	// data text they follow the same environment decision as the streaming decoder) ----------
	textDecoder := func(name string, native func([]byte, *any) error) {
		in[name] = func(fr *frame, a []value) value {
			ps := fr.i.ps
			ps.env().logs = append(ps.env().logs, name)
			bs, _ := a[0].([]value)
			raw := make([]byte, len(bs))
			for k, b := range bs {
				c, ok := b.(uint8)
				if !ok {
					panic(unsupported{name + " on symbolic bytes"})
				}
				raw[k] = c
			}
			dst, ok := a[1].(iface)
			if !ok || dst.t == nil {
				return errIface(fr.i, "stub: decode into nil")
			}
			pt, isPtr := dst.t.Underlying().(*types.Pointer)
			if !isPtr {
				return errIface(fr.i, "stub: decode into a non-pointer")
			}
			if strings.HasPrefix(string(raw), "<<") {
				if ps.flagDecide("decode.err") {
					return errIface(fr.i, "stub: invalid character looking for beginning of value")
				}
				*(dst.v.(*value)) = iface{t: types.Typ[types.String], v: "<<json:" + string(raw) + ">>"}
				return iface{}
			}
			var n any
			if err := native(raw, &n); err != nil {
				return fr.i.nativeErr(err)
			}
			c := &jsonCodec{ps: ps, eng: fr.i.eng, tokens: map[string]value{}}
			*(dst.v.(*value)) = c.fromNativeJSON(normaliseDecoded(n), pt.Elem())
			return iface{}
		}
	}
	textDecoder("github.com/open-policy-agent/opa/util.Unmarshal", func(b []byte, v *any) error { return opautil.Unmarshal(b, v) })
	textDecoder("github.com/open-policy-agent/opa/util.UnmarshalJSON", func(b []byte, v *any) error { return opautil.UnmarshalJSON(b, v) })

	// ---------- yaml (native on concrete text) ----------
	in["gopkg.in/yaml.v3.Unmarshal"] = func(fr *frame, a []value) value {
		bs := a[0].([]value)
		raw := make([]byte, len(bs))
		for k, b := range bs {
			c, ok := b.(uint8)
			if !ok {
				panic(unsupported{"yaml.Unmarshal on symbolic bytes"})
			}
			raw[k] = c
		}
		var node yaml.Node
		if err := yaml.Unmarshal(raw, &node); err != nil {
			return fr.i.nativeErr(err)
		}
		dst := a[1].(iface).v.(*value)
		nt := fr.i.eng.namedType("gopkg.in/yaml.v3", "Node")
		*dst = fr.i.eng.fromNative(reflect.ValueOf(node), nt, map[unsafe.Pointer]*value{})
		return iface{}
	}

	// ---------- encoder used by validator.Encode ----------
	in["encoding/json.NewEncoder"] = func(fr *frame, a []value) value {
		var cell value = nativeObj{a[0]}
		return &cell
	}
	in["(*encoding/json.Encoder).SetIndent"] = func(fr *frame, a []value) value { return nil }
	in["(*encoding/json.Encoder).SetEscapeHTML"] = func(fr *frame, a []value) value { return nil }
	in["(*encoding/json.Encoder).Encode"] = func(fr *frame, a []value) value {
		ps := fr.i.ps
		ps.store["encoded"] = a[1]
		w := (*a[0].(*value)).(nativeObj).v.(value).(iface) // io.Writer holding *bytes.Buffer
		buf := w.v.(*value)
		var text value
		if hasSymDeep(a[1], 0) {
			text = "<<encoded-document-with-symbolic-parts>>"
		} else {
			var bb bytes.Buffer
			enc := json.NewEncoder(&bb)
			enc.SetIndent("", "  ")
			enc.SetEscapeHTML(false)
			if err := enc.Encode(toNativeJSON(a[1])); err != nil {
				return fr.i.nativeErr(err)
			}
			text = bb.String()
		}
		*buf = nativeObj{text}
		return iface{}
	}
	in["(*bytes.Buffer).String"] = func(fr *frame, a []value) value {
		p := a[0].(*value)
		if n, ok := (*p).(nativeObj); ok {
			if s, ok := n.v.(string); ok {
				return s
			}
			if s, ok := n.v.(value); ok {
				return s
			}
		}
		if st, ok := (*p).(structure); ok {
			return bufferContent(fr.i.ps, st)
		}
		panic(unsupported{"bytes.Buffer.String on unmodelled buffer"})
	}

	// ---------- small library pieces used by the PEG runtime ----------
	in["unicode/utf8.DecodeRune"] = func(fr *frame, a []value) value {
		bs := a[0].([]value)
		if len(bs) == 0 {
			return tuple{int32(0xFFFD), 0}
		}
		switch b := bs[0].(type) {
		case uint8:
			if b < 0x80 {
				return tuple{int32(b), 1}
			}
			raw := make([]byte, 0, 4)
			for k := 0; k < len(bs) && k < 4; k++ {
				c, ok := bs[k].(uint8)
				if !ok {
					panic(unsupported{"DecodeRune over mixed symbolic bytes"})
				}
				raw = append(raw, c)
			}
			r, n := decodeRune(raw)
			return tuple{r, n}
		case sym:
			if !b.ps.decide(smt.BvCmp(smt.OpBvUlt, b.t, smt.BV(0x80, 8))) {
				panic(pathEnd{"assume-false", "non-ASCII symbolic byte (outside the stated bound)"})
			}
			return tuple{sym{t: smt.Zext(b.t, 32), k: types.Int32, ps: b.ps}, 1}
		}
		panic(unsupported{"DecodeRune"})
	}
	in["unicode.ToLower"] = func(fr *frame, a []value) value {
		switch r := a[0].(type) {
		case int32:
			return unicode.ToLower(r)
		case sym:
			isUp := smt.And(smt.BvCmp(smt.OpBvSle, smt.BV('A', 32), r.t), smt.BvCmp(smt.OpBvSle, r.t, smt.BV('Z', 32)))
			return mkScalar(r.ps, smt.Ite(isUp, smt.BvBin(smt.OpBvAdd, r.t, smt.BV(32, 32)), r.t), types.Int32)
		}
		panic(unsupported{"unicode.ToLower"})
	}
	// sync.Pool: Get hands back the most recently Put object when there is one (what the
	// runtime does between collections), otherwise New()
	in["(*sync.Pool).Get"] = func(fr *frame, a []value) value {
		key := fmt.Sprintf("pool:%p", a[0].(*value))
		if items, _ := fr.i.ps.store[key].([]value); len(items) > 0 {
			it := items[len(items)-1]
			fr.i.ps.store[key] = items[:len(items)-1]
			return it
		}
		st := (*a[0].(*value)).(structure)
		newFn := st[len(st)-1]
		if f, ok := newFn.(*ssa.Function); ok && f == nil {
			return iface{}
		}
		return call(fr.i, fr, 0, newFn, nil)
	}
	// ---------- sync/atomic: synchronised accesses (not recorded as racy writes) ----------
	atomicAdd := func(k types.BasicKind) intrinsic {
		return func(fr *frame, a []value) value {
			p := a[0].(*value)
			nv := binop(token.ADD, types.Typ[k], *p, a[1])
			*p = nv
			fr.i.ps.dirty = fr.i.ps.dirty || fr.i.ps.gcells[p]
			fr.i.ps.atomics++
			return nv
		}
	}
	in["sync/atomic.AddInt64"] = atomicAdd(types.Int64)
	in["sync/atomic.AddInt32"] = atomicAdd(types.Int32)
	in["sync/atomic.AddUint64"] = atomicAdd(types.Uint64)
	in["sync/atomic.AddUint32"] = atomicAdd(types.Uint32)
	atomicLoad := func(fr *frame, a []value) value { fr.i.ps.atomics++; return *a[0].(*value) }
	atomicStore := func(fr *frame, a []value) value {
		p := a[0].(*value)
		*p = a[1]
		fr.i.ps.dirty = fr.i.ps.dirty || fr.i.ps.gcells[p]
		fr.i.ps.atomics++
		// an atomic store is no data race, but overwriting package-level state is still visible to
		// every other call in flight (a ticket counter may only be added to)
		if fr.i.ps.gcells[p] && fr.i.ps.trackW {
			fr.i.ps.resets = append(fr.i.ps.resets, "atomic store to package-level state at "+fr.i.ps.curPos())
		}
		return nil
	}
	for _, t := range []string{"Int64", "Int32", "Uint64", "Uint32"} {
		in["sync/atomic.Load"+t] = atomicLoad
		in["sync/atomic.Store"+t] = atomicStore
	}
	// atomic.Int64 & co: struct{_ noCopy; [_ align64;] v T} -- the value is the last field
	lastField := func(a []value) *value {
		st := (*a[0].(*value)).(structure)
		return &st[len(st)-1]
	}
	for _, t := range []struct {
		n string
		k types.BasicKind
	}{{"Int64", types.Int64}, {"Int32", types.Int32}, {"Uint64", types.Uint64}, {"Uint32", types.Uint32}} {
		t := t
		in["(*sync/atomic."+t.n+").Add"] = func(fr *frame, a []value) value {
			return atomicAdd(t.k)(fr, []value{lastField(a), a[1]})
		}
		in["(*sync/atomic."+t.n+").Load"] = func(fr *frame, a []value) value { return atomicLoad(fr, []value{lastField(a)}) }
		in["(*sync/atomic."+t.n+").Store"] = func(fr *frame, a []value) value {
			return atomicStore(fr, []value{lastField(a), a[1]})
		}
	}
	in["(*sync.Mutex).Lock"] = func(fr *frame, a []value) value { fr.i.ps.locked++; return nil }
	in["(*sync.Mutex).Unlock"] = func(fr *frame, a []value) value { fr.i.ps.locked--; return nil }
	in["(*sync.Pool).Put"] = func(fr *frame, a []value) value {
		key := fmt.Sprintf("pool:%p", a[0].(*value))
		items, _ := fr.i.ps.store[key].([]value)
		fr.i.ps.store[key] = append(items, a[1])
		return nil
	}
	in["strings.Repeat"] = func(fr *frame, a []value) value {
		return strings.Repeat(mustStr(a[0], "Repeat"), int(asInt64(a[1])))
	}
}

func binopKind(ps *pathState, op smt.Op, x, y value, k types.BasicKind) value {
	return mkScalar(ps, smt.BvBin(op, termOf(x), termOf(y)), k)
}

func decodeRune(b []byte) (int32, int) {
	r := []rune(string(b))
	if len(r) == 0 {
		return 0xFFFD, 1
	}
	return int32(r[0]), len(string(r[0]))
}

func hasSymDeep(v value, depth int) bool {
	if depth > 40 {
		return false
	}
	switch v := v.(type) {
	case sym, sstr:
		return true
	case iface:
		return hasSymDeep(v.v, depth+1)
	case *omap:
		if v == nil {
			return false
		}
		for _, i := range v.liveIndices() {
			if hasSymDeep(v.keys[i], depth+1) || hasSymDeep(v.vals[i], depth+1) {
				return true
			}
		}
	case []value:
		for _, e := range v {
			if hasSymDeep(e, depth+1) {
				return true
			}
		}
	case structure:
		for _, e := range v {
			if hasSymDeep(e, depth+1) {
				return true
			}
		}
	case array:
		for _, e := range v {
			if hasSymDeep(e, depth+1) {
				return true
			}
		}
	case *value:
		if v != nil {
			return hasSymDeep(*v, depth+1)
		}
	}
	return false
}

// deepCopyJSON copies a JSON-like interpreter value (fresh maps per Eval call,
// which is what OPA's Eval guarantees).
func deepCopyJSON(v value) value {
	switch v := v.(type) {
	case iface:
		return iface{t: v.t, v: deepCopyJSON(v.v)}
	case *omap:
		if v == nil {
			return v
		}
		m := makeMap(v.kt, 0).(*omap)
		for _, i := range v.liveIndices() {
			m.insert(v.keys[i], deepCopyJSON(v.vals[i]))
		}
		return m
	case []value:
		if v == nil {
			return v
		}
		out := make([]value, len(v))
		for i := range v {
			out[i] = deepCopyJSON(v[i])
		}
		return out
	}
	return v
}

// jsonEscapeSym is encoding/json's string encoding (HTML escaping on) over symbolic ASCII bytes.
func jsonEscapeSym(ps *pathState, bs []*smt.Term) []*smt.Term {
	c := func(s string) []*smt.Term { return strTerms(s) }
	out := c("\"")
	hexDigit := func(n *smt.Term) *smt.Term {
		return smt.Ite(smt.BvCmp(smt.OpBvUlt, n, smt.BV(10, 8)), smt.BvBin(smt.OpBvAdd, n, smt.BV('0', 8)), smt.BvBin(smt.OpBvAdd, n, smt.BV('a'-10, 8)))
	}
	for _, b := range bs {
		eq := func(ch byte) bool { return ps.decide(smt.Eq(b, smt.BV(uint64(ch), 8))) }
		switch {
		case eq('"'):
			out = append(out, c("\\\"")...)
		case eq('\\'):
			out = append(out, c("\\\\")...)
		case eq('\n'):
			out = append(out, c("\\n")...)
		case eq('\r'):
			out = append(out, c("\\r")...)
		case eq('\t'):
			out = append(out, c("\\t")...)
		case eq('<'):
			out = append(out, c("\\u003c")...)
		case eq('>'):
			out = append(out, c("\\u003e")...)
		case eq('&'):
			out = append(out, c("\\u0026")...)
		case ps.decide(smt.BvCmp(smt.OpBvUlt, b, smt.BV(0x20, 8))):
			out = append(out, c("\\u00")...)
			out = append(out, hexDigit(smt.BvBin(smt.OpBvLshr, b, smt.BV(4, 8))), hexDigit(smt.BvBin(smt.OpBvAnd, b, smt.BV(15, 8))))
		case ps.decide(smt.BvCmp(smt.OpBvUlt, b, smt.BV(0x80, 8))):
			out = append(out, b)
		default:
			panic(pathEnd{"assume-false", "non-ASCII symbolic byte in json.Marshal (outside the stated bound)"})
		}
	}
	return append(out, c("\"")...)
}

// normSite reduces a function name to pkg.Func / pkg.Type.Method so that the executor
// and the native runtime name panic sites identically.
func normSite(s string) string {
	s = strings.NewReplacer("(*", "", "(", "", ")", "", "*", "").Replace(s)
	if i := strings.LastIndex(s, "/"); i >= 0 {
		s = s[i+1:]
	}
	if i := strings.Index(s, "$"); i >= 0 {
		s = s[:i]
	}
	return s
}

type jsonDecoder struct {
	useNumber bool
	reader    value
	decided   bool
	bad       bool
	docs      int
	native    *json.Decoder // concrete text: the real decoder, kept so that Token / More see what is left
}

// unreadable: is no complete JSON value readable from this decoder's input? (environment's choice,
// made once per decoder and published as the fault flag decode.err)
func (d *jsonDecoder) unreadable(ps *pathState) bool {
	if !d.decided {
		d.decided = true
		d.bad = ps.flagDecide("decode.err")
	}
	return d.bad
}

type regoOpt struct {
	kind string
	a, b value
}

// bufferContent: the unread part of a bytes.Buffer (struct{buf []byte; off int; ...}).
func bufferContent(ps *pathState, st structure) value {
	buf, _ := st[0].([]value)
	off := int(asInt64(st[1]))
	if off > len(buf) {
		off = len(buf)
	}
	ts := make([]*smt.Term, 0, len(buf)-off)
	for _, b := range buf[off:] {
		ts = append(ts, termOf(b))
	}
	return normStr(ps, ts)
}

func drainBuffer(p *value) {
	st := (*p).(structure)
	if buf, ok := st[0].([]value); ok {
		st[1] = len(buf)
	}
}

// evalInputMarker finds the document marker the Flatten stub planted, in the input given to Eval.
func evalInputMarker(a []value) value {
	if len(a) < 3 {
		return nil
	}
	for _, o := range sliceOfStrings(a[2]) {
		c, ok := o.(*closure)
		if !ok || len(c.Env) == 0 {
			continue
		}
		n, ok := c.Env[0].(nativeObj)
		if !ok {
			continue
		}
		if ro, ok := n.v.(regoOpt); ok && ro.kind == "input" {
			if v := findMarker(ro.a, 0); v != nil {
				return v
			}
		}
	}
	return nil
}

func findMarker(v value, depth int) value {
	if depth > 8 {
		return nil
	}
	switch x := v.(type) {
	case iface:
		return findMarker(x.v, depth+1)
	case *omap:
		if x == nil {
			return nil
		}
		if m, ok := x.lookup("http://verif/doc"); ok {
			if it, ok := m.(iface); ok {
				return it.v
			}
			return m
		}
		for _, i := range x.liveIndices() {
			if r := findMarker(x.vals[i], depth+1); r != nil {
				return r
			}
		}
	case []value:
		for _, e := range x {
			if r := findMarker(e, depth+1); r != nil {
				return r
			}
		}
	}
	return nil
}

func mkRegoOpt(o regoOpt) value { return &closure{Fn: nil, Env: []value{nativeObj{o}}} }

// genericRegoOption: any other option constructor of package rego is recorded by name, so that
// the gate lemma can see options that were not there before.
func genericRegoOption(fn *ssa.Function) (value, bool) {
	if fn.Pkg == nil || fn.Pkg.Pkg.Path() != "github.com/open-policy-agent/opa/rego" {
		return nil, false
	}
	res := fn.Signature.Results()
	if res.Len() != 1 {
		return nil, false
	}
	if sig, ok := res.At(0).Type().Underlying().(*types.Signature); ok && sig.Params().Len() == 1 {
		return mkRegoOpt(regoOpt{kind: "other:" + fn.Name()}), true
	}
	return nil, false
}

// evalModuleIdentity: which module was this prepared query compiled from? The stub of
// PrepareForEval stored the rego object in the query; its module option carries the code, whose
// `report["profile"] = "..."` line is what the real module would answer.
func evalModuleIdentity(pq value) value {
	st, ok := pq.(structure)
	if !ok || len(st) == 0 {
		return "stub-profile"
	}
	inner, ok := st[0].(structure)
	if !ok || len(inner) == 0 {
		return "stub-profile"
	}
	p, ok := inner[0].(*value)
	if !ok || p == nil {
		return "stub-profile"
	}
	n, ok := (*p).(nativeObj)
	if !ok {
		return "stub-profile"
	}
	rec, ok := n.v.(map[string]value)
	if !ok {
		return "stub-profile"
	}
	code, ok := rec["module.code"].(string)
	if !ok {
		return "stub-profile"
	}
	// ... and the answer is a function of the module text modulo the numbering of generated
	// identifiers: a digest of the code with its digits removed stands for that
	h := fnv.New32a()
	for k := 0; k < len(code); k++ {
		if code[k] < '0' || code[k] > '9' {
			h.Write([]byte{code[k]})
		}
	}
	digest := fmt.Sprintf("#%08x", h.Sum32())
	for _, l := range strings.Split(code, "\n") {
		if strings.HasPrefix(l, `report["profile"] = "`) && strings.HasSuffix(l, `"`) {
			return "stub:" + strings.TrimSuffix(strings.TrimPrefix(l, `report["profile"] = "`), `"`) + digest
		}
	}
	return "stub-profile" + digest
}

// normaliseDecoded turns what non-JSON decoders produce (map[any]any, int, float64 ...) into the
// shapes the JSON codec knows.
func normaliseDecoded(n any) any {
	switch x := n.(type) {
	case map[string]any:
		for k, v := range x {
			x[k] = normaliseDecoded(v)
		}
		return x
	case map[any]any:
		out := map[string]any{}
		for k, v := range x {
			out[fmt.Sprint(k)] = normaliseDecoded(v)
		}
		return out
	case []any:
		for k, v := range x {
			x[k] = normaliseDecoded(v)
		}
		return x
	case int:
		return json.Number(strconv.Itoa(x))
	case int64:
		return json.Number(strconv.FormatInt(x, 10))
	}
	return n
}

// setField stores v into the named field of a structure of the given named struct type.
func setField(t types.Type, st structure, name string, v value) {
	s, ok := t.Underlying().(*types.Struct)
	if !ok {
		return
	}
	for k := 0; k < s.NumFields(); k++ {
		if s.Field(k).Name() == name {
			st[k] = v
			return
		}
	}
}
