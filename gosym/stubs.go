package gosym

func registerEnvStubs(e *Engine) {}

type scheduler struct{}
