package gosym

import (
	"regexp"
	"regexp/syntax"

	"verif/smt"
)

// symRegexMatch builds the condition "re matches somewhere in the text" for a text of symbolic
// bytes, by simulating the compiled program of Go's own regexp/syntax (Thompson construction)
// with one reachability term per (position, instruction) instead of a set of threads: no fork, no
// enumeration of texts. The text is ASCII (every symbolic byte is assumed < 0x80 by the caller).
// ok=false means the expression uses something outside the model.
func symRegexMatch(re *regexp.Regexp, bytes []*smt.Term) (cond *smt.Term, ok bool) {
	parsed, err := syntax.Parse(re.String(), syntax.Perl)
	if err != nil {
		return nil, false
	}
	prog, err := syntax.Compile(parsed.Simplify())
	if err != nil {
		return nil, false
	}
	n := len(bytes)
	isWord := func(b *smt.Term) *smt.Term {
		in := func(lo, hi byte) *smt.Term {
			return smt.And(smt.BvCmp(smt.OpBvUle, smt.BV(uint64(lo), 8), b), smt.BvCmp(smt.OpBvUle, b, smt.BV(uint64(hi), 8)))
		}
		return smt.Or(in('a', 'z'), in('A', 'Z'), in('0', '9'), smt.Eq(b, smt.BV('_', 8)))
	}
	// emptyCond: the condition under which the empty-width assertions hold at position i
	emptyCond := func(op syntax.EmptyOp, i int) *smt.Term {
		c := smt.True
		if op&syntax.EmptyBeginText != 0 && i != 0 {
			return smt.False
		}
		if op&syntax.EmptyEndText != 0 && i != n {
			return smt.False
		}
		if op&syntax.EmptyBeginLine != 0 && i != 0 {
			c = smt.And(c, smt.Eq(bytes[i-1], smt.BV('\n', 8)))
		}
		if op&syntax.EmptyEndLine != 0 && i != n {
			c = smt.And(c, smt.Eq(bytes[i], smt.BV('\n', 8)))
		}
		if op&(syntax.EmptyWordBoundary|syntax.EmptyNoWordBoundary) != 0 {
			before, after := smt.False, smt.False
			if i > 0 {
				before = isWord(bytes[i-1])
			}
			if i < n {
				after = isWord(bytes[i])
			}
			boundary := smt.Not(smt.Eq(before, after))
			if op&syntax.EmptyWordBoundary != 0 {
				c = smt.And(c, boundary)
			}
			if op&syntax.EmptyNoWordBoundary != 0 {
				c = smt.And(c, smt.Not(boundary))
			}
		}
		return c
	}
	// runeCond: the condition under which byte b is accepted by a rune instruction
	runeCond := func(inst *syntax.Inst, b *smt.Term) *smt.Term {
		switch inst.Op {
		case syntax.InstRuneAny:
			return smt.True
		case syntax.InstRuneAnyNotNL:
			return smt.Not(smt.Eq(b, smt.BV('\n', 8)))
		}
		fold := syntax.Flags(inst.Arg)&syntax.FoldCase != 0
		one := func(lo, hi rune) *smt.Term {
			if lo > 0x7f {
				return smt.False
			}
			if hi > 0x7f {
				hi = 0x7f
			}
			if lo == hi {
				return smt.Eq(b, smt.BV(uint64(lo), 8))
			}
			return smt.And(smt.BvCmp(smt.OpBvUle, smt.BV(uint64(lo), 8), b), smt.BvCmp(smt.OpBvUle, b, smt.BV(uint64(hi), 8)))
		}
		c := smt.False
		rs := inst.Rune
		if len(rs) == 1 {
			c = one(rs[0], rs[0])
			if fold {
				r := rs[0]
				if r >= 'a' && r <= 'z' {
					c = smt.Or(c, one(r-32, r-32))
				} else if r >= 'A' && r <= 'Z' {
					c = smt.Or(c, one(r+32, r+32))
				}
			}
			return c
		}
		for k := 0; k+1 < len(rs); k += 2 {
			c = smt.Or(c, one(rs[k], rs[k+1]))
		}
		return c
	}
	matched := smt.False
	cur := map[int]*smt.Term{} // instruction -> condition of being there before reading byte i
	for i := 0; i <= n; i++ {
		// an unanchored search may start at every position
		cur[prog.Start] = smt.Or(orFalse(cur[prog.Start]), smt.True)
		// epsilon closure with guarded edges, relaxed to a fixpoint
		for pass := 0; pass <= len(prog.Inst); pass++ {
			changed := false
			add := func(pc int, g *smt.Term) {
				if g.IsFalse() {
					return
				}
				old := orFalse(cur[pc])
				nw := smt.Or(old, g)
				if nw != old {
					cur[pc] = nw
					changed = true
				}
			}
			for pc, g := range cur {
				inst := &prog.Inst[pc]
				switch inst.Op {
				case syntax.InstAlt, syntax.InstAltMatch:
					add(int(inst.Out), g)
					add(int(inst.Arg), g)
				case syntax.InstNop, syntax.InstCapture:
					add(int(inst.Out), g)
				case syntax.InstEmptyWidth:
					add(int(inst.Out), smt.And(g, emptyCond(syntax.EmptyOp(inst.Arg), i)))
				}
			}
			if !changed {
				break
			}
			if pass == len(prog.Inst) {
				return nil, false // guards keep changing along an epsilon cycle
			}
		}
		for pc, g := range cur {
			if prog.Inst[pc].Op == syntax.InstMatch {
				matched = smt.Or(matched, g)
			}
		}
		if i == n {
			break
		}
		next := map[int]*smt.Term{}
		for pc, g := range cur {
			inst := &prog.Inst[pc]
			switch inst.Op {
			case syntax.InstRune, syntax.InstRune1, syntax.InstRuneAny, syntax.InstRuneAnyNotNL:
				c := smt.And(g, runeCond(inst, bytes[i]))
				if !c.IsFalse() {
					next[int(inst.Out)] = smt.Or(orFalse(next[int(inst.Out)]), c)
				}
			}
		}
		cur = next
	}
	return matched, true
}

func orFalse(t *smt.Term) *smt.Term {
	if t == nil {
		return smt.False
	}
	return t
}

// SelfTestSymRegex compares the symbolic matcher with regexp.MatchString on every text of up to
// three characters over a small alphabet, for a set of expressions covering the instruction kinds.
func SelfTestSymRegex() (checked int, mismatch string) {
	exprs := []string{
		`^[a-zA-Z-0-9\-]+\.[\.(\\/)a-zA-Z-0-9\-]+$`, `a`, `^a`, `a$`, `^$`, `a|b`, `(ab)+`, `a*b`, `^a?b?$`, `[^a]`, `.`, `\.`, `\bA\b`, `\Ba`, `(?i)aB`, `(?m)^a$`, `a.b`, `\d+`, `\w\W`, `\s`, `^(a|\.)*$`, `x{2,3}`, `()`, `[a-b.]{2}`,
		`\{\{\s*([\w-]+\.[\w-]+)\s*}}`,
	}
	alphabet := []byte{'a', 'b', 'A', 'B', '.', '\n', 'x', '0', ' ', '-', '{', '}', '(', '\\'}
	vars := []*smt.Term{smt.Var("sr_b0", 8), smt.Var("sr_b1", 8), smt.Var("sr_b2", 8)}
	for _, ex := range exprs {
		re := regexp.MustCompile(ex)
		for n := 0; n <= 3; n++ {
			cond, ok := symRegexMatch(re, vars[:n])
			if !ok {
				return checked, "expression outside the model: " + ex
			}
			idx := make([]int, n)
			for {
				text := make([]byte, n)
				m := map[string]uint64{}
				for k := 0; k < n; k++ {
					text[k] = alphabet[idx[k]]
					m[vars[k].Name] = uint64(text[k])
				}
				got := smt.Eval(cond, m, map[*smt.Term]uint64{}) != 0
				if want := re.MatchString(string(text)); got != want {
					return checked, "symbolic matcher disagrees with regexp on " + ex + " / " + string(text)
				}
				checked++
				k := 0
				for ; k < n; k++ {
					idx[k]++
					if idx[k] < len(alphabet) {
						break
					}
					idx[k] = 0
				}
				if k == n {
					break
				}
			}
		}
	}
	return checked, ""
}
