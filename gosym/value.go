// Copyright 2013 The Go Authors. All rights reserved.
// Use of this source code is governed by a BSD-style
// license that can be found in the LICENSE file.

package gosym

// Values
//
// All interpreter values are "boxed" in the empty interface, value.
// The range of possible dynamic types within value are:
//
// - bool
// - numbers (all built-in int/float/complex types are distinguished)
// - string
// - map[value]value --- maps for which  usesBuiltinMap(keyType)
//   *hashmap        --- maps for which !usesBuiltinMap(keyType)
// - chan value
// - []value --- slices
// - iface --- interfaces.
// - structure --- structs.  Fields are ordered and accessed by numeric indices.
// - array --- arrays.
// - *value --- pointers.  Careful: *value is a distinct type from *array etc.
// - *ssa.Function \
//   *ssa.Builtin   } --- functions.  A nil 'func' is always of type *ssa.Function.
//   *closure      /
// - tuple --- as returned by Return, Next, "value,ok" modes, etc.
// - iter --- iterators from 'range' over map or string.
// - bad --- a poison pill for locals that have gone out of scope.
// - rtype -- the interpreter's concrete implementation of reflect.Type
// - **deferred -- the address of a frame's defer stack for a Defer._Stack.
//
// Note that nil is not on this list.
//
// Pay close attention to whether or not the dynamic type is a pointer.
// The compiler cannot help you since value is an empty interface.

import (
	"bytes"
	"fmt"
	"go/types"
	"io"
	"reflect"
	"strings"
	"sync"
	"unsafe"

	"golang.org/x/tools/go/ssa"
	"golang.org/x/tools/go/types/typeutil"
)

type value interface{}

type tuple []value

type array []value

type iface struct {
	t types.Type // never an "untyped" type
	v value
}

type structure []value

// For map, array, *array, slice, string or channel.
type iter interface {
	// next returns a Tuple (key, value, ok).
	// key and value are unaliased, e.g. copies of the sequence element.
	next() tuple
}

type closure struct {
	Fn  *ssa.Function
	Env []value
}

type bad struct{}

// Hash functions and equivalence relation:

// hashString computes the FNV hash of s.
func hashString(s string) int {
	var h uint32
	for i := 0; i < len(s); i++ {
		h ^= uint32(s[i])
		h *= 16777619
	}
	return int(h)
}

var (
	mu     sync.Mutex
	hasher = typeutil.MakeHasher()
)

// hashType returns a hash for t such that
// types.Identical(x, y) => hashType(x) == hashType(y).
func hashType(t types.Type) int {
	return int(hasher.Hash(t))
}

// usesBuiltinMap returns true if the built-in hash function and
// equivalence relation for type t are consistent with those of the
// interpreter's representation of type t.  Such types are: all basic
// types (bool, numbers, string), pointers and channels.
//
// usesBuiltinMap returns false for types that require a custom map
// implementation: interfaces, arrays and structs.
//
// Panic ensues if t is an invalid map key type: function, map or slice.
func usesBuiltinMap(t types.Type) bool {
	switch t := t.(type) {
	case *types.Basic, *types.Chan, *types.Pointer:
		return true
	case *types.Named, *types.Alias:
		return usesBuiltinMap(t.Underlying())
	case *types.Interface, *types.Array, *types.Struct:
		return false
	}
	panic(fmt.Sprintf("invalid map key type: %T", t))
}

func (x array) eq(t types.Type, _y interface{}) bool {
	y := _y.(array)
	tElt := t.Underlying().(*types.Array).Elem()
	for i, xi := range x {
		if !equals(tElt, xi, y[i]) {
			return false
		}
	}
	return true
}

func (x array) hash(t types.Type) int {
	h := 0
	tElt := t.Underlying().(*types.Array).Elem()
	for _, xi := range x {
		h += hash(t, tElt, xi)
	}
	return h
}

func (x structure) eq(t types.Type, _y interface{}) bool {
	y := _y.(structure)
	tStruct := t.Underlying().(*types.Struct)
	for i, n := 0, tStruct.NumFields(); i < n; i++ {
		if f := tStruct.Field(i); !f.Anonymous() {
			if !equals(f.Type(), x[i], y[i]) {
				return false
			}
		}
	}
	return true
}

func (x structure) hash(t types.Type) int {
	tStruct := t.Underlying().(*types.Struct)
	h := 0
	for i, n := 0, tStruct.NumFields(); i < n; i++ {
		if f := tStruct.Field(i); !f.Anonymous() {
			h += hash(t, f.Type(), x[i])
		}
	}
	return h
}

// nil-tolerant variant of types.Identical.
func sameType(x, y types.Type) bool {
	if x == nil {
		return y == nil
	}
	return y != nil && types.Identical(x, y)
}

func (x iface) eq(t types.Type, _y interface{}) bool {
	y := _y.(iface)
	return sameType(x.t, y.t) && (x.t == nil || equals(x.t, x.v, y.v))
}

func (x iface) hash(outer types.Type) int {
	return hashType(x.t)*8581 + hash(outer, x.t, x.v)
}

// equals returns true iff x and y are equal according to Go's
// linguistic equivalence relation for type t.
// In a well-typed program, the dynamic types of x and y are
// guaranteed equal.
func equals(t types.Type, x, y value) bool {
	if isSymV(x) || isSymV(y) {
		return symEqualsDecide(x, y)
	}
	switch x := x.(type) {
	case bool:
		return x == y.(bool)
	case int:
		return x == y.(int)
	case int8:
		return x == y.(int8)
	case int16:
		return x == y.(int16)
	case int32:
		return x == y.(int32)
	case int64:
		return x == y.(int64)
	case uint:
		return x == y.(uint)
	case uint8:
		return x == y.(uint8)
	case uint16:
		return x == y.(uint16)
	case uint32:
		return x == y.(uint32)
	case uint64:
		return x == y.(uint64)
	case uintptr:
		return x == y.(uintptr)
	case float32:
		return x == y.(float32)
	case float64:
		return x == y.(float64)
	case complex64:
		return x == y.(complex64)
	case complex128:
		return x == y.(complex128)
	case string:
		return x == y.(string)
	case *value:
		return x == y.(*value)
	case chan value:
		return x == y.(chan value)
	case structure:
		return x.eq(t, y)
	case array:
		return x.eq(t, y)
	case iface:
		return x.eq(t, y)
	}

	// Since map, func and slice don't support comparison, this
	// case is only reachable if one of x or y is literally nil
	// (handled in eqnil) or via interface{} values.
	panic(fmt.Sprintf("comparing uncomparable type %s", t))
}

// Returns an integer hash of x such that equals(x, y) => hash(x) == hash(y).
// The outer type is used only for the "unhashable" panic message.
func hash(outer, t types.Type, x value) int {
	switch x := x.(type) {
	case bool:
		if x {
			return 1
		}
		return 0
	case int:
		return x
	case int8:
		return int(x)
	case int16:
		return int(x)
	case int32:
		return int(x)
	case int64:
		return int(x)
	case uint:
		return int(x)
	case uint8:
		return int(x)
	case uint16:
		return int(x)
	case uint32:
		return int(x)
	case uint64:
		return int(x)
	case uintptr:
		return int(x)
	case float32:
		return int(x)
	case float64:
		return int(x)
	case complex64:
		return int(real(x))
	case complex128:
		return int(real(x))
	case string:
		return hashString(x)
	case *value:
		return int(uintptr(unsafe.Pointer(x)))
	case chan value:
		return int(uintptr(reflect.ValueOf(x).Pointer()))
	case structure:
		return x.hash(t)
	case array:
		return x.hash(t)
	case iface:
		return x.hash(t)
	}
	panic(fmt.Sprintf("unhashable type %v", outer))
}

// reflect.Value struct values don't have a fixed shape, since the
// payload can be a scalar or an aggregate depending on the instance.
// So store (and load) can't simply use recursion over the shape of the
// rhs value, or the lhs, to copy the value; we need the static type
// information.  (We can't make reflect.Value a new basic data type
// because its "structness" is exposed to Go programs.)

// load returns the value of type T in *addr.
func load(T types.Type, addr *value) value {
	switch T := T.Underlying().(type) {
	case *types.Struct:
		v := (*addr).(structure)
		a := make(structure, len(v))
		for i := range a {
			a[i] = load(T.Field(i).Type(), &v[i])
		}
		return a
	case *types.Array:
		v := (*addr).(array)
		a := make(array, len(v))
		for i := range a {
			a[i] = load(T.Elem(), &v[i])
		}
		return a
	default:
		return *addr
	}
}

// store stores value v of type T into *addr.
func store(T types.Type, addr *value, v value) {
	switch T := T.Underlying().(type) {
	case *types.Struct:
		lhs := (*addr).(structure)
		rhs := v.(structure)
		for i := range lhs {
			store(T.Field(i).Type(), &lhs[i], rhs[i])
		}
	case *types.Array:
		lhs := (*addr).(array)
		rhs := v.(array)
		for i := range lhs {
			store(T.Elem(), &lhs[i], rhs[i])
		}
	default:
		*addr = v
	}
}

// Prints in the style of built-in println.
// (More or less; in gc println is actually a compiler intrinsic and
// can distinguish println(1) from println(interface{}(1)).)
func writeValue(buf *bytes.Buffer, v value) {
	switch v := v.(type) {
	case nil, bool, int, int8, int16, int32, int64, uint, uint8, uint16, uint32, uint64, uintptr, float32, float64, complex64, complex128, string:
		fmt.Fprintf(buf, "%v", v)

	case *omap:
		buf.WriteString("map[")
		sep := ""
		for _, i := range v.liveIndices() {
			buf.WriteString(sep)
			sep = " "
			writeValue(buf, v.keys[i])
			buf.WriteString(":")
			writeValue(buf, v.vals[i])
		}
		buf.WriteString("]")

	case sym:
		buf.WriteString(v.t.String())

	case sstr:
		buf.WriteString(v.describe())

	case chan value:
		fmt.Fprintf(buf, "%v", v) // (an address)

	case *value:
		if v == nil {
			buf.WriteString("<nil>")
		} else {
			fmt.Fprintf(buf, "%p", v)
		}

	case iface:
		fmt.Fprintf(buf, "(%s, ", v.t)
		writeValue(buf, v.v)
		buf.WriteString(")")

	case structure:
		buf.WriteString("{")
		for i, e := range v {
			if i > 0 {
				buf.WriteString(" ")
			}
			writeValue(buf, e)
		}
		buf.WriteString("}")

	case array:
		buf.WriteString("[")
		for i, e := range v {
			if i > 0 {
				buf.WriteString(" ")
			}
			writeValue(buf, e)
		}
		buf.WriteString("]")

	case []value:
		buf.WriteString("[")
		for i, e := range v {
			if i > 0 {
				buf.WriteString(" ")
			}
			writeValue(buf, e)
		}
		buf.WriteString("]")

	case *ssa.Function, *ssa.Builtin, *closure:
		fmt.Fprintf(buf, "%p", v) // (an address)

	case tuple:
		// Unreachable in well-formed Go programs
		buf.WriteString("(")
		for i, e := range v {
			if i > 0 {
				buf.WriteString(", ")
			}
			writeValue(buf, e)
		}
		buf.WriteString(")")

	default:
		fmt.Fprintf(buf, "<%T>", v)
	}
}

// Implements printing of Go values in the style of built-in println.
func toString(v value) string {
	var b bytes.Buffer
	writeValue(&b, v)
	return b.String()
}

// ------------------------------------------------------------------------
// Iterators

type stringIter struct {
	*strings.Reader
	i int
}

func (it *stringIter) next() tuple {
	okv := make(tuple, 3)
	ch, n, err := it.ReadRune()
	ok := err != io.EOF
	okv[0] = ok
	if ok {
		okv[1] = it.i
		okv[2] = ch
	}
	it.i += n
	return okv
}
