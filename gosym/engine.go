package gosym

import (
	"path/filepath"
	"fmt"
	"go/token"
	"go/types"
	"os"
	"runtime"
	"sort"
	"strings"
	"sync"
	"sync/atomic"
	"time"

	"golang.org/x/tools/go/ssa"

	"verif/smt"
)

// unsupported is raised when the executor meets a construct or library call it
// cannot model with the values at hand; the path ends and the run is inconclusive.
type unsupported struct{ msg string }

// pathEnd ends the current path for a non-error reason.
type pathEnd struct{ kind, msg string }

// Config holds the bounds of one run.
type Config struct {
	MaxSteps       int // SSA instructions per path
	MaxDecisions   int // solver-checked decisions per path
	MaxPaths       int // total paths
	Workers        int
	Solver         string // z3 | z3-new | cvc5
	CrossCheck     []string
	Timeout        time.Duration
	Trace          bool
	StopOnFirst    bool
	PerLabelCap    int // stop recording more than this many violations per label (still explored)
	KeepAllSamples bool
	Deep           bool // what zz.Deep() answers: harnesses widen their bounds in the thorough tier
}

func DefaultConfig() Config {
	return Config{MaxSteps: 20_000_000, MaxDecisions: 4000, MaxPaths: 2_000_000, Workers: runtime.NumCPU(), Solver: "z3", PerLabelCap: 3}
}

// Input records one nondeterministic input created by the harness or a stub.
type Input struct {
	Name  string
	Kind  string // int | bool | bytes | choice
	Terms []*smt.Term
	Conc  int64 // choice value
	Width int
}

// Violation is one failed assertion with the solver's model.
type Violation struct {
	Label     string
	Harness   string
	Msg       string
	Inputs    map[string]any
	Decisions []int
	Notes     map[string]string
	Pos       string
}

// PathResult summarises one explored path.
type PathResult struct {
	Decisions  []int
	Status     string // ok | assume-false | unsupported | bound | error
	Msg        string
	Reach      []string
	Violations []Violation
	Steps      int
	Forks      int
	Inputs     map[string]any // a witness for the path (from the last model)
	Notes      map[string]string
}

// RunResult aggregates a harness run.
type RunResult struct {
	Harness      string
	Paths        int
	ByStatus     map[string]int
	Reach        map[string]int
	Violations   []Violation
	ViolCount    map[string]int
	Unsupported  []string
	Bound        []string
	Decisions    int64
	Steps        int64
	Samples      []PathResult
	Functions    map[string]bool
	Intrinsics   map[string]bool
	Wall         time.Duration
	Truncated    bool
	AssumeFalse  int
	MaxPathSteps int
}

type pathState struct {
	eng                      *Engine
	solver                   *smt.Solver
	prefix                   []int
	pos                      int
	decisions                []int
	siblings                 [][]int
	pc                       []*smt.Term
	model                    map[string]uint64 // satisfies pc when non-nil
	vars                     []*smt.Term
	inputs                   []*Input
	nameCount                map[string]int
	steps                    int
	reach                    []string
	viols                    []Violation
	forks                    int
	mapOrder                 bool
	flags                    map[string]value
	notes                    map[string]string
	store                    map[string]value // per-path scratch for stubs
	harness                  string
	curPos                   func() string
	writes                   []string
	resets                   []string // atomic stores / swaps on package-level state while tracking
	trackW                   bool
	gcells                   map[*value]bool
	gmaps                    map[*omap]bool
	dom                      map[*smt.Term]*[4]uint64 // over-approximate value set of each symbolic byte
	dirty                    bool
	skipped                  int
	panicSite, recoveredSite string
	noFaults                 bool
	atomics                  int
	locked                   int
	orderMode                int
	goroutines               []func() // spawned and not yet run (cooperative scheduling)
	inGoroutine              int
	orderGlobalOnly          bool
	sitePicked               bool
	sched                    *scheduler
}

func sanitize(name string) string {
	var sb strings.Builder
	for _, r := range name {
		switch {
		case r >= 'a' && r <= 'z', r >= 'A' && r <= 'Z', r >= '0' && r <= '9', r == '_':
			sb.WriteRune(r)
		default:
			sb.WriteByte('_')
		}
	}
	return sb.String()
}

func (ps *pathState) uniq(name string) string {
	n := ps.nameCount[name]
	ps.nameCount[name] = n + 1
	if n == 0 {
		return name
	}
	return fmt.Sprintf("%s#%d", name, n)
}

func (ps *pathState) newVar(name string, width int) *smt.Term {
	v := smt.Var("v_"+sanitize(name), width)
	ps.vars = append(ps.vars, v)
	return v
}

func (ps *pathState) assertPC(c *smt.Term) {
	if c.IsTrue() {
		return
	}
	ps.pc = append(ps.pc, c)
	ps.solver.Assert(c)
}

func (ps *pathState) evalModel(c *smt.Term) (uint64, bool) {
	if ps.model == nil {
		return 0, false
	}
	return smt.Eval(c, ps.model, map[*smt.Term]uint64{}), true
}

// refreshModel obtains a model of the current path condition.
func (ps *pathState) refreshModel() bool {
	r := ps.solver.Check()
	if r != smt.Sat {
		ps.model = nil
		return false
	}
	m, err := ps.solver.Model(ps.vars)
	if err != nil {
		ps.model = nil
		return false
	}
	ps.model = m
	return true
}

// feasible reports whether pc ∧ c is satisfiable; on Sat it returns the model.
func (ps *pathState) feasible(c *smt.Term) (smt.Result, map[string]uint64) {
	ps.solver.Push()
	ps.solver.Assert(c)
	r := ps.solver.Check()
	var m map[string]uint64
	if r == smt.Sat {
		m, _ = ps.solver.Model(ps.vars)
	}
	ps.solver.Pop()
	return r, m
}

func (ps *pathState) record(d int) {
	ps.decisions = append(ps.decisions, d)
	ps.pos++
	if len(ps.decisions) > ps.eng.Cfg.MaxDecisions {
		panic(pathEnd{"bound", fmt.Sprintf("more than %d decisions on one path", ps.eng.Cfg.MaxDecisions)})
	}
}

func (ps *pathState) sibling(d int) {
	s := make([]int, len(ps.decisions)+1)
	copy(s, ps.decisions)
	s[len(ps.decisions)] = d
	ps.siblings = append(ps.siblings, s)
	ps.forks++
}

// byteTable: for a condition over exactly one 8-bit variable, its truth table.
type byteTable struct {
	v   *smt.Term
	tab [4]uint64
}

var byteTables sync.Map // term ID -> *byteTable (nil entry = not single-byte)

func singleByteTable(c *smt.Term) *byteTable {
	if e, ok := byteTables.Load(c.ID); ok {
		bt, _ := e.(*byteTable)
		return bt
	}
	vars := map[*smt.Term]bool{}
	smt.Vars(c, vars, map[*smt.Term]bool{})
	var bt *byteTable
	if len(vars) == 1 {
		for v := range vars {
			if v.Width == 8 {
				bt = &byteTable{v: v}
				m := map[string]uint64{}
				for x := 0; x < 256; x++ {
					m[v.Name] = uint64(x)
					if smt.Eval(c, m, map[*smt.Term]uint64{}) != 0 {
						bt.tab[x/64] |= 1 << uint(x%64)
					}
				}
			}
		}
	}
	if bt == nil {
		byteTables.Store(c.ID, (*byteTable)(nil))
	} else {
		byteTables.Store(c.ID, bt)
	}
	return bt
}

func (ps *pathState) domain(v *smt.Term) *[4]uint64 {
	if d, ok := ps.dom[v]; ok {
		return d
	}
	d := &[4]uint64{^uint64(0), ^uint64(0), ^uint64(0), ^uint64(0)}
	ps.dom[v] = d
	return d
}

// refine narrows the domain of the byte variable of a single-byte condition.
func (ps *pathState) refine(c *smt.Term, val bool) {
	if bt := singleByteTable(c); bt != nil {
		d := ps.domain(bt.v)
		for k := 0; k < 4; k++ {
			if val {
				d[k] &= bt.tab[k]
			} else {
				d[k] &^= bt.tab[k]
			}
		}
	}
}

// forcedByDomain: 1 = c must be true, 0 = must be false, -1 = not decided by the byte domain.
func (ps *pathState) forcedByDomain(c *smt.Term) int {
	bt := singleByteTable(c)
	if bt == nil {
		// a conjunction/disjunction of byte conditions may still be settled by one operand
		switch c.Op {
		case smt.OpAnd:
			all := true
			for _, a := range c.Args {
				switch ps.forcedByDomain(a) {
				case 0:
					return 0
				case -1:
					all = false
				}
			}
			if all {
				return 1
			}
		case smt.OpOr:
			all := true
			for _, a := range c.Args {
				switch ps.forcedByDomain(a) {
				case 1:
					return 1
				case -1:
					all = false
				}
			}
			if all {
				return 0
			}
		case smt.OpNot:
			if f := ps.forcedByDomain(c.Args[0]); f >= 0 {
				return 1 - f
			}
		}
		return -1
	}
	d := ps.domain(bt.v)
	anyT, anyF := false, false
	for k := 0; k < 4; k++ {
		if d[k]&bt.tab[k] != 0 {
			anyT = true
		}
		if d[k]&^bt.tab[k] != 0 {
			anyF = true
		}
	}
	switch {
	case anyT && !anyF:
		return 1
	case anyF && !anyT:
		return 0
	}
	return -1
}

// decide returns the truth value of c on this path, forking when both are feasible.
func (ps *pathState) decide(c *smt.Term) bool {
	if c.IsConst() {
		return c.IsTrue()
	}
	// conditions over one symbolic byte whose recorded value set already settles them
	// are implied by the path condition: no decision, no solver call.
	if f := ps.forcedByDomain(c); f >= 0 {
		ps.skipped++
		return f == 1
	}
	if ps.pos < len(ps.prefix) {
		d := ps.prefix[ps.pos] != 0
		ps.record(ps.prefix[ps.pos])
		if d {
			ps.assertPC(c)
		} else {
			ps.assertPC(smt.Not(c))
		}
		ps.refine(c, d)
		ps.model = nil
		return d
	}
	if ps.model == nil {
		if !ps.refreshModel() {
			// path condition itself not (known) satisfiable: stop.
			panic(pathEnd{"solver-unknown", "path condition not satisfiable/unknown at decision"})
		}
	}
	mv, _ := ps.evalModel(c)
	cur := mv != 0
	var other *smt.Term
	if cur {
		other = smt.Not(c)
	} else {
		other = c
	}
	r, _ := ps.feasible(other)
	if r != smt.Unsat {
		// both feasible (or unknown: keep, flagged)
		if r == smt.Unknown {
			ps.note("solver-unknown-branch", "kept")
		}
		// take cur side now, queue the other
		od := 0
		if !cur {
			od = 1
		}
		ps.sibling(od)
	}
	if cur {
		ps.record(1)
		ps.assertPC(c)
	} else {
		ps.record(0)
		ps.assertPC(smt.Not(c))
	}
	ps.refine(c, cur)
	return cur
}

// choose makes an unconstrained n-way choice (no solver involved).
func (ps *pathState) choose(n int) int {
	if n <= 0 {
		panic(pathEnd{"assume-false", "choice over empty range"})
	}
	if n == 1 {
		return 0
	}
	if ps.pos < len(ps.prefix) {
		d := ps.prefix[ps.pos]
		ps.record(d)
		return d
	}
	for i := n - 1; i >= 1; i-- {
		ps.sibling(i)
	}
	ps.record(0)
	return 0
}

// concretize forks over all feasible values of t.
func (ps *pathState) concretize(t *smt.Term) uint64 {
	if t.IsConst() {
		return t.Val
	}
	for n := 0; ; n++ {
		if n > 300 {
			panic(pathEnd{"bound", "concretisation of a value with more than 300 alternatives (unbounded symbolic value used where the code needs a concrete one)"})
		}
		var v uint64
		if ps.pos < len(ps.prefix) {
			// replaying: the value tried is stored in the prefix (decision = value+2 when taken)
			d := ps.prefix[ps.pos]
			if d >= 2 {
				v = uint64(d - 2)
				ps.record(d)
				ps.assertPC(smt.Eq(t, smt.BV(v, t.Width)))
				ps.model = nil
				return v
			}
			// d <= -2 encodes "not value"
			v = uint64(-d - 2)
			ps.record(d)
			ps.assertPC(smt.Not(smt.Eq(t, smt.BV(v, t.Width))))
			ps.model = nil
			continue
		}
		if ps.model == nil && !ps.refreshModel() {
			panic(pathEnd{"solver-unknown", "path condition unknown during concretisation"})
		}
		v, _ = ps.evalModel(t)
		eq := smt.Eq(t, smt.BV(v, t.Width))
		r, _ := ps.feasible(smt.Not(eq))
		if r != smt.Unsat {
			ps.sibling(-int(v) - 2)
		}
		ps.record(int(v) + 2)
		ps.assertPC(eq)
		return v
	}
}

func (ps *pathState) note(k, v string) {
	if ps.notes == nil {
		ps.notes = map[string]string{}
	}
	ps.notes[k] = v
}

// mapIter builds the iteration order of a map: insertion order by default. With
// map-order exploration on, a path either (a) reverses every map, (b) rotates every
// map, or (c) picks ONE iteration site and gives it an arbitrary permutation (all n!
// for n <= 4, else reverse / rotate / swap of the first two) while all other sites
// keep insertion order. Interactions between two deviating sites are outside the bound.
func (ps *pathState) mapIter(m *omap) iter {
	idx := m.liveIndices()
	if ps.mapOrder && len(idx) > 1 {
		if ps.orderMode == 0 {
			if ps.orderGlobalOnly {
				ps.orderMode = 2 + ps.choose(2) // canonical order is the reference run
			} else {
				ps.orderMode = 1 + ps.choose(3)
			}
		}
		reverse := func() {
			rev := make([]int, len(idx))
			for k := range idx {
				rev[k] = idx[len(idx)-1-k]
			}
			idx = rev
		}
		rotate := func() {
			h := (len(idx) + 1) / 2
			idx = append(append([]int{}, idx[h:]...), idx[:h]...)
		}
		switch ps.orderMode {
		case 2:
			reverse()
		case 3:
			rotate()
		default:
			if !ps.sitePicked && ps.choose(2) == 0 {
				ps.sitePicked = true
				if len(idx) <= 4 {
					rest := append([]int{}, idx...)
					var order []int
					for len(rest) > 0 {
						c := ps.choose(len(rest))
						order = append(order, rest[c])
						rest = append(rest[:c], rest[c+1:]...)
					}
					idx = order
				} else {
					switch ps.choose(3) {
					case 0:
						reverse()
					case 1:
						rotate()
					default:
						idx = append([]int{idx[1], idx[0]}, idx[2:]...)
					}
				}
			}
		}
	}
	return &omapIter{m: m, order: idx}
}

// witness evaluates all inputs under model m.
func (ps *pathState) witness(m map[string]uint64) map[string]any {
	out := map[string]any{}
	memo := map[*smt.Term]uint64{}
	for _, in := range ps.inputs {
		switch in.Kind {
		case "choice":
			out[in.Name] = in.Conc
		case "bool":
			out[in.Name] = smt.Eval(in.Terms[0], m, memo) != 0
		case "int":
			out[in.Name] = smt.BV(smt.Eval(in.Terms[0], m, memo), in.Width).Signed()
		case "bytes":
			bs := make([]int, len(in.Terms))
			for i, t := range in.Terms {
				bs[i] = int(smt.Eval(t, m, memo))
			}
			out[in.Name] = bs
		}
	}
	return out
}

func (ps *pathState) violation(label, msg string, m map[string]uint64) {
	v := Violation{Label: label, Harness: ps.harness, Msg: msg, Decisions: append([]int{}, ps.decisions...)}
	if m == nil {
		if ps.model == nil {
			ps.refreshModel()
		}
		m = ps.model
	}
	if m == nil {
		m = map[string]uint64{}
		v.Msg += " (no model available)"
	}
	v.Inputs = ps.witness(m)
	v.Notes = map[string]string{}
	for k, x := range ps.notes {
		v.Notes[k] = x
	}
	if ps.curPos != nil {
		v.Pos = ps.curPos()
	}
	ps.viols = append(ps.viols, v)
}

// assertCond checks an assertion; a symbolic condition is decided by the solver.
func (ps *pathState) assertCond(label string, c value) {
	switch c := c.(type) {
	case bool:
		if !c {
			ps.violation(label, "assertion false on this path", nil)
		}
	case sym:
		r, m := ps.feasible(smt.Not(c.t))
		switch r {
		case smt.Sat:
			ps.violation(label, "assertion can be false", m)
			// continue under the assumption that it held, if possible
			rr, _ := ps.feasible(c.t)
			if rr == smt.Unsat {
				panic(pathEnd{"ok", "assertion always false; path ends"})
			}
			ps.assertPC(c.t)
			ps.model = nil
		case smt.Unknown:
			panic(pathEnd{"solver-unknown", "assertion " + label + " undecided"})
		}
	default:
		panic(unsupported{fmt.Sprintf("assert on %T", c)})
	}
}

func (ps *pathState) assume(c value) {
	switch c := c.(type) {
	case bool:
		if !c {
			panic(pathEnd{"assume-false", ""})
		}
	case sym:
		ps.refine(c.t, true)
		if ps.pos < len(ps.prefix) {
			// still replaying: feasibility was established by the parent path
			ps.assertPC(c.t)
			ps.model = nil
			return
		}
		if mv, ok := ps.evalModel(c.t); ok && mv != 0 {
			ps.assertPC(c.t)
			return
		}
		r, m := ps.feasible(c.t)
		if r == smt.Unsat {
			panic(pathEnd{"assume-false", ""})
		}
		if r == smt.Unknown {
			panic(pathEnd{"solver-unknown", "assumption undecided"})
		}
		ps.assertPC(c.t)
		ps.model = m
	default:
		panic(unsupported{fmt.Sprintf("assume on %T", c)})
	}
}

// ---------------------------------------------------------------------------

// Engine is a loaded program plus run configuration.
type Engine struct {
	Prog      *ssa.Program
	Pkgs      map[string]*ssa.Package // by import path
	ModPath   string
	InitOrder []*ssa.Package // repo packages in dependency order
	Cfg       Config
	Sizes     types.Sizes
	intr      map[string]intrinsic
	repoStubs map[string]intrinsic
	rtErrStr  types.Type
	Fset      *token.FileSet
	typeCache sync.Map
	// Dropped: harness files that did not type-check against the tree (file -> errors); they were loaded empty
	Dropped map[string][]string
}

type intrinsic func(fr *frame, args []value) value

func (e *Engine) isRepoPkg(p *ssa.Package) bool {
	if p == nil {
		return false
	}
	path := p.Pkg.Path()
	return path == e.ModPath || strings.HasPrefix(path, e.ModPath+"/")
}

type worklist struct {
	mu      sync.Mutex
	cond    *sync.Cond
	items   [][]int
	active  int
	stopped bool
}

func (w *worklist) push(items ...[]int) {
	w.mu.Lock()
	w.items = append(w.items, items...)
	w.mu.Unlock()
	w.cond.Broadcast()
}

func (w *worklist) pop() ([]int, bool) {
	w.mu.Lock()
	defer w.mu.Unlock()
	for {
		if w.stopped {
			return nil, false
		}
		if n := len(w.items); n > 0 {
			it := w.items[n-1]
			w.items = w.items[:n-1]
			w.active++
			return it, true
		}
		if w.active == 0 {
			w.cond.Broadcast()
			return nil, false
		}
		w.cond.Wait()
	}
}

func (w *worklist) done() {
	w.mu.Lock()
	w.active--
	w.mu.Unlock()
	w.cond.Broadcast()
}

// Run explores every path of the harness function pkgPath.fnName.
func (e *Engine) Run(pkgPath, fnName string) (*RunResult, error) {
	pkg := e.Pkgs[pkgPath]
	if pkg == nil {
		return nil, fmt.Errorf("package %s not loaded", pkgPath)
	}
	fn := pkg.Func(fnName)
	if fn == nil {
		if len(e.Dropped) > 0 {
			var why []string
			for file, es := range e.Dropped {
				why = append(why, filepath.Base(file)+": "+es[0])
			}
			sort.Strings(why)
			return nil, fmt.Errorf("harness %s.%s not runnable on this tree: harness files that no longer type-check were left out (%s)", pkgPath, fnName, strings.Join(why, "; "))
		}
		return nil, fmt.Errorf("harness %s.%s not found", pkgPath, fnName)
	}
	res := &RunResult{Harness: fnName, ByStatus: map[string]int{}, Reach: map[string]int{}, ViolCount: map[string]int{},
		Functions: map[string]bool{}, Intrinsics: map[string]bool{}}
	t0 := time.Now()
	wl := &worklist{}
	wl.cond = sync.NewCond(&wl.mu)
	wl.push([]int{})
	var mu sync.Mutex
	var npaths int64
	var wg sync.WaitGroup
	workers := e.Cfg.Workers
	if workers < 1 {
		workers = 1
	}
	deadline := time.Time{}
	if e.Cfg.Timeout > 0 {
		deadline = t0.Add(e.Cfg.Timeout)
	}
	var firstErr error
	for w := 0; w < workers; w++ {
		wg.Add(1)
		go func() {
			defer wg.Done()
			solver, err := smt.NewSolver(e.Cfg.Solver)
			if err != nil {
				mu.Lock()
				firstErr = err
				mu.Unlock()
				return
			}
			defer solver.Close()
			for _, sh := range e.Cfg.CrossCheck {
				if err := solver.AddShadow(sh); err != nil {
					mu.Lock()
					firstErr = err
					mu.Unlock()
					return
				}
			}
			var cache *initCache
			for {
				prefix, ok := wl.pop()
				if !ok {
					return
				}
				n := atomic.AddInt64(&npaths, 1)
				if int(n) > e.Cfg.MaxPaths || (!deadline.IsZero() && time.Now().After(deadline)) {
					mu.Lock()
					res.Truncated = true
					mu.Unlock()
					wl.mu.Lock()
					wl.stopped = true
					wl.mu.Unlock()
					wl.cond.Broadcast()
					wl.done()
					return
				}
				pr, sibs, fns, intr := e.runPath(solver, fn, prefix, &cache)
				wl.push(sibs...)
				mu.Lock()
				res.Paths++
				res.ByStatus[pr.Status]++
				res.Steps += int64(pr.Steps)
				res.Decisions += int64(len(pr.Decisions))
				if pr.Steps > res.MaxPathSteps {
					res.MaxPathSteps = pr.Steps
				}
				for _, r := range pr.Reach {
					res.Reach[r]++
				}
				for f := range fns {
					res.Functions[f] = true
				}
				for f := range intr {
					res.Intrinsics[f] = true
				}
				switch pr.Status {
				case "unsupported", "error", "solver-unknown":
					if len(res.Unsupported) < 20 {
						res.Unsupported = append(res.Unsupported, pr.Status+": "+pr.Msg)
					}
				case "bound":
					if len(res.Bound) < 20 {
						res.Bound = append(res.Bound, pr.Msg)
					}
				case "assume-false":
					res.AssumeFalse++
				}
				for _, v := range pr.Violations {
					res.ViolCount[v.Label]++
					if res.ViolCount[v.Label] <= e.Cfg.PerLabelCap {
						res.Violations = append(res.Violations, v)
					}
				}
				if (len(res.Samples) < 6 || e.Cfg.KeepAllSamples) && (pr.Status == "ok") {
					res.Samples = append(res.Samples, pr)
				}
				stop := e.Cfg.StopOnFirst && len(res.Violations) > 0
				mu.Unlock()
				wl.done()
				if stop {
					wl.mu.Lock()
					wl.stopped = true
					wl.mu.Unlock()
					wl.cond.Broadcast()
					return
				}
			}
		}()
	}
	wg.Wait()
	res.Wall = time.Since(t0)
	sort.Slice(res.Violations, func(i, j int) bool { return res.Violations[i].Label < res.Violations[j].Label })
	return res, firstErr
}

// initCache keeps a worker's post-initialisation package state between paths; it
// is dropped as soon as a path stores into anything reachable from package variables.
type initCache struct {
	globals map[*ssa.Global]*value
	inited  map[*ssa.Package]bool
	gcells  map[*value]bool
	gmaps   map[*omap]bool
	steps   int
}

// runPath executes the harness once along the given decision prefix.
func (e *Engine) runPath(solver *smt.Solver, fn *ssa.Function, prefix []int, cache **initCache) (pr PathResult, siblings [][]int, fns map[string]bool, intr map[string]bool) {
	solver.Reset()
	solver.Push()
	ps := &pathState{eng: e, solver: solver, prefix: prefix, nameCount: map[string]int{}, flags: map[string]value{}, store: map[string]value{}, harness: fn.Name(), dom: map[*smt.Term]*[4]uint64{}}
	i := &interpreter{
		prog:               e.Prog,
		globals:            make(map[*ssa.Global]*value),
		sizes:              e.Sizes,
		goroutines:         1,
		ps:                 ps,
		eng:                e,
		runtimeErrorString: e.rtErrStr,
		fnsSeen:            map[string]bool{},
		intrSeen:           map[string]bool{},
		inited:             map[*ssa.Package]bool{},
		extGlobals:         map[*ssa.Global]*value{},
	}
	if e.Cfg.Trace {
		i.mode |= EnableTracing
	}
	ps.curPos = func() string {
		if i.curFrame != nil && i.curInstr != nil {
			return i.curFrame.fn.String() + " @ " + e.Fset.Position(i.curInstr.Pos()).String()
		}
		return ""
	}
	status, msg := "ok", ""
	func() {
		defer func() {
			r := recover()
			if r == nil {
				return
			}
			switch p := r.(type) {
			case pathEnd:
				status, msg = p.kind, p.msg
			case unsupported:
				status, msg = "unsupported", p.msg+" at "+ps.curPos()
			case exitPanic:
				status, msg = "ok", "exit"
			case fatalError:
				ps.violation("PANIC:fatal error: stack overflow", p.msg, nil)
			case targetPanic:
				ps.violation("PANIC:"+panicClass(toStringDeep(p.v)), "panic escaped the harness: "+toStringDeep(p.v), nil)
			case runtime.Error:
				s := p.Error()
				if strings.Contains(s, "gosym.") || strings.Contains(s, "smt.") {
					status, msg = "error", "executor fault: "+s+" at "+ps.curPos()
					if os.Getenv("VERIF_DEBUG") != "" {
						buf := make([]byte, 1<<14)
						buf = buf[:runtime.Stack(buf, false)]
						msg += "\n" + string(buf)
					}
				} else {
					ps.violation("PANIC:"+panicClass(s), "runtime error escaped the harness: "+s, nil)
				}
			case string:
				if strings.HasPrefix(p, "runtime error") || strings.HasPrefix(p, "interface conversion") || strings.Contains(p, "nil map") || strings.HasPrefix(p, "assignment to entry in nil map") || strings.HasPrefix(p, "value method") || strings.HasPrefix(p, "method invoked on nil") {
					ps.violation("PANIC:"+panicClass(p), "runtime error escaped the harness: "+p, nil)
				} else {
					status, msg = "error", "executor fault: "+p+" at "+ps.curPos()
				}
			default:
				status, msg = "error", fmt.Sprintf("executor fault: %v at %s", r, ps.curPos())
			}
		}()
		if c := *cache; c != nil {
			i.globals, i.inited = c.globals, c.inited
			ps.gcells, ps.gmaps = c.gcells, c.gmaps
		} else {
			i.ensureInit(fn.Pkg)
			i.snapshotGlobals()
			*cache = &initCache{globals: i.globals, inited: i.inited, gcells: ps.gcells, gmaps: ps.gmaps, steps: ps.steps}
			ps.dirty = false
		}
		call(i, nil, token.NoPos, fn, nil)
		ps.runGoroutines() // goroutines the harness left behind
	}()
	if ps.dirty || status == "error" {
		*cache = nil
	}
	pr = PathResult{Decisions: ps.decisions, Status: status, Msg: msg, Reach: ps.reach, Violations: ps.viols, Steps: ps.steps, Forks: ps.forks, Notes: ps.notes}
	if status == "ok" && len(ps.inputs) > 0 {
		if ps.model == nil {
			ps.refreshModel()
		}
		if ps.model != nil {
			pr.Inputs = ps.witness(ps.model)
		}
	}
	return pr, ps.siblings, i.fnsSeen, i.intrSeen
}

func panicClass(s string) string {
	// keep the stable part of a panic message as a label
	s = strings.TrimSpace(s)
	if i := strings.IndexAny(s, "\n"); i >= 0 {
		s = s[:i]
	}
	if len(s) > 80 {
		s = s[:80]
	}
	return s
}

// runGoroutines runs every pending goroutine (and the ones they spawn) to completion. While map /
// schedule order exploration is on, a batch of several goroutines is run in creation order,
// reversed or rotated (one choice per path); otherwise in creation order.
func (ps *pathState) runGoroutines() {
	for rounds := 0; len(ps.goroutines) > 0; rounds++ {
		if rounds > 10000 {
			panic(unsupported{"goroutines keep spawning goroutines"})
		}
		batch := ps.goroutines
		ps.goroutines = nil
		if ps.mapOrder && len(batch) > 1 {
			switch ps.choose(3) {
			case 1:
				for i, j := 0, len(batch)-1; i < j; i, j = i+1, j-1 {
					batch[i], batch[j] = batch[j], batch[i]
				}
			case 2:
				h := (len(batch) + 1) / 2
				batch = append(append([]func(){}, batch[h:]...), batch[:h]...)
			}
		}
		for _, g := range batch {
			g()
		}
	}
}
